// wC20 — value equality and comparison are total and lawful.
//
// Real golib values (all implemented type codes) are built from the worker's own
// descriptions, compared with golib's Equals / CompareTo, and the RESULTS are checked against
// laws only (no model of what the answer should be):
//
//	totality                 no Equals / CompareTo call panics — or fails to return (guard.go: every call runs
//	                         under a termination guard; key suffix :never-returns), with the same object on
//	                         both sides included (per container type and size class)
//	Equals-reflexive         v.Equals(v)
//	Equals-symmetric         a.Equals(b) == b.Equals(a)
//	Equals-transitive        a=b ∧ b=c ⇒ a=c                       (triples)
//	Equals-decoded-copy      v.Equals(ReadValue(WriteValue(v))); a value whose own encoding cannot be decoded has
//	                         no copy to be equal to (key suffix :own-encoding-not-decodable). alias.go: containers
//	                         of minimal-size elements ending the input; payload slices sharing backing arrays
//	CompareTo-antisymmetric  sign(a.cmp(b)) == −sign(b.cmp(a))     (same type; a.cmp(a)==0 included)
//	CompareTo-transitive     a≤b ∧ b≤c ⇒ a≤c                       (triples)
//	CompareTo-zero-iff-equal scalars: a.cmp(b)==0 ⇔ a.Equals(b)
//	CompareTo-type-order     different types: sign(a.cmp(b)) == sign(code(a)−code(b)), both directions
//
// and, over the HISTORY of calls (history.go: every built or decoded value, node by node, is
// snapshotted and looked at again after every later constructor call, decode and comparison;
// unrelated decodes — fed with reference encodings — run between building values and judging
// the laws on them):
//
//	value-changed-by-unrelated-call   a live value's fields / encoding moved although it was not touched
//	                                  (shapes after-constructor, after-decode, after-compare, older-value)
//	constructor-independence          two values whose encodings differed at creation are one object
//	result-changed-by-unrelated-call  an Equals / CompareTo result taken before unrelated decodes differs after them
//	Equals-decoded-copy …/after-decode      a decoded copy that equalled its original no longer does after later decodes
//	Equals-decoded-copy …/mixed-container   containers mixing different payloads of one type (both bools, several numbers …)
//
// Finding keys: <law>/<TypeA>×<TypeB>/<shape>. The shape is one small class name computed from
// the worker's descriptions of the compared values (classify.go). For an irregular shape the
// type part names the node where the shape arises (e.g. LongSummary×LongSummary for two lists
// holding summaries with equal sums and different counts), so that the same irregularity
// wrapped in a container is the same finding; for plain pairs it names the two top-level
// types. CompareTo-type-order is keyed <Receiver>×higher-type|lower-type (the receiver's
// CompareTo is what answers); triples of different types are keyed mixed-types.
package main

import (
	"fmt"

	"github.com/whatap/golib/lang/value"

	"verif/vlib"
)

type item struct {
	s *spec
	v value.Value
}

// mk builds the real value (every node enters the ledger of live values) and has the ledger
// look at every older live value again: a constructor call changes nothing but its result.
func mk(s *spec) item {
	led.op("build", s)
	it := item{s: s, v: build(s)}
	led.verify(shAfterCtor, false, func() string { return "building " + renderShort(s) })
	return it
}

func sign(x int) int {
	switch {
	case x < 0:
		return -1
	case x > 0:
		return 1
	}
	return 0
}

type mon struct {
	c     *vlib.Ctx
	cells map[string]struct{} // ordered type pairs this child has compared (for the matrix floor)

	noiseTypes map[byte]int64 // unrelated decodes per top-level type
	mixedSeen  map[byte]int64 // decoded-copy law on containers mixing payloads of this type
	held       []held         // (value, decoded copy) pairs of the running case, looked at again at its end
	ctorTypes  map[byte]int64 // histories in which two live values of this type were built with different payloads
	sameObj    map[string]int64 // x.Equals(x) / x.CompareTo(x) per container type and size class
	minimal    map[string]int64 // decoded-copy law on containers of minimal-size elements, per class
	shared     map[string]int64 // comparisons of values whose payload slices share a backing array, per type and kind
}

func sizeClass(n int) string {
	switch {
	case n < 2:
		return "0-1"
	case n == 2:
		return "2"
	case n <= 5:
		return "3-5"
	}
	return "6+"
}

func (m *mon) cell(t string) {
	if _, ok := m.cells[t]; !ok {
		m.cells[t] = struct{}{}
		m.c.SetAdd("type_pair_matrix", t)
	}
}

// eq / cmp run one call of the code under test, recovering a panic.
func eq(a, b value.Value) (res bool, p interface{}) {
	p = grd.run("Equals", a, b, func() { res = a.Equals(b) })
	return
}
func cmp(a, b value.Value) (res int, p interface{}) {
	p = grd.run("CompareTo", a, b, func() { res = a.CompareTo(b) })
	return
}

func tn(s *spec) string { return typeName[s.code] }

func pairTypes(a, b *spec) string { return tn(a) + "×" + tn(b) }

// unordered type pair for laws that do not distinguish receiver and argument
func pairTypesU(a, b *spec) string {
	if a.code > b.code {
		a, b = b, a
	}
	return tn(a) + "×" + tn(b)
}

func hexOf(v value.Value) string {
	var out string
	if p := vlib.Catch(func() { out = vlib.Hex(encode(v)) }); p != nil {
		return fmt.Sprintf("(WriteValue panicked: %v)", p)
	}
	return out
}

func (m *mon) detail(recipe string, a, b item, extra map[string]interface{}) map[string]interface{} {
	d := map[string]interface{}{
		"recipe": recipe,
		"a":      renderShort(a.s), "b": renderShort(b.s),
		"a_type_code": a.s.code, "b_type_code": b.s.code,
		"a_wire_hex": hexOf(a.v), "b_wire_hex": hexOf(b.v),
	}
	for k, v := range extra {
		d[k] = v
	}
	return d
}

// selfLaws: reflexivity and the decoded-copy law for one value.
func (m *mon) selfLaws(recipe string, a item) {
	c := m.c
	sh, t := classSelf(a.s, false)
	if isContainer(a.s.code) {
		m.sameObj[tn(a.s)+"/"+sizeClass(len(a.s.items))]++
	}
	e, p := eq(a.v, a.v)
	c.Count("calls_Equals", 1)
	if isSkipped(p) {
	} else if p != nil {
		c.Fail("totality-Equals/"+t+"/"+sh, fmt.Sprintf("v.Equals(v) panicked: %v; v=%s", p, renderShort(a.s)), m.detail(recipe, a, a, map[string]interface{}{"panic": fmt.Sprint(p)}))
	} else if !e {
		c.Fail("Equals-reflexive/"+t+"/"+sh, "v.Equals(v) is false; v="+renderShort(a.s), m.detail(recipe, a, a, nil))
	}
	c.Count("law_Equals_reflexive", 1)
	r, p := cmp(a.v, a.v)
	c.Count("calls_CompareTo", 1)
	if isSkipped(p) {
	} else if p != nil {
		c.Fail("totality-CompareTo/"+t+"/"+sh, fmt.Sprintf("v.CompareTo(v) panicked: %v; v=%s", p, renderShort(a.s)), m.detail(recipe, a, a, map[string]interface{}{"panic": fmt.Sprint(p)}))
	} else {
		if r != 0 {
			c.Fail("CompareTo-antisymmetric/"+t+"/"+sh, fmt.Sprintf("v.CompareTo(v)=%d, not 0; v=%s", r, renderShort(a.s)), m.detail(recipe, a, a, map[string]interface{}{"cmp": r}))
		}
		if isScalar(a.s.code) && p == nil && (r == 0) != e {
			c.Fail("CompareTo-zero-iff-equal/"+t+"/"+sh, fmt.Sprintf("v.CompareTo(v)=%d but v.Equals(v)=%v; v=%s", r, e, renderShort(a.s)), m.detail(recipe, a, a, nil))
		}
	}

	compared()

	// the decoded copy, through golib's own WriteValue / ReadValue
	if d, wire, ok := m.decodedCopy(recipe, a); ok {
		m.judgeDecoded(recipe, a, d.v, wire)
	}
}

// decodedCopy: "the result of decoding its encoding", through golib's own WriteValue and
// ReadValue. An encoder that fails is C02's subject and only counted. A value whose OWN encoding
// (all of the input, the value is the last thing in it) cannot be decoded has no decoded copy
// to be equal to: that is a failure of the decoded-copy law, keyed with the suffix
// :own-encoding-not-decodable.
func (m *mon) decodedCopy(recipe string, a item) (item, []byte, bool) {
	c := m.c
	wire, p := encodeCatch(a.v)
	if p != nil {
		c.Count("encoder_failed_not_judged_here", 1)
		return item{}, nil, false
	}
	d, p := decodeWatched(a.s, wire)
	c.Count("own_encodings_decoded", 1)
	if p != nil || d == nil {
		sh, t := classSelf(a.s, true)
		c.Fail("Equals-decoded-copy/"+t+"/"+sh+":own-encoding-not-decodable",
			fmt.Sprintf("ReadValue(WriteValue(v)) fails (%v): v has no decoded copy to be equal to; v=%s", p, renderShort(a.s)),
			m.detail(recipe, a, a, map[string]interface{}{"wire_hex": vlib.Hex(wire), "ReadValue_panic": fmt.Sprint(p), "calls_of_the_case_so_far": led.opLog()}))
		return item{}, wire, false
	}
	return item{s: asDecoded(a.s), v: d}, wire, true
}

// judgeDecoded: the decoded-copy law on a value and the result d of decoding its encoding
// wire. It returns the two Equals results (ok=false if one of them panicked).
func (m *mon) judgeDecoded(recipe string, a item, d value.Value, wire []byte) (e1, e2, ok bool) {
	c := m.c
	dsh, dt := classSelf(a.s, true)
	if dsh == shPlain {
		// a container mixing different payloads of one type: every decoded element must be a
		// value of its own (the type part of the key names the first element that is not)
		if mixed := mixedTypes(a.s); len(mixed) > 0 {
			dsh = shMixed
			for _, code := range mixed {
				m.mixedSeen[code]++
				c.Count("decoded_copy_mixed_"+typeName[code], 1)
			}
		}
	}
	if dsh != shPlain {
		c.Count("decoded_copy_shape_"+dsh, 1)
	}
	where := func() { dsh, dt = nameDecodedFailure(a.s, a.v, d, dsh, dt) }
	e1, p1 := eq(a.v, d)
	e2, p2 := eq(d, a.v)
	compared()
	ok = p1 == nil && p2 == nil
	c.Count("calls_Equals", 2)
	c.Count("law_Equals_decoded_copy", 1)
	det := func() map[string]interface{} {
		ex := map[string]interface{}{"wire_hex": vlib.Hex(wire), "v.Equals(copy)": e1, "copy.Equals(v)": e2, "calls_of_the_case_so_far": led.opLog()}
		return m.detail(recipe, a, item{s: asDecoded(a.s), v: d}, ex)
	}
	switch {
	case isSkipped(p1) || isSkipped(p2):
	case p1 != nil || p2 != nil:
		c.Fail("totality-Equals/"+dt+"/"+dsh, fmt.Sprintf("Equals between v and its decoded copy panicked: %v %v; v=%s", p1, p2, renderShort(a.s)), det())
	case !e1:
		where()
		c.Fail("Equals-decoded-copy/"+dt+"/"+dsh, "v.Equals(ReadValue(WriteValue(v))) is false; v="+renderShort(a.s), det())
	case !e2:
		where()
		c.Fail("Equals-symmetric/"+dt+"/"+dsh, "v.Equals(copy) is true but copy.Equals(v) is false for the decoded copy; v="+renderShort(a.s), det())
	}
	return
}

// pairLaws: every two-value law on (a,b), in both directions.
func (m *mon) pairLaws(recipe string, a, b item) {
	c := m.c
	sh, tAB := classPair(a.s, b.s)
	_, tBA := classPair(b.s, a.s)
	same := a.s.code == b.s.code
	tU := tAB // same type: receiver and argument types coincide
	if !same {
		tU = pairTypesU(a.s, b.s)
	}
	m.cell(pairTypes(a.s, b.s))
	m.cell(pairTypes(b.s, a.s))
	c.Count("shape_"+sh, 1)
	if same {
		c.SetAdd("shapes_seen", tn(a.s)+"/"+sh)
	}

	eAB, pe1 := eq(a.v, b.v)
	eBA, pe2 := eq(b.v, a.v)
	cAB, pc1 := cmp(a.v, b.v)
	cBA, pc2 := cmp(b.v, a.v)
	c.Count("calls_Equals", 2)
	c.Count("calls_CompareTo", 2)
	res := map[string]interface{}{"shape": sh, "shape_arises_at": tAB}
	put := func(k string, v interface{}, p interface{}) {
		if p != nil {
			res[k] = fmt.Sprintf("PANIC: %v", p)
		} else {
			res[k] = v
		}
	}
	put("a.Equals(b)", eAB, pe1)
	put("b.Equals(a)", eBA, pe2)
	put("a.CompareTo(b)", cAB, pc1)
	put("b.CompareTo(a)", cBA, pc2)
	w := func() string { return "a=" + renderShort(a.s) + " b=" + renderShort(b.s) }

	// totality
	if pe1 != nil && !isSkipped(pe1) {
		c.Fail("totality-Equals/"+tAB+"/"+sh, fmt.Sprintf("a.Equals(b) panicked: %v; %s", pe1, w()), m.detail(recipe, a, b, res))
	}
	if pe2 != nil && !isSkipped(pe2) {
		c.Fail("totality-Equals/"+tBA+"/"+sh, fmt.Sprintf("b.Equals(a) panicked: %v; %s", pe2, w()), m.detail(recipe, a, b, res))
	}
	if pc1 != nil && !isSkipped(pc1) {
		c.Fail("totality-CompareTo/"+tAB+"/"+sh, fmt.Sprintf("a.CompareTo(b) panicked: %v; %s", pc1, w()), m.detail(recipe, a, b, res))
	}
	if pc2 != nil && !isSkipped(pc2) {
		c.Fail("totality-CompareTo/"+tBA+"/"+sh, fmt.Sprintf("b.CompareTo(a) panicked: %v; %s", pc2, w()), m.detail(recipe, a, b, res))
	}
	c.Count("law_totality", 4)

	// Equals symmetric
	if pe1 == nil && pe2 == nil {
		c.Count("law_Equals_symmetric", 1)
		if eAB != eBA {
			c.Fail("Equals-symmetric/"+tU+"/"+sh, fmt.Sprintf("a.Equals(b)=%v but b.Equals(a)=%v; %s", eAB, eBA, w()), m.detail(recipe, a, b, res))
		}
		if eAB && eBA {
			c.Count("pairs_equal_both_ways", 1)
		}
	}
	if pc1 == nil && pc2 == nil {
		if same {
			// CompareTo reverses sign when the operands are swapped
			c.Count("law_CompareTo_antisymmetric", 1)
			if sign(cAB) != -sign(cBA) {
				c.Fail("CompareTo-antisymmetric/"+tU+"/"+sh, fmt.Sprintf("a.CompareTo(b)=%d and b.CompareTo(a)=%d do not have opposite signs; %s", cAB, cBA, w()), m.detail(recipe, a, b, res))
			}
			if cAB == 0 {
				c.Count("pairs_compare_zero", 1)
			}
		}
	}
	// different types are ordered by their type code, in both directions. (Sign reversal for
	// different types follows from this clause and is not reported a second time.)
	if !same {
		dir := func(x, y item, r int, p interface{}) {
			if p != nil {
				return
			}
			c.Count("law_CompareTo_type_order", 1)
			want := sign(int(x.s.code) - int(y.s.code))
			if sign(r) != want {
				rel := "higher-type"
				if want > 0 {
					rel = "lower-type"
				}
				c.Fail("CompareTo-type-order/"+tn(x.s)+"×"+rel+"/"+shPlain,
					fmt.Sprintf("%s(code %d).CompareTo(%s(code %d))=%d, sign of the type-code difference is %d; receiver=%s argument=%s",
						tn(x.s), x.s.code, tn(y.s), y.s.code, r, want, renderShort(x.s), renderShort(y.s)),
					m.detail(recipe, x, y, map[string]interface{}{"receiver.CompareTo(argument)": r, "expected_sign": want}))
			}
		}
		dir(a, b, cAB, pc1)
		dir(b, a, cBA, pc2)
	}
	// scalars: zero exactly when equal. Two summaries of the same type count as scalars here (a
	// fixed numeric payload, no elements of their own; their Equals and CompareTo both look at
	// sum and count).
	if (isScalar(a.s.code) && isScalar(b.s.code)) || (a.s.code == b.s.code && (a.s.code == cLSum || a.s.code == cDSum)) {
		if pe1 == nil && pc1 == nil {
			c.Count("law_CompareTo_zero_iff_equal", 1)
			if (cAB == 0) != eAB {
				c.Fail("CompareTo-zero-iff-equal/"+tAB+"/"+sh, fmt.Sprintf("a.CompareTo(b)=%d but a.Equals(b)=%v; %s", cAB, eAB, w()), m.detail(recipe, a, b, res))
			}
		}
		if pe2 == nil && pc2 == nil {
			c.Count("law_CompareTo_zero_iff_equal", 1)
			if (cBA == 0) != eBA {
				c.Fail("CompareTo-zero-iff-equal/"+tBA+"/"+sh, fmt.Sprintf("b.CompareTo(a)=%d but b.Equals(a)=%v; %s", cBA, eBA, w()), m.detail(recipe, a, b, res))
			}
		}
	}
	compared()
	if c.WantSample() && (sh != shPlain || recipe == "matrix") {
		c.Sample(map[string]interface{}{"kind": "pair", "recipe": recipe, "a": renderShort(a.s), "b": renderShort(b.s), "results": res})
	}
}

// tripleLaws: transitivity of Equals and of CompareTo over all orderings of three values.
func (m *mon) tripleLaws(recipe string, x [3]item) {
	c := m.c
	var e [3][3]bool
	var r [3][3]int
	var pe, pc [3][3]interface{}
	var sh, ty [3][3]string
	for i := 0; i < 3; i++ {
		for j := 0; j < 3; j++ {
			if i == j {
				continue
			}
			e[i][j], pe[i][j] = eq(x[i].v, x[j].v)
			r[i][j], pc[i][j] = cmp(x[i].v, x[j].v)
			sh[i][j], ty[i][j] = classPair(x[i].s, x[j].s)
			m.cell(pairTypes(x[i].s, x[j].s))
			if pe[i][j] != nil && !isSkipped(pe[i][j]) {
				c.Fail("totality-Equals/"+ty[i][j]+"/"+sh[i][j], fmt.Sprintf("a.Equals(b) panicked: %v; a=%s b=%s", pe[i][j], renderShort(x[i].s), renderShort(x[j].s)),
					m.detail(recipe, x[i], x[j], map[string]interface{}{"panic": fmt.Sprint(pe[i][j])}))
			}
			if pc[i][j] != nil && !isSkipped(pc[i][j]) {
				c.Fail("totality-CompareTo/"+ty[i][j]+"/"+sh[i][j], fmt.Sprintf("a.CompareTo(b) panicked: %v; a=%s b=%s", pc[i][j], renderShort(x[i].s), renderShort(x[j].s)),
					m.detail(recipe, x[i], x[j], map[string]interface{}{"panic": fmt.Sprint(pc[i][j])}))
			}
		}
	}
	compared()
	c.Count("calls_Equals", 6)
	c.Count("calls_CompareTo", 6)
	c.Count("law_totality", 12)
	// key: one type when all three values have it, otherwise "mixed-types" (a failure there is a
	// failure of the ordering BETWEEN types; the concrete types are in the replay detail)
	names := map[string]bool{}
	for i := 0; i < 3; i++ {
		names[tn(x[i].s)] = true
	}
	types := "mixed-types"
	if len(names) == 1 {
		types = tn(x[0].s) + "×" + tn(x[0].s)
	}
	// the most irregular of the three pairs names the shape and where it arises
	shape := shPlain
	for _, ij := range [][2]int{{0, 1}, {1, 0}, {0, 2}, {2, 0}, {1, 2}, {2, 1}} {
		if s := sh[ij[0]][ij[1]]; shapeRank(s) < shapeRank(shape) {
			shape, types = s, ty[ij[0]][ij[1]]
		}
	}
	c.Count("triple_shape_"+shape, 1)
	det := func(i, j, k int) map[string]interface{} {
		return map[string]interface{}{
			"recipe": recipe, "shape": shape,
			"a": renderShort(x[i].s), "b": renderShort(x[j].s), "c": renderShort(x[k].s),
			"a_wire_hex": hexOf(x[i].v), "b_wire_hex": hexOf(x[j].v), "c_wire_hex": hexOf(x[k].v),
			"a.Equals(b)": e[i][j], "b.Equals(c)": e[j][k], "a.Equals(c)": e[i][k],
			"a.CompareTo(b)": r[i][j], "b.CompareTo(c)": r[j][k], "a.CompareTo(c)": r[i][k],
		}
	}
	perms := [6][3]int{{0, 1, 2}, {0, 2, 1}, {1, 0, 2}, {1, 2, 0}, {2, 0, 1}, {2, 1, 0}}
	for _, pm := range perms {
		i, j, k := pm[0], pm[1], pm[2]
		if pe[i][j] == nil && pe[j][k] == nil && pe[i][k] == nil {
			c.Count("law_Equals_transitive", 1)
			if e[i][j] && e[j][k] {
				c.Count("eq_transitive_premises_true", 1)
				if !e[i][k] {
					c.Fail("Equals-transitive/"+types+"/"+shape, fmt.Sprintf("a.Equals(b) and b.Equals(c) but not a.Equals(c); a=%s b=%s c=%s", renderShort(x[i].s), renderShort(x[j].s), renderShort(x[k].s)), det(i, j, k))
				}
			}
		}
		if pc[i][j] == nil && pc[j][k] == nil && pc[i][k] == nil {
			c.Count("law_CompareTo_transitive", 1)
			if r[i][j] <= 0 && r[j][k] <= 0 {
				c.Count("cmp_transitive_premises_true", 1)
				if r[i][j] < 0 || r[j][k] < 0 {
					c.Count("cmp_transitive_premises_strict", 1)
				}
				if !(r[i][k] <= 0) {
					c.Fail("CompareTo-transitive/"+types+"/"+shape, fmt.Sprintf("a.CompareTo(b)=%d ≤ 0 and b.CompareTo(c)=%d ≤ 0 but a.CompareTo(c)=%d > 0; a=%s b=%s c=%s", r[i][j], r[j][k], r[i][k], renderShort(x[i].s), renderShort(x[j].s), renderShort(x[k].s)), det(i, j, k))
				}
			}
		}
	}
}

// decodedItem is the real decoded copy of a (nil when golib's codec fails on it).
func decodedItem(a item) (item, bool) {
	d, _, ok := led.m.decodedCopy("decoded", a)
	return d, ok
}

func main() {
	c := vlib.Start("C20")
	m := &mon{c: c, cells: map[string]struct{}{}, noiseTypes: map[byte]int64{}, mixedSeen: map[byte]int64{}, ctorTypes: map[byte]int64{},
		sameObj: map[string]int64{}, minimal: map[string]int64{}, shared: map[string]int64{}}
	led = &ledger{m: m, byPtr: map[value.Value]int{}, noRing: c.Only != ""}
	grd = newGuard(m)

	// wrap: every case runs inside the ledger of live values. nz is the stream of the case's
	// unrelated calls (derived from the case id, so a replay makes the same ones).
	wrap := func(section string, fn func(i int, r, nz *vlib.Rand)) func(int, *vlib.Rand) {
		return func(i int, r *vlib.Rand) {
			id := fmt.Sprintf("%s#%d", section, i)
			led.begin(id)
			m.held = m.held[:0]
			nz := c.Rand("noise/" + id)
			aborted := false
			func() {
				defer func() {
					if x := recover(); x != nil {
						if _, ok := x.(abortCase); !ok {
							panic(x)
						}
						aborted = true
					}
				}()
				fn(i, r, nz)
			}()
			if aborted {
				// a call of this case was abandoned (guard.go): its goroutine still works on the
				// operands, so the values of the case are not looked at again
				led.abandon()
				m.held = m.held[:0]
				c.Count("cases_given_up_after_abandoned_call", 1)
				return
			}
			led.verify(shAfterCmp, true, func() string { return "the Equals/CompareTo calls of the case" })
			m.recheckHeld(m.held)
			led.end(nz)
		}
	}
	// unrelated decodes between building the values of a case and evaluating the laws on them
	between := func(nz *vlib.Rand, near *spec) {
		if nz.Bool() {
			m.held = append(m.held, m.noise(nz, 1+nz.Intn(3), near)...)
			c.Count("cases_with_decodes_between_build_and_laws", 1)
		}
	}

	// the code table of this worker against the library's own GetValueType (a mismatch would
	// make the type-order oracle meaningless: stop loudly)
	c.Section("type-codes", false, func() {
		g := &gen{r: c.Rand("type-codes")}
		for _, code := range allCodes {
			v := build(g.value(code, 1))
			if v.GetValueType() != code {
				c.Fail("harness/type-code-table", fmt.Sprintf("%s reports type code %d, worker table says %d", typeName[code], v.GetValueType(), code), nil)
			}
			c.SetAdd("types_covered", typeName[code])
		}
		c.Eval(int64(len(allCodes)))
		c.Note("type code 47 (FLOAT_SUMMARY) is declared in Value.go but no Go type implements it (CreateValue panics on it): the pair matrix is 20×20 = 400 ordered pairs")
	})

	nCodes := len(allCodes)
	nPairsCells := nCodes * nCodes
	const block = 16 // 16 consecutive case indices share the matrix cell / recipe (one per shard with 16 shards)

	// a third of the cases lay their slice payloads out on shared backing arrays (alias.go)
	alias := func(nz *vlib.Rand, specs ...*spec) {
		if nz.Chance(1, 3) {
			m.aliasPass(nz, specs...)
		}
	}
	pairCase := func(recipe string, sa, sb *spec, nz *vlib.Rand) {
		alias(nz, sa, sb)
		a, b := mk(sa), mk(sb)
		between(nz, sa)
		m.selfLaws(recipe, a)
		m.pairLaws(recipe, a, b)
		c.Count("pairs", 1)
		c.Count("recipe_"+recipe, 1)
		c.Distinct(vlib.HashStr(render(sa) + "|" + render(sb)))
	}

	// (1) the whole type-code pair matrix, cell by cell
	c.Cases("matrix", c.N(64000, 1600000), wrap("matrix", func(i int, r, nz *vlib.Rand) {
		cell := (i / block) % nPairsCells
		ca, cb := allCodes[cell/nCodes], allCodes[cell%nCodes]
		g := &gen{r: r, nilOK: true}
		depth := 1 + r.Intn(2)
		sa := g.value(ca, depth)
		var sb *spec
		switch {
		case ca == cb && r.Chance(1, 4):
			sb = clone(sa)
		case ca == cb && r.Chance(1, 2):
			sb = g.mutate(sa)
		default:
			if ca == cb && r.Bool() {
				g.small = true
				sa = g.value(ca, depth)
			}
			sb = g.value(cb, depth)
		}
		pairCase("matrix", sa, sb, nz)
	}))

	// (2) the targeted shapes of the property
	shapeNames := []string{"map-keys", "map-order", "list-types", "nil-empty", "sum-count", "decoded", "near", "nested", "NaN", "wide", "mixed-container", "minimal-elements", "shared-backing"}
	c.Cases("shapes", c.N(76000, 1900000), wrap("shapes", func(i int, r, nz *vlib.Rand) {
		g := &gen{r: r}
		k := (i / block) % 51
		var name string
		var sa, sb *spec
		switch {
		case k >= 48:
			// payload slices that are windows of one backing array: every pair and triple law,
			// and the separately stored twin (the decoded copy) in place of the first value
			name = shapeNames[12]
			g.nilOK = false
			s3 := g.shapeShared(m)
			var x [3]item
			for j := range s3 {
				x[j] = mk(s3[j])
			}
			between(nz, s3[0])
			m.selfLaws(name, x[0])
			m.pairLaws(name, x[0], x[1])
			m.tripleLaws(name, x)
			if d, ok := decodedItem(x[0]); ok {
				m.tripleLaws(name, [3]item{x[0], d, x[1]})
			}
			if d, ok := decodedItem(x[1]); ok {
				m.tripleLaws(name, [3]item{x[0], x[1], d})
			}
			c.Count("pairs", 1)
			c.Count("recipe_"+name, 1)
			c.Distinct(vlib.HashStr("shared|" + render(s3[0]) + "|" + render(s3[1]) + "|" + render(s3[2])))
			return
		case k >= 45:
			// containers of minimal-size elements, encoded alone (the run of one-byte elements is
			// the last thing in the input): the decoded-copy law on both, then the pair laws
			name = shapeNames[11]
			sa, sb = g.shapeMinimal(m)
			a, b := mk(sa), mk(sb)
			between(nz, sa)
			m.selfLaws(name, a)
			m.selfLaws(name, b)
			m.pairLaws(name, a, b)
			c.Count("pairs", 1)
			c.Count("recipe_"+name, 1)
			c.Distinct(vlib.HashStr(render(sa) + "|" + render(sb)))
			return
		case k < 5:
			name = shapeNames[0]
			sa, sb = g.shapeMapKeys()
		case k < 10:
			name = shapeNames[1]
			sa, sb = g.shapeMapOrder()
		case k < 14:
			name = shapeNames[2]
			sa, sb = g.shapeListTypes()
		case k < 18:
			name = shapeNames[3]
			g.nilOK = true
			sa, sb = g.shapeNilEmpty()
		case k < 22:
			name = shapeNames[4]
			sa, sb = g.shapeSumCount()
		case k < 26:
			// a value and its decoded copy, as a pair under every pair law
			name = shapeNames[5]
			g.nilOK = true
			a := mk(g.any(3))
			between(nz, a.s)
			m.selfLaws(name, a)
			if d, ok := decodedItem(a); ok {
				m.pairLaws(name, a, d)
			}
			c.Count("pairs", 1)
			c.Count("recipe_"+name, 1)
			c.Distinct(vlib.HashStr(render(a.s) + "|decoded"))
			return
		case k < 30:
			name = shapeNames[6]
			g.nilOK = r.Bool()
			sa = g.any(2)
			if r.Chance(1, 3) {
				sb = clone(sa)
			} else {
				sb = g.mutate(sa)
			}
		case k < 33:
			name = shapeNames[7]
			sa, sb = g.shapeNested()
		case k < 38:
			name = shapeNames[8]
			nn := g.shapeNaN(2)
			sa, sb = nn[0], nn[1]
		case k < 39:
			name = shapeNames[9]
			sa, sb = g.shapeWide()
		default:
			// containers mixing different payloads of one type
			name = shapeNames[10]
			g.nilOK = r.Bool()
			g.small = r.Chance(1, 4)
			sa, sb = g.shapeMixed()
		}
		pairCase(name, sa, sb, nz)
	}))

	// (3) independent random pairs from the recursive generator
	c.Cases("random", c.N(60000, 1500000), wrap("random", func(i int, r, nz *vlib.Rand) {
		g := &gen{r: r, nilOK: true}
		if r.Chance(1, 3) {
			g.small = true
		}
		sa := g.any(3)
		var sb *spec
		if r.Bool() {
			sb = g.value(sa.code, 3)
		} else {
			sb = g.any(3)
		}
		pairCase("random", sa, sb, nz)
	}))

	// (4) triples
	c.Cases("triples", c.N(100000, 2000000), wrap("triples", func(i int, r, nz *vlib.Rand) {
		g := &gen{r: r}
		k := (i / block) % 44
		var s [3]*spec
		var x [3]item
		have := false
		var name string
		switch {
		case k < 8:
			// same type, tiny pools: equalities and orderings between the three are frequent
			name = "same-type-small"
			g.small = true
			if k >= 5 {
				// same type, three neighbours of one base value (a few ulps / integer steps apart)
				name = "same-type-neighbours"
				g.small = false
				g.cluster = true
				g.clusterBase = r.Intn(8)
			}
			code := allCodes[(i/block/44)%nCodes]
			for j := range s {
				s[j] = g.value(code, 1)
			}
		case k < 12:
			name = "chain"
			g.nilOK = r.Bool()
			s[0] = g.any(2)
			for j := 1; j < 3; j++ {
				src := s[r.Intn(j)]
				if r.Chance(2, 5) {
					s[j] = clone(src)
				} else {
					s[j] = g.mutate(src)
				}
			}
		case k < 16:
			name = "map-order"
			a, b := g.shapeMapOrder()
			cc := clone(a)
			if isContainer(cc.code) && cc.code != cList {
				g.permute(cc)
			}
			if r.Bool() {
				g.mutateLeaves(cc)
			}
			s = [3]*spec{a, b, cc}
		case k < 19:
			name = "list-types"
			a, b := g.shapeListTypes()
			var cc *spec
			if r.Bool() {
				cc = g.mutate(b)
			} else {
				cc = g.mutate(a)
			}
			s = [3]*spec{a, b, cc}
		case k < 22:
			name = "decoded"
			g.nilOK = true
			a := mk(g.any(2))
			d, ok := decodedItem(a)
			if !ok {
				c.Count("codec_failed_not_judged_here", 1)
				return
			}
			var third item
			if r.Bool() {
				third = mk(clone(a.s))
			} else {
				third = mk(g.mutate(a.s))
			}
			x = [3]item{a, d, third}
			have = true
		case k < 25:
			name = "mixed-types"
			g.nilOK = true
			for j := range s {
				s[j] = g.any(2)
			}
			if r.Bool() {
				s[2] = g.value(s[r.Intn(2)].code, 2)
			}
		case k < 30:
			name = "NaN"
			nn := g.shapeNaN(3)
			s = [3]*spec{nn[0], nn[1], nn[2]}
		case k < 33:
			name = "sum-count"
			if r.Bool() {
				// [summary, scalar] containers: a and c hold the same summary, b one with the same
				// sum and another count, so that the order of a and c is decided by the scalar
				s1 := g.leaf([]byte{cLSum, cDSum}[r.Intn(2)])
				s2 := clone(s1)
				s2.count += int32(1 - 2*r.Intn(2))
				g.small = true
				sc := scalarCodes[1+r.Intn(len(scalarCodes)-1)]
				mkc := func(sum *spec) *spec {
					switch k % 3 {
					case 0:
						return &spec{code: cList, items: []*spec{sum, g.leaf(sc)}}
					case 1:
						return &spec{code: cMap, keys: []string{"s", "v"}, items: []*spec{sum, g.leaf(sc)}}
					}
					return &spec{code: cIntMap, ikeys: []int32{1, 2}, items: []*spec{sum, g.leaf(sc)}}
				}
				s = [3]*spec{mkc(s1), mkc(s2), mkc(clone(s1))}
				break
			}
			a, b := g.shapeSumCount()
			cc := clone(b)
			// third summary: equal sum again, or a neighbour
			var inner func(p *spec) *spec
			inner = func(p *spec) *spec {
				for isContainer(p.code) {
					p = p.items[len(p.items)-1]
				}
				return p
			}
			in := inner(cc)
			switch r.Intn(3) {
			case 0:
				in.count += int32(1 + r.Intn(2))
			case 1:
				in.i, in.f64 = in.i+1, in.f64+1
			default:
				in.count--
				in.i, in.f64 = g.i64(), g.f64()
			}
			s = [3]*spec{a, b, cc}
		case k < 35:
			name = "nil-empty"
			g.nilOK = true
			a, b := g.shapeNilEmpty()
			var cc *spec
			if r.Bool() {
				cc = clone([]*spec{a, b}[r.Intn(2)])
			} else {
				cc = g.mutate(b)
			}
			s = [3]*spec{a, b, cc}
		case k < 38:
			name = "map-keys"
			a, b := g.shapeMapKeys()
			var cc *spec
			if r.Bool() {
				cc = g.mutate(a)
			} else {
				cc = clone(b)
				g.mutateLeaves(cc)
			}
			s = [3]*spec{a, b, cc}
		case k >= 40:
			name = "mixed-container"
			g.nilOK = r.Bool()
			a, b := g.shapeMixed()
			var cc *spec
			switch r.Intn(3) {
			case 0:
				cc = clone(a)
			case 1:
				cc = g.mutate(b)
			default:
				cc = clone(a)
				g.mutateLeaves(cc)
			}
			s = [3]*spec{a, b, cc}
		default:
			// three independent containers of one type over tiny pools
			name = "containers-small"
			g.small = true
			code := containerCodes[r.Intn(3)]
			n := r.Range(0, 3)
			for j := range s {
				if r.Chance(1, 4) {
					n = r.Range(0, 3)
				}
				s[j] = g.container(code, n, 1)
			}
		}
		if !have {
			r.Shuffle(3, func(p, q int) { s[p], s[q] = s[q], s[p] })
			alias(nz, s[:]...)
			for j := range s {
				x[j] = mk(s[j])
			}
		}
		between(nz, x[nz.Intn(3)].s)
		m.tripleLaws(name, x)
		c.Count("triples", 1)
		c.Count("triple_recipe_"+name, 1)
		c.Distinct(vlib.HashStr(render(x[0].s) + "|" + render(x[1].s) + "|" + render(x[2].s)))
		if i < 3*block && i%block == 0 {
			c.Sample(map[string]interface{}{"kind": "triple", "recipe": name, "a": renderShort(x[0].s), "b": renderShort(x[1].s), "c": renderShort(x[2].s)})
		}
	}))

	// (5) histories: three values are built with unrelated constructor calls and decodes
	// between them; every result is taken before a run of unrelated decodes and again after it;
	// then all laws are evaluated on the (old) values
	c.Cases("history", c.N(48000, 1200000), wrap("history", func(i int, r, nz *vlib.Rand) {
		g := &gen{r: r, nilOK: true}
		k := (i / block) % 10
		var s [3]*spec
		var name string
		switch {
		case k < 3:
			name = "mixed-container"
			a, b := g.shapeMixed()
			s = [3]*spec{a, b, g.mutate(a)}
		case k < 6:
			// three scalars / leaves of one type from tiny pools (both bools, 0 1 2, "" "a" "b")
			name = "same-type-small"
			g.small = true
			code := leafCodes[(i/block/10)%len(leafCodes)]
			for j := range s {
				s[j] = g.leaf(code)
			}
		case k < 8:
			name = "chain"
			s[0] = g.any(2)
			s[1] = g.mutate(s[0])
			if r.Bool() {
				s[2] = clone(s[0])
			} else {
				s[2] = g.mutate(s[1])
			}
		default:
			name = "independent"
			g.small = r.Bool()
			for j := range s {
				s[j] = g.any(2)
			}
		}
		var x [3]item
		alias(nz, s[:]...)
		for j := range s {
			x[j] = mk(s[j])
			if j < 2 && nz.Chance(1, 3) {
				// unrelated calls between the constructor calls of the case
				m.held = append(m.held, m.noise(nz, 1, s[j])...)
			}
		}
		// constructor independence: values of one type built one after the other with different
		// payloads (the ledger has looked at the earlier ones after each constructor call and
		// knows whether two of them are one object)
		for j := 0; j < 3; j++ {
			for k := j + 1; k < 3; k++ {
				if s[j].code == s[k].code && s[j].code != cNull && render(s[j]) != render(s[k]) {
					c.Count("ctor_same_type_different_payloads", 1)
					m.ctorTypes[s[j].code]++
				}
			}
		}
		before := takeResults(x[:])
		compared()
		c.Count("calls_Equals", 9)
		c.Count("calls_CompareTo", 9)
		m.held = append(m.held, m.noise(nz, 2+nz.Intn(5), s[nz.Intn(3)])...)
		after := takeResults(x[:])
		compared()
		c.Count("calls_Equals", 9)
		c.Count("calls_CompareTo", 9)
		m.sameResults(x[:], before, after, shAfterDecode)
		// the laws, on values that have lived through the decodes
		m.selfLaws("history", x[0])
		m.pairLaws("history", x[0], x[1])
		m.tripleLaws("history", x)
		c.Count("history_cases", 1)
		c.Count("history_recipe_"+name, 1)
		c.Distinct(vlib.HashStr("history|" + render(s[0]) + "|" + render(s[1]) + "|" + render(s[2])))
		if i < 2*block && i%block == 0 {
			c.Sample(map[string]interface{}{"kind": "history", "recipe": name, "calls": led.opLog()})
		}
	}))

	// ---- observation floors (≤ 10 % of what an unchanged run reaches; per shard, summed by the driver)
	sh := int64(c.NShards)
	if c.Only == "" {
		c.Floor("type_pair_cells_seen_per_child", int64(nPairsCells)/10, int64(len(m.cells)))
		c.Floor("pairs", int64(c.N(200000, 5000000))/10/sh, c.Counter("pairs"))
		c.Floor("triples", int64(c.N(100000, 2000000))/10/sh, c.Counter("triples"))
		c.Floor("pairs_equal_both_ways", int64(c.N(200000, 5000000))/200/sh, c.Counter("pairs_equal_both_ways"))
		c.Floor("eq_transitive_premises_true", int64(c.N(100000, 2000000))/100/sh, c.Counter("eq_transitive_premises_true"))
		c.Floor("cmp_transitive_premises_strict", int64(c.N(100000, 2000000))/100/sh, c.Counter("cmp_transitive_premises_strict"))
		c.Floor("law_Equals_decoded_copy", int64(c.N(200000, 5000000))/10/sh, c.Counter("law_Equals_decoded_copy"))
		c.Floor("law_CompareTo_type_order", int64(c.N(200000, 5000000))/20/sh, c.Counter("law_CompareTo_type_order"))
		c.Floor("law_CompareTo_zero_iff_equal", int64(c.N(200000, 5000000))/40/sh, c.Counter("law_CompareTo_zero_iff_equal"))

		// histories
		nh := int64(c.N(48000, 1200000))
		c.Floor("history_cases", nh/10/sh, c.Counter("history_cases"))
		c.Floor("noise_decodes", nh/4/sh, c.Counter("noise_decodes"))
		c.Floor("cases_with_decodes_between_build_and_laws", int64(c.N(300000, 7000000))/20/sh, c.Counter("cases_with_decodes_between_build_and_laws"))
		c.Floor("ledger_verify_after-decode", nh/2/sh, c.Counter("ledger_verify_"+shAfterDecode))
		c.Floor("ledger_verify_after-constructor", nh/2/sh, c.Counter("ledger_verify_"+shAfterCtor))
		c.Floor("ledger_values_reverified", nh*2/sh, c.Counter("ledger_values_reverified"))
		c.Floor("ledger_ring_reverified", nh/sh, c.Counter("ledger_ring_reverified"))
		c.Floor("identity_checks", nh/sh, c.Counter("identity_checks"))
		c.Floor("law_results_stable", nh*9/10/sh, c.Counter("law_results_stable"))
		c.Floor("law_decoded_copy_after_later_calls", nh/4/sh, c.Counter("law_decoded_copy_after_later_calls"))
		// every type was decoded as an unrelated value; the decoded-copy law met containers
		// mixing different payloads of every type that has a payload
		minOf := func(mp map[byte]int64, codes []byte) int64 {
			lo := int64(-1)
			for _, code := range codes {
				if v := mp[code]; lo < 0 || v < lo {
					lo = v
				}
			}
			return lo
		}
		c.Floor("noise_decodes_least_covered_type", nh/400/sh, minOf(m.noiseTypes, allCodes))
		c.Floor("decoded_copy_mixed_container_least_covered_type", int64(c.N(300000, 7000000))/8000/sh, minOf(m.mixedSeen, allCodes[1:]))
		c.Floor("ctor_same_type_different_payloads_least_covered_type", nh/300/sh, minOf(m.ctorTypes, allCodes[1:]))
		for k, v := range m.sameObj {
			c.Count("same_object_compared_"+k, v)
		}
		for k, v := range m.shared {
			c.Count("shared_backing_array_"+k, v)
		}
		// same-object reflexivity per container type and size class; minimal-element containers
		// through the decoded-copy law; shared backing arrays per slice-carrying type and kind
		sc := int64(c.N(1, 20))
		for _, code := range containerCodes {
			for _, cl := range []string{"2", "3-5", "6+"} {
				k := typeName[code] + "/" + cl
				c.Floor("same_object_compared_"+k, 10*sc, m.sameObj[k])
			}
		}
		c.Floor("minimal_run_of_1-5", 10*sc, m.minimal["run-of-1-5"])
		c.Floor("minimal_run_of_6-50", 8*sc, m.minimal["run-of-6-50"])
		c.Floor("minimal_run_of_51-5000", 2*sc, m.minimal["run-of-51-5000"])
		for _, v := range []string{"list-of-nulls", "x-then-nulls", "list-of-minimal-elements", "map-of-minimal-elements", "map-ending-in-list-of-nulls", "nested-ending-in-list-of-nulls"} {
			c.Floor("minimal_"+v, 3*sc, m.minimal[v])
		}
		c.Floor("own_encodings_decoded", int64(c.N(200000, 5000000))/10/sh, c.Counter("own_encodings_decoded"))
		for _, code := range sliceCodes {
			t := typeName[code]
			c.Floor("shared_backing_array_"+t+"/same-window", 20*sc, m.shared[t+"/same-window"])
			c.Floor("shared_backing_array_"+t+"/overlapping-windows", 1*sc, m.shared[t+"/overlapping-windows"])
			if code != cIP4 {
				c.Floor("shared_backing_array_"+t+"/same-start-different-length", 4*sc, m.shared[t+"/same-start-different-length"]+m.shared[t+"/append-within-capacity"])
			}
		}
		c.Floor("decoded_copy_mixed_container_bools", int64(c.N(300000, 7000000))/2000/sh, m.mixedSeen[cBool])
	}
	c.Finish()
	fmt.Println("done")
}
