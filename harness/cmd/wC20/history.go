package main

// history.go — the laws must hold in EVERY history, and values are independent objects.
//
// The laws of main.go are evaluated on values; this file watches what happens to values while
// OTHER calls are made:
//
//   - every golib value built or decoded by the worker (every node of it: the leaves of a
//     container are values of their own) is entered into a ledger with two snapshots taken at
//     that moment: its encoding through golib's WriteValue, and a structural fingerprint taken
//     with reflect over all fields (private ones included) that asks golib nothing;
//   - after every later constructor call, every later decode (ReadValue of the encoding of an
//     unrelated value, of every type and payload class) and after the comparisons of the case,
//     every live value is looked at again: neither snapshot may have changed
//     (value-changed-by-unrelated-call/<Type>×<Type>/after-constructor | after-decode |
//     after-compare; older-value for values that were built in earlier cases of the same
//     process and are kept alive in a small ring);
//   - two values whose encodings differed when they were created can never be one object
//     (constructor-independence/<Type>×<Type>/shared-instance);
//   - results of Equals / CompareTo taken before unrelated decodes are taken again after them
//     and must be the same (result-changed-by-unrelated-call/<TypeA>×<TypeB>/after-decode), and
//     a decoded value that was Equals to its original right after the decode must still be
//     (Equals-decoded-copy/<Type>×<Type>/after-decode).
//
// No oracle here predicts a result from a description: a value is only ever compared with
// what the same value was earlier.

import (
	"bytes"
	"fmt"
	"math"
	"reflect"
	"sync"

	"github.com/whatap/golib/lang/value"

	"verif/vlib"
)

const (
	shAfterDecode = "after-decode"
	shAfterCtor   = "after-constructor"
	shAfterCmp    = "after-compare"
	shOlder       = "older-value"
	shMixed       = "mixed-container"
	shShared      = "shared-instance"
)

// ---- structural fingerprint --------------------------------------------------------------

var (
	tMutex   = reflect.TypeOf(sync.Mutex{})
	tRWMutex = reflect.TypeOf(sync.RWMutex{})
)

type fper struct {
	h    uint64
	seen []uintptr // pointers already walked (values are small: a linear scan beats a map)
	big  map[uintptr]int
}

// lookup returns the index at which pointer p was first walked.
func (f *fper) lookup(p uintptr) (int, bool) {
	if len(f.seen) <= 48 {
		for k, q := range f.seen {
			if q == p {
				return k, true
			}
		}
		return 0, false
	}
	if f.big == nil {
		f.big = map[uintptr]int{}
	}
	if len(f.big) < len(f.seen) {
		for k := len(f.big); k < len(f.seen); k++ {
			f.big[f.seen[k]] = k
		}
	}
	k, ok := f.big[p]
	return k, ok
}

func (f *fper) mix(x uint64) {
	f.h ^= x
	f.h *= 0x9e3779b97f4a7c15
	f.h ^= f.h >> 32
}

func (f *fper) walk(v reflect.Value) {
	switch v.Kind() {
	case reflect.Bool:
		if v.Bool() {
			f.mix(3)
		} else {
			f.mix(2)
		}
	case reflect.Int, reflect.Int8, reflect.Int16, reflect.Int32, reflect.Int64:
		f.mix(uint64(v.Int()))
	case reflect.Uint, reflect.Uint8, reflect.Uint16, reflect.Uint32, reflect.Uint64, reflect.Uintptr:
		f.mix(v.Uint())
	case reflect.Float32:
		// keep NaN payloads apart: go through the 32-bit pattern
		f.mix(uint64(math.Float32bits(float32(v.Float()))))
	case reflect.Float64:
		f.mix(math.Float64bits(v.Float()))
	case reflect.String:
		s := v.String()
		f.mix(uint64(len(s)) | 1<<40)
		f.mix(vlib.HashStr(s))
	case reflect.Slice:
		if v.IsNil() {
			f.mix(0x6e696c) // nil and empty are different states of a payload
			return
		}
		n := v.Len()
		f.mix(uint64(n) | 1<<41)
		if v.Type().Elem().Kind() == reflect.Uint8 {
			f.mix(vlib.HashBytes(v.Bytes()))
			return
		}
		for i := 0; i < n; i++ {
			f.walk(v.Index(i))
		}
	case reflect.Array:
		for i := 0; i < v.Len(); i++ {
			f.walk(v.Index(i))
		}
	case reflect.Ptr:
		if v.IsNil() {
			f.mix(0x6e70)
			return
		}
		p := v.Pointer()
		if k, ok := f.lookup(p); ok {
			f.mix(uint64(k) | 1<<42) // a back reference: the shape of the pointer graph, not the address
			return
		}
		f.seen = append(f.seen, p)
		f.walk(v.Elem())
	case reflect.Interface:
		if v.IsNil() {
			f.mix(0x6e69)
			return
		}
		e := v.Elem()
		f.mix(vlib.HashStr(e.Type().String()))
		f.walk(e)
	case reflect.Struct:
		t := v.Type()
		if t == tMutex || t == tRWMutex {
			return
		}
		for i := 0; i < v.NumField(); i++ {
			f.walk(v.Field(i))
		}
	case reflect.Map:
		// order-free
		f.mix(uint64(v.Len()) | 1<<43)
		var acc uint64
		it := v.MapRange()
		for it.Next() {
			g := &fper{}
			g.walk(it.Key())
			g.walk(it.Value())
			acc += g.h
		}
		f.mix(acc)
	}
}

var fpScratch fper

func fingerprint(v value.Value) (h uint64, p interface{}) {
	defer func() { p = recover() }()
	f := &fpScratch
	f.h, f.seen = 0, f.seen[:0]
	if len(f.big) > 0 {
		f.big = nil
	}
	f.walk(reflect.ValueOf(v))
	return f.h, nil
}

func encodeCatch(v value.Value) (b []byte, p interface{}) {
	p = vlib.Catch(func() { b = encode(v) })
	return
}

// ---- the ledger --------------------------------------------------------------------------

type live struct {
	s    *spec
	v    value.Value
	wire []byte // WriteValue at creation (nil: the encoder failed then; not judged)
	fp   uint64
	fpOK bool
	how  string // "built" | "decoded"
	born string // case id
	step int    // index into the case's op log at creation
	leaf bool
}

type opRec struct {
	kind string // "build" | "decode" | "compare"
	s    *spec
}

type ledger struct {
	m      *mon
	caseID string
	cur    []live
	ring   []live
	ops    []opRec
	byPtr  map[value.Value]int // object → index in cur of the first entry holding it
	quiet  bool                // node(): do not enter (used while the ledger itself re-encodes)
	cases  int
	noRing bool
}

const ringCap = 24

var led *ledger

func (l *ledger) begin(id string) {
	l.caseID = id
	l.cur = l.cur[:0]
	l.ops = l.ops[:0]
	for k := range l.byPtr {
		delete(l.byPtr, k)
	}
}

// abandon gives up the running case without another look at its values.
func (l *ledger) abandon() {
	l.cur = nil
	l.quiet = false
	for k := range l.byPtr {
		delete(l.byPtr, k)
	}
}

func (l *ledger) op(kind string, s *spec) {
	if len(l.ops) < 64 {
		l.ops = append(l.ops, opRec{kind, s})
	}
}

func (l *ledger) opLog() []string {
	out := make([]string, 0, len(l.ops))
	for i, o := range l.ops {
		out = append(out, fmt.Sprintf("%d: %s %s", i, o.kind, renderShort(o.s)))
	}
	return out
}

// node enters one value (one node of a built or decoded tree) into the ledger.
func (l *ledger) node(s *spec, v value.Value, how string) {
	if l == nil || l.quiet || v == nil {
		return
	}
	c := l.m.c
	e := live{s: s, v: v, how: how, born: l.caseID, step: len(l.ops), leaf: !isContainer(s.code)}
	if w, p := encodeCatch(v); p == nil {
		e.wire = w
	}
	if h, p := fingerprint(v); p == nil {
		e.fp, e.fpOK = h, true
	}
	c.Count("ledger_values_entered", 1)
	// two values whose encodings differ at creation are two objects
	if e.wire != nil && s.code != cNull {
		if j, ok := l.byPtr[v]; ok {
			o := &l.cur[j]
			c.Count("identity_same_object_seen", 1)
			if o.wire != nil && !bytes.Equal(o.wire, e.wire) && o.s.code == s.code {
				t := tn(s)
				c.Fail("constructor-independence/"+t+"×"+t+"/"+shShared,
					fmt.Sprintf("two %s values with different payloads are ONE object: first %s (%s, encoding %s when created), then %s (%s, encoding %s)",
						t, renderShort(o.s), o.how, vlib.Hex(o.wire), renderShort(s), how, vlib.Hex(e.wire)),
					map[string]interface{}{"first": renderShort(o.s), "first_how": o.how, "first_wire_hex_at_creation": vlib.Hex(o.wire),
						"second": renderShort(s), "second_how": how, "second_wire_hex_at_creation": vlib.Hex(e.wire), "history": l.opLog()})
			}
		} else {
			l.byPtr[v] = len(l.cur)
		}
		c.Count("identity_checks", 1)
	}
	l.cur = append(l.cur, e)
}

// changed re-reads one live value; it returns a description of the change ("" if none) and
// refreshes the snapshots so that the same change is reported once.
//
// The fingerprint is taken at every look; the encoding at the looks that close a case (full)
// and whenever the fingerprint has moved (so that the witness shows both encodings).
func (e *live) changed(full bool) (string, map[string]interface{}) {
	var what string
	var det map[string]interface{}
	put := func(k string, v interface{}) {
		if det == nil {
			det = map[string]interface{}{}
		}
		det[k] = v
	}
	var h uint64
	moved := false
	if e.fpOK {
		var p interface{}
		if h, p = fingerprint(e.v); p == nil && h != e.fp {
			moved = true
		}
	}
	if (full || moved) && e.wire != nil {
		w, p := encodeCatch(e.v)
		switch {
		case p != nil:
			what = fmt.Sprintf("WriteValue now panics: %v", p)
			put("wire_hex_at_creation", vlib.Hex(e.wire))
			e.wire = nil
		case !bytes.Equal(w, e.wire):
			what = fmt.Sprintf("encoding was %s, is now %s", vlib.Hex(e.wire), vlib.Hex(w))
			put("wire_hex_at_creation", vlib.Hex(e.wire))
			put("wire_hex_now", vlib.Hex(w))
			e.wire = w
		}
	}
	if moved {
		if what == "" {
			what = "its fields changed (same encoding)"
		}
		put("fingerprint_at_creation", fmt.Sprintf("%016x", e.fp))
		put("fingerprint_now", fmt.Sprintf("%016x", h))
		e.fp = h
	}
	return what, det
}

func (l *ledger) report(e *live, shape string, callf func() string, what string, det map[string]interface{}) {
	call := callf()
	if det == nil {
		det = map[string]interface{}{}
	}
	t := tn(e.s)
	det["value"] = renderShort(e.s)
	det["value_was"] = e.how
	det["value_created_in_case"] = e.born
	det["value_created_at_step"] = e.step
	det["seen_after"] = call
	det["history"] = l.opLog()
	l.m.c.Fail("value-changed-by-unrelated-call/"+t+"×"+t+"/"+shape,
		fmt.Sprintf("a live %s (%s, %s in %s) changed although it was not touched: %s; seen after %s", t, renderShort(e.s), e.how, e.born, what, call), det)
}

// verify looks at every live value of the case again. shape names the kind of call that was
// made since the last look; call describes it for the witness. full: compare the encodings too
// (otherwise the fingerprints, and the encoding only where the fingerprint moved).
func (l *ledger) verify(shape string, full bool, call func() string) {
	if l == nil {
		return
	}
	c := l.m.c
	l.quiet = true
	defer func() { l.quiet = false }()
	leafChanged := false
	for pass := 0; pass < 2; pass++ {
		for i := range l.cur {
			e := &l.cur[i]
			if e.leaf != (pass == 0) {
				continue
			}
			what, det := e.changed(full)
			if what == "" {
				continue
			}
			if e.leaf {
				leafChanged = true
			} else if leafChanged {
				continue // the change of a leaf shows in every container above it: named once, at the leaf
			}
			l.report(e, shape, call, what, det)
		}
	}
	c.Count("ledger_verifications", 1)
	c.Count("ledger_values_reverified", int64(len(l.cur)))
	c.Count("ledger_verify_"+shape, 1)
}

// end closes the case: the values kept from earlier cases are looked at once, then a few small
// values of this case replace old ring entries.
func (l *ledger) end(r *vlib.Rand) {
	if l == nil {
		return
	}
	c := l.m.c
	l.quiet = true
	defer func() { l.quiet = false }()
	l.cases++
	for i := range l.ring {
		e := &l.ring[i]
		// fingerprints every case, the encodings every eighth (and wherever a fingerprint moved)
		if what, det := e.changed(l.cases%8 == 0); what != "" {
			l.report(e, shOlder, func() string { return "the calls of case " + l.caseID }, what, det)
		}
	}
	c.Count("ledger_ring_reverified", int64(len(l.ring)))
	if l.noRing {
		return
	}
	// keep up to two values of this case
	for k := 0; k < 2 && len(l.cur) > 0; k++ {
		e := l.cur[r.Intn(len(l.cur))]
		if len(e.wire) == 0 || len(e.wire) > 200 {
			continue
		}
		if len(l.ring) < ringCap {
			l.ring = append(l.ring, e)
		} else {
			l.ring[r.Intn(ringCap)] = e
		}
	}
}

// ---- decodes with the ledger watching ------------------------------------------------------

// enterTree enters every node of a decoded tree (children first), walking the worker's
// description and golib's accessors side by side.
func (l *ledger) enterTree(s *spec, v value.Value, how string) {
	if l == nil || v == nil {
		return
	}
	vlib.Catch(func() {
		switch s.code {
		case cList:
			if x, ok := v.(*value.ListValue); ok && x.Size() == len(s.items) {
				for i, e := range s.items {
					l.enterTree(e, x.Get(i), how)
				}
			}
		case cMap:
			if x, ok := v.(*value.MapValue); ok {
				for i, e := range s.items {
					l.enterTree(e, x.Get(s.keys[i]), how)
				}
			}
		case cIntMap:
			if x, ok := v.(*value.IntMapValue); ok {
				for i, e := range s.items {
					l.enterTree(e, x.Get(s.ikeys[i]), how)
				}
			}
		}
	})
	if v.GetValueType() == s.code {
		l.node(s, v, how)
	}
}

// decodeWatched decodes wire (the encoding of the value described by s), enters the result
// into the ledger and looks at every older live value again.
func decodeWatched(s *spec, wire []byte) (d value.Value, p interface{}) {
	p = vlib.Catch(func() { d = decode(wire) })
	if led == nil {
		return
	}
	led.op("decode", s)
	// first the older values, then the new one (its own creation is not a change)
	led.verify(shAfterDecode, false, func() string { return "ReadValue of the encoding of " + renderShort(s) })
	if p == nil && d != nil {
		led.enterTree(asDecoded(s), d, "decoded")
	}
	return
}

// firstUnequalLeaf walks a value and its decoded copy side by side and returns the description
// of the first node pair that is not Equals (nil when the walk finds none; the container
// itself when its size is not the described one).
func firstUnequalLeaf(s *spec, a, b value.Value) (where *spec) {
	vlib.Catch(func() {
		if a == nil || b == nil || a.GetValueType() != s.code || b.GetValueType() != s.code {
			return
		}
		switch s.code {
		case cList:
			x, y := a.(*value.ListValue), b.(*value.ListValue)
			if x.Size() != len(s.items) || y.Size() != len(s.items) {
				where = s
				return
			}
			for i, e := range s.items {
				if w := firstUnequalLeaf(e, x.Get(i), y.Get(i)); w != nil {
					where = w
					return
				}
			}
		case cMap:
			x, y := a.(*value.MapValue), b.(*value.MapValue)
			for i, e := range s.items {
				if w := firstUnequalLeaf(e, x.Get(s.keys[i]), y.Get(s.keys[i])); w != nil {
					where = w
					return
				}
			}
		case cIntMap:
			x, y := a.(*value.IntMapValue), b.(*value.IntMapValue)
			for i, e := range s.items {
				if w := firstUnequalLeaf(e, x.Get(s.ikeys[i]), y.Get(s.ikeys[i])); w != nil {
					where = w
					return
				}
			}
		default:
			if e, p := eq(a, b); p == nil && !e {
				where = s
			}
		}
	})
	return
}

// nameDecodedFailure names shape and type part of a failing decoded-copy law on a container:
// the irregular shape that arises AT the first element that is not Equals to its copy (a NaN
// there, a nil payload there, one of several different payloads of its type); when that
// element is regular, the container's own classification stands.
func nameDecodedFailure(s *spec, a, d value.Value, sh, types string) (string, string) {
	if !isContainer(s.code) {
		return sh, types
	}
	lf := firstUnequalLeaf(s, a, d)
	if lf == nil || isContainer(lf.code) {
		return sh, types
	}
	t := tn(lf) + "×" + tn(lf)
	switch {
	case hasNaN(lf):
		return shNaN, t
	case lf.nilp:
		return shNilEmpty, t
	}
	for _, code := range mixedTypes(s) {
		if code == lf.code {
			return shMixed, t
		}
	}
	if sh == shNaN || sh == shNilEmpty {
		// the NaN / nil payload is elsewhere in the container, not where the copy differs
		return shPlain, tn(s) + "×" + tn(s)
	}
	return sh, types
}

// ---- mixed containers ----------------------------------------------------------------------

// mixedTypes: the types of which s holds, below its root, at least two nodes with different
// wire payloads (a list with a true and a false; a map with three different numbers; a list of
// two different lists), in type-code order.
func mixedTypes(s *spec) []byte {
	if !isContainer(s.code) {
		return nil
	}
	first := map[byte]string{}
	mixed := map[byte]bool{}
	var walk func(x *spec, root bool)
	walk = func(x *spec, root bool) {
		if !root && x.code != cNull {
			r := render(asDecodedShallow(x))
			if f, ok := first[x.code]; !ok {
				first[x.code] = r
			} else if f != r {
				mixed[x.code] = true
			}
		}
		for _, e := range x.items {
			walk(e, false)
		}
	}
	walk(s, true)
	var out []byte
	for _, code := range allCodes {
		if mixed[code] {
			out = append(out, code)
		}
	}
	return out
}

// asDecodedShallow: like asDecoded without the deep copy when nothing is nil.
func asDecodedShallow(s *spec) *spec {
	if hasNilPayload(s) {
		return asDecoded(s)
	}
	return s
}

var mixCodes = []byte{cBool, cBool, cBool, cDecimal, cInt, cLong, cFloat, cDouble, cDSum, cLSum, cText, cText, cTextH, cBlob, cIP4,
	cIntArr, cFltArr, cTxtArr, cLngArr, cList, cMap, cIntMap}

// shapeMixed: containers mixing different payloads of one type (and, often, other types next
// to them), on one level or spread over nested levels; b is a copy, the same payloads in
// another arrangement, or a copy with one payload changed.
func (g *gen) shapeMixed() (*spec, *spec) {
	t := mixCodes[g.r.Intn(len(mixCodes))]
	k := g.r.Range(2, 4)
	var same []*spec
	seen := map[string]bool{}
	for tries := 0; len(same) < k && tries < 40; tries++ {
		e := g.value(t, 1)
		r := render(asDecodedShallow(e))
		if seen[r] {
			if t == cBool && len(seen) == 2 {
				same = append(same, e) // a bool has two payloads: repeat them
			}
			continue
		}
		seen[r] = true
		same = append(same, e)
	}
	if len(seen) < 2 {
		// tiny pools can run dry (containers drawn empty twice): force two different ones
		same = []*spec{g.value(t, 1), g.mutate(g.value(t, 1))}
	}
	elems := append([]*spec{}, same...)
	for n := g.r.Intn(3); n > 0; n-- {
		elems = append(elems, g.leaf(leafCodes[g.r.Intn(len(leafCodes))]))
	}
	g.r.Shuffle(len(elems), func(i, j int) { elems[i], elems[j] = elems[j], elems[i] })
	pack := func(items []*spec) *spec {
		s := &spec{code: containerCodes[g.r.Intn(3)]}
		for _, e := range items {
			switch s.code {
			case cMap:
				s.keys = append(s.keys, g.freshKey(s))
			case cIntMap:
				s.ikeys = append(s.ikeys, g.freshIKey(s))
			}
			s.items = append(s.items, e)
		}
		return s
	}
	var a *spec
	if len(elems) >= 3 && g.r.Chance(1, 3) {
		// nested: some of the elements one level down
		cut := g.r.Range(1, len(elems)-1)
		inner := pack(elems[:cut])
		outer := append([]*spec{inner}, elems[cut:]...)
		g.r.Shuffle(len(outer), func(i, j int) { outer[i], outer[j] = outer[j], outer[i] })
		a = pack(outer)
	} else {
		a = pack(elems)
	}
	b := clone(a)
	switch g.r.Intn(4) {
	case 0: // equal copy
	case 1: // the same payloads in another arrangement: rotate the leaves of type t
		var nodes []*spec
		var collect func(x *spec)
		collect = func(x *spec) {
			for _, e := range x.items {
				if e.code == t {
					nodes = append(nodes, e)
				} else {
					collect(e)
				}
			}
		}
		collect(b)
		if len(nodes) >= 2 {
			firstCopy := *nodes[0]
			for i := 0; i+1 < len(nodes); i++ {
				*nodes[i] = *nodes[i+1]
			}
			*nodes[len(nodes)-1] = firstCopy
		}
	case 2:
		g.mutateLeaves(b)
	default:
		g.mutateInPlace(b, 2)
	}
	return a, b
}

// ---- unrelated calls -------------------------------------------------------------------------

type held struct {
	orig, dec item
	e0, e1    bool // orig.Equals(dec), dec.Equals(orig) right after the decode
	ok        bool
}

// noise makes n unrelated calls: the REFERENCE encoding (ref.go) of a value of some type and
// payload class is decoded with ReadValue; one time in three the same value is first built
// with golib's constructors. The ledger looks at every live value after each step. near, when
// given, is a value of the case: a third of the unrelated values are near copies of it (same
// structure and types, other payloads), a third have its type.
//
// When the built value's own encoding is the reference encoding, the decoded value is "the
// result of decoding its encoding" and the decoded-copy law is judged on the pair.
func (m *mon) noise(nz *vlib.Rand, n int, near *spec) []held {
	c := m.c
	var out []held
	for ; n > 0; n-- {
		g := &gen{r: nz, nilOK: true}
		if nz.Chance(1, 3) {
			g.small = true
		}
		if nz.Chance(1, 8) {
			// NaN payloads, in leaves of ONE type per value (the type the finding key names)
			g.nanType = []byte{cFloat, cDouble, cFltArr, cDSum}[nz.Intn(4)]
		}
		var s *spec
		switch k := nz.Intn(3); {
		case k == 0 && near != nil:
			s = g.mutate(near)
			if nz.Bool() {
				g.mutateLeaves(s)
			}
		case k == 1 && near != nil:
			s = g.value(near.code, 2)
		default:
			s = g.value(allCodes[nz.Intn(len(allCodes))], 2)
		}
		wire := refWire(s)
		if wire == nil {
			c.Count("codec_failed_not_judged_here", 1)
			continue
		}
		var nv item
		built := nz.Chance(1, 3)
		if built {
			nv = mk(s)
		}
		d, p := decodeWatched(s, wire)
		if p != nil || d == nil {
			c.Count("codec_failed_not_judged_here", 1)
			continue
		}
		c.Count("noise_decodes", 1)
		m.noiseTypes[s.code]++
		if !built {
			continue
		}
		h := held{orig: nv, dec: item{s: asDecoded(s), v: d}}
		if own, p := encodeCatch(nv.v); p == nil && bytes.Equal(own, wire) {
			c.Count("noise_built_value_encodes_as_reference", 1)
			h.e0, h.e1, h.ok = m.judgeDecoded("noise", nv, d, wire)
		} else {
			// the value's own encoding is not the reference one (C02's subject): the pair is
			// only watched for a change of its results
			c.Count("noise_built_value_encodes_differently_not_judged_here", 1)
			e0, p0 := eq(nv.v, d)
			e1, p1 := eq(d, nv.v)
			c.Count("calls_Equals", 2)
			h.e0, h.e1, h.ok = e0, e1, p0 == nil && p1 == nil
		}
		out = append(out, h)
	}
	return out
}

// recheckHeld: a decoded value that equalled its original right after the decode still does
// after the later decodes and constructor calls of the case.
func (m *mon) recheckHeld(hs []held) {
	c := m.c
	for _, h := range hs {
		if !h.ok {
			continue
		}
		e0, p0 := eq(h.orig.v, h.dec.v)
		e1, p1 := eq(h.dec.v, h.orig.v)
		c.Count("calls_Equals", 2)
		c.Count("law_decoded_copy_after_later_calls", 1)
		if p0 != nil || p1 != nil {
			continue // totality is judged where the pair is first compared
		}
		if e0 != h.e0 || e1 != h.e1 {
			where := tn(h.orig.s)
			if lf := firstUnequalLeaf(h.orig.s, h.orig.v, h.dec.v); lf != nil {
				where = tn(lf)
			}
			law := "result-changed-by-unrelated-call"
			if h.e0 && h.e1 {
				law = "Equals-decoded-copy"
			}
			c.Fail(law+"/"+where+"×"+where+"/"+shAfterDecode,
				fmt.Sprintf("v.Equals(copy)/copy.Equals(v) was %v/%v right after the decode and is %v/%v after later unrelated calls; v=%s", h.e0, h.e1, e0, e1, renderShort(h.orig.s)),
				map[string]interface{}{"v": renderShort(h.orig.s), "v_wire_hex_now": hexOf(h.orig.v), "copy_wire_hex_now": hexOf(h.dec.v),
					"right_after_decode": []bool{h.e0, h.e1}, "now": []bool{e0, e1}, "history": led.opLog()})
		}
	}
}

// results of every Equals / CompareTo between the values of a case, to be taken twice.
type resMatrix struct {
	e  [][]bool
	r  [][]int
	pe [][]bool // panicked
	pc [][]bool
}

func takeResults(x []item) resMatrix {
	n := len(x)
	m := resMatrix{e: make([][]bool, n), r: make([][]int, n), pe: make([][]bool, n), pc: make([][]bool, n)}
	for i := 0; i < n; i++ {
		m.e[i], m.r[i], m.pe[i], m.pc[i] = make([]bool, n), make([]int, n), make([]bool, n), make([]bool, n)
		for j := 0; j < n; j++ {
			var p interface{}
			m.e[i][j], p = eq(x[i].v, x[j].v)
			m.pe[i][j] = p != nil
			m.r[i][j], p = cmp(x[i].v, x[j].v)
			m.pc[i][j] = p != nil
		}
	}
	return m
}

func (m *mon) sameResults(x []item, before, after resMatrix, shape string) {
	c := m.c
	n := len(x)
	for i := 0; i < n; i++ {
		for j := 0; j < n; j++ {
			c.Count("law_results_stable", 1)
			if before.e[i][j] == after.e[i][j] && sign(before.r[i][j]) == sign(after.r[i][j]) &&
				before.pe[i][j] == after.pe[i][j] && before.pc[i][j] == after.pc[i][j] {
				continue
			}
			c.Fail("result-changed-by-unrelated-call/"+pairTypes(x[i].s, x[j].s)+"/"+shape,
				fmt.Sprintf("a.Equals(b)=%v a.CompareTo(b)=%d before unrelated calls, %v and %d after them; a=%s b=%s",
					before.e[i][j], before.r[i][j], after.e[i][j], after.r[i][j], renderShort(x[i].s), renderShort(x[j].s)),
				map[string]interface{}{"a": renderShort(x[i].s), "b": renderShort(x[j].s),
					"before": []interface{}{before.e[i][j], before.r[i][j]}, "after": []interface{}{after.e[i][j], after.r[i][j]},
					"a_wire_hex_now": hexOf(x[i].v), "b_wire_hex_now": hexOf(x[j].v), "history": led.opLog()})
		}
	}
}

// compared: the ledger's look after a run of Equals / CompareTo calls.
func compared() {
	led.verify(shAfterCmp, false, func() string { return "Equals / CompareTo calls on values of the case" })
}
