package main

// alias.go — two generator classes that concern HOW values are laid out, not what they hold.
//
// (1) shared backing arrays. The constructors of the slice-carrying types (Blob, IP4, Int /
// Long / Float / Text arrays) keep the caller's slice. In a share of the cases the payload
// slices handed to them are windows of ONE backing array: the same window twice, the same
// start with different lengths (a snapshot, extended by append within capacity, snapshotted
// again), overlapping windows, disjoint windows. The descriptions carry the CONTENT; every law
// is judged as always, on the results only — equality and order are functions of the content,
// so a value and its separately stored twin (its decoded copy, an unshared copy of the
// description) must be interchangeable under symmetry and transitivity.
//
// (2) containers of minimal-size elements. A NullValue is its type byte alone; empty
// containers, booleans and empty payloads follow with two or three bytes. Lists of 1…5000
// nulls, [x, null×k], containers of such elements, and containers whose LAST entry is such a
// list — encoded alone, so that the list is the last thing in the input — go through the
// decoded-copy law.

import (
	"math"

	"verif/vlib"
)

type arena struct {
	code   byte
	blob   []byte
	ints   []int32
	longs  []int64
	floats []float32
	texts  []string
	// the real storage, made when the first value of the case is built on it
	rb []byte
	ri []int32
	rl []int64
	rf []float32
	rt []string
}

func (a *arena) bytes() []byte {
	if a.rb == nil {
		a.rb = append(make([]byte, 0, len(a.blob)), a.blob...)
	}
	return a.rb
}
func (a *arena) i32s() []int32 {
	if a.ri == nil {
		a.ri = append(make([]int32, 0, len(a.ints)), a.ints...)
	}
	return a.ri
}
func (a *arena) i64s() []int64 {
	if a.rl == nil {
		a.rl = append(make([]int64, 0, len(a.longs)), a.longs...)
	}
	return a.rl
}
func (a *arena) f32s() []float32 {
	if a.rf == nil {
		a.rf = append(make([]float32, 0, len(a.floats)), a.floats...)
	}
	return a.rf
}
func (a *arena) strs() []string {
	if a.rt == nil {
		a.rt = append(make([]string, 0, len(a.texts)), a.texts...)
	}
	return a.rt
}

func (a *arena) size() int {
	return len(a.blob) + len(a.ints) + len(a.longs) + len(a.floats) + len(a.texts)
}

var sliceCodes = []byte{cBlob, cIP4, cIntArr, cLngArr, cFltArr, cTxtArr}

func sliceLen(s *spec) int {
	if s.code == cIP4 {
		return len(s.blob)
	}
	return payloadLen(s)
}

func findWin[T comparable](base, x []T) int {
	for o := 0; o+len(x) <= len(base); o++ {
		ok := true
		for i := range x {
			if base[o+i] != x[i] {
				ok = false
				break
			}
		}
		if ok {
			return o
		}
	}
	return -1
}

func bits32(f []float32) []uint32 {
	out := make([]uint32, len(f))
	for i, x := range f {
		out[i] = math.Float32bits(x)
	}
	return out
}

// find: offset at which the content of s is a window of the arena (-1 if nowhere).
func (a *arena) find(s *spec) int {
	switch s.code {
	case cBlob, cIP4:
		return findWin(a.blob, s.blob)
	case cIntArr:
		return findWin(a.ints, s.ints)
	case cLngArr:
		return findWin(a.longs, s.longs)
	case cFltArr:
		return findWin(bits32(a.floats), bits32(s.floats))
	case cTxtArr:
		return findWin(a.texts, s.texts)
	}
	return -1
}

// arenaOf makes an arena holding the content of s followed by spare elements (capacity an
// append would grow into).
func arenaOf(s *spec, spare int) *arena {
	a := &arena{code: s.code}
	switch s.code {
	case cBlob, cIP4:
		a.blob = append(append([]byte{}, s.blob...), make([]byte, spare)...)
	case cIntArr:
		a.ints = append(append([]int32{}, s.ints...), make([]int32, spare)...)
	case cLngArr:
		a.longs = append(append([]int64{}, s.longs...), make([]int64, spare)...)
	case cFltArr:
		a.floats = append(append([]float32{}, s.floats...), make([]float32, spare)...)
	case cTxtArr:
		a.texts = append(append([]string{}, s.texts...), make([]string, spare)...)
	}
	return a
}

func winKind(off, ln, hostLen int) string {
	switch {
	case off == 0 && ln == hostLen:
		return "same-window"
	case off == 0:
		return "same-start-different-length"
	case off < hostLen:
		return "overlapping-windows"
	}
	return "disjoint-windows"
}

// aliasPass lays the slice payloads of the described values out on shared backing arrays
// wherever their contents allow it: per type, the longest payload hosts an array, and every
// other payload of that type whose content is a window of it (an equal payload, a prefix, an
// inner run) becomes that window, three times in four.
func (m *mon) aliasPass(r *vlib.Rand, specs ...*spec) {
	var groups [6][]*spec
	var walk func(s *spec)
	walk = func(s *spec) {
		for i, code := range sliceCodes {
			if s.code == code && !s.nilp && s.share == nil {
				if n := sliceLen(s); n >= 1 && n <= 64 {
					groups[i] = append(groups[i], s)
				}
			}
		}
		for _, e := range s.items {
			walk(e)
		}
	}
	for _, s := range specs {
		walk(s)
	}
	for _, g := range groups {
		if len(g) < 2 {
			continue
		}
		host := g[0]
		for _, s := range g[1:] {
			if sliceLen(s) > sliceLen(host) || (sliceLen(s) == sliceLen(host) && r.Bool()) {
				host = s
			}
		}
		var ar *arena
		for _, s := range g {
			if s == host {
				continue
			}
			if ar == nil {
				ar = arenaOf(host, r.Intn(3))
			}
			off := ar.find(s)
			if off < 0 || !r.Chance(3, 4) {
				continue
			}
			if host.share == nil {
				host.share, host.off = ar, 0
			}
			s.share, s.off = ar, off
			m.shared[tn(s)+"/"+winKind(off, sliceLen(s), sliceLen(host))]++
			m.c.Count("payloads_laid_out_on_a_shared_array", 1)
		}
	}
}

// window: the description of the value whose payload is ar[off:off+ln].
func (ar *arena) window(off, ln int) *spec {
	s := &spec{code: ar.code, share: ar, off: off}
	switch ar.code {
	case cBlob, cIP4:
		s.blob = append([]byte{}, ar.blob[off:off+ln]...)
	case cIntArr:
		s.ints = append([]int32{}, ar.ints[off:off+ln]...)
	case cLngArr:
		s.longs = append([]int64{}, ar.longs[off:off+ln]...)
	case cFltArr:
		s.floats = append([]float32{}, ar.floats[off:off+ln]...)
	case cTxtArr:
		s.texts = append([]string{}, ar.texts[off:off+ln]...)
	}
	return s
}

// shapeShared: three values of one slice-carrying type, (at least) the first two being
// windows of one backing array.
func (g *gen) shapeShared(m *mon) [3]*spec {
	r := g.r
	t := sliceCodes[r.Intn(len(sliceCodes))]
	n := r.Range(5, 24)
	oldSmall := g.small
	g.small = r.Bool() // tiny pools: windows at different offsets often hold the same content
	ar := &arena{code: t}
	for i := 0; i < n; i++ {
		switch t {
		case cBlob, cIP4:
			if g.small {
				ar.blob = append(ar.blob, byte(r.Intn(3)))
			} else {
				ar.blob = append(ar.blob, byte(r.U64()))
			}
		case cIntArr:
			ar.ints = append(ar.ints, g.i32())
		case cLngArr:
			ar.longs = append(ar.longs, g.i64())
		case cFltArr:
			ar.floats = append(ar.floats, g.f32())
		case cTxtArr:
			ar.texts = append(ar.texts, g.str())
		}
	}
	g.small = oldSmall
	pair := func() (a, b *spec, kind string) {
		k := r.Intn(4)
		if t == cIP4 {
			k = []int{0, 2}[r.Intn(2)]
		}
		switch k {
		case 0:
			o := r.Intn(n - 3)
			l := r.Range(1, n-o)
			if t == cIP4 {
				l = 4
			}
			return ar.window(o, l), ar.window(o, l), "same-window"
		case 1:
			o := r.Intn(n - 3)
			l1 := r.Range(1, n-o-1)
			l2 := r.Range(l1+1, n-o)
			return ar.window(o, l1), ar.window(o, l2), "same-start-different-length"
		case 2:
			l1 := r.Range(2, n-1)
			if t == cIP4 {
				l1 = 4
			}
			o1 := r.Intn(n - l1)
			o2 := r.Range(o1+1, o1+l1-1)
			l2 := r.Range(1, n-o2)
			if t == cIP4 {
				l2 = 4
				if o2+4 > n {
					o2 = n - 4
				}
			}
			return ar.window(o1, l1), ar.window(o2, l2), "overlapping-windows"
		default:
			l := r.Range(1, n-1)
			return ar.window(0, l), ar.window(0, l+1), "append-within-capacity"
		}
	}
	a, b, kind := pair()
	if r.Bool() {
		a, b = b, a
	}
	m.shared[typeName[t]+"/"+kind]++
	m.c.Count("shared_backing_"+kind, 1)
	var c *spec
	switch r.Intn(5) {
	case 0:
		c, _, _ = pair()
	case 1:
		c = clone(a) // the same content, stored separately
	case 2:
		c = clone(b)
	case 3:
		c = g.mutate(a)
	default:
		// a third window starting where a starts
		l := r.Range(1, ar.size()-a.off)
		if t == cIP4 {
			l = 4
		}
		c = ar.window(a.off, l)
	}
	out := [3]*spec{a, b, c}
	if r.Chance(1, 4) {
		w := r.Intn(3)
		for i, s := range out {
			switch w {
			case 0:
				out[i] = &spec{code: cList, items: []*spec{s}}
			case 1:
				out[i] = &spec{code: cMap, keys: []string{"k"}, items: []*spec{s}}
			default:
				out[i] = &spec{code: cIntMap, ikeys: []int32{7}, items: []*spec{s}}
			}
		}
	}
	return out
}

// ---- containers of minimal-size elements ---------------------------------------------------

func (g *gen) minElem() *spec {
	switch k := g.r.Intn(12); {
	case k < 6:
		return &spec{code: cNull}
	case k == 6:
		return &spec{code: cList}
	case k == 7:
		return &spec{code: cMap}
	case k == 8:
		return &spec{code: cIntMap}
	case k == 9:
		return &spec{code: cBool, b: g.r.Bool()}
	default:
		return []*spec{{code: cDecimal}, {code: cText}, {code: cBlob, blob: []byte{}}, {code: cIntArr, ints: []int32{}}, {code: cTxtArr, texts: []string{}}}[g.r.Intn(5)]
	}
}

func nulls(k int) *spec {
	s := &spec{code: cList}
	for ; k > 0; k-- {
		s.items = append(s.items, &spec{code: cNull})
	}
	return s
}

func countClass(k int) string {
	switch {
	case k <= 5:
		return "1-5"
	case k <= 50:
		return "6-50"
	}
	return "51-5000"
}

// putLast appends e as the last entry of container s.
func (g *gen) putLast(s, e *spec) {
	switch s.code {
	case cMap:
		s.keys = append(s.keys, g.freshKey(s))
	case cIntMap:
		s.ikeys = append(s.ikeys, g.freshIKey(s))
	}
	s.items = append(s.items, e)
}

// shapeMinimal: containers whose encodings are (or end in) runs of minimal-size elements.
func (g *gen) shapeMinimal(m *mon) (a, b *spec) {
	r := g.r
	var k int
	switch x := r.Intn(10); {
	case x < 5:
		k = r.Range(1, 5)
	case x < 9:
		k = r.Range(6, 50)
	case r.Bool():
		k = r.Range(51, 400)
	default:
		k = r.Range(401, 5000)
	}
	var variant string
	switch r.Intn(6) {
	case 0:
		variant = "list-of-nulls"
		a = nulls(k)
	case 1:
		variant = "x-then-nulls"
		a = nulls(k)
		x := g.leaf(leafCodes[1+r.Intn(len(leafCodes)-1)])
		a.items = append([]*spec{x}, a.items...)
	case 2:
		variant = "list-of-minimal-elements"
		if k > 400 {
			k = 400
		}
		a = &spec{code: cList}
		for i := 0; i < k; i++ {
			a.items = append(a.items, g.minElem())
		}
	case 3:
		variant = "map-of-minimal-elements"
		if k > 200 {
			k = 200
		}
		a = &spec{code: []byte{cMap, cIntMap}[r.Intn(2)]}
		for i := 0; i < k; i++ {
			g.putLast(a, g.minElem())
		}
	case 4:
		variant = "map-ending-in-list-of-nulls"
		a = g.container([]byte{cMap, cIntMap}[r.Intn(2)], r.Intn(4), 1)
		g.putLast(a, nulls(k))
	default:
		variant = "nested-ending-in-list-of-nulls"
		inner := g.container(containerCodes[r.Intn(3)], r.Intn(3), 1)
		g.putLast(inner, nulls(k))
		a = g.container(containerCodes[r.Intn(3)], r.Intn(3), 1)
		g.putLast(a, inner)
	}
	m.minimal[variant]++
	m.minimal["run-of-"+countClass(k)]++
	m.c.Count("minimal_"+variant, 1)
	m.c.Count("minimal_run_of_"+countClass(k), 1)
	b = clone(a)
	// the innermost last list
	last := b
	for isContainer(last.code) && len(last.items) > 0 && isContainer(last.items[len(last.items)-1].code) {
		last = last.items[len(last.items)-1]
	}
	switch r.Intn(4) {
	case 0:
	case 1:
		if last.code == cList {
			last.items = append(last.items, &spec{code: cNull})
		} else {
			g.putLast(last, &spec{code: cNull})
		}
	case 2:
		if n := len(last.items); n > 0 && last.code == cList {
			last.items = last.items[:n-1]
		}
	default:
		if len(a.items) <= 60 {
			g.mutateInPlace(b, 2)
		}
	}
	return a, b
}
