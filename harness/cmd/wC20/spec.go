package main

// The worker's own description ("spec") of a value. Every golib value that is compared is
// built from a spec, so that failing cases can be written out, classified into a shape class
// and hashed without asking golib anything. The spec is NOT an oracle: the oracles are laws
// over the results of golib's Equals/CompareTo only.

import (
	"fmt"
	"math"
	"strconv"
	"strings"

	"github.com/whatap/golib/io"
	"github.com/whatap/golib/lang/value"
)

// type codes (written from the protocol table; compared with golib's GetValueType at start-up)
const (
	cNull    = 0
	cBool    = 10
	cDecimal = 20
	cInt     = 21
	cLong    = 22
	cFloat   = 30
	cDouble  = 40
	cDSum    = 45
	cLSum    = 46
	cFSum    = 47 // declared in Value.go, no Go type implements it (CreateValue panics on it)
	cText    = 50
	cTextH   = 51
	cBlob    = 60
	cIP4     = 61
	cList    = 70
	cIntArr  = 71
	cFltArr  = 72
	cTxtArr  = 73
	cLngArr  = 74
	cMap     = 80
	cIntMap  = 81
)

// allCodes: every type code that has an implementation (20 of the 21 declared constants).
var allCodes = []byte{cNull, cBool, cDecimal, cInt, cLong, cFloat, cDouble, cDSum, cLSum, cText, cTextH, cBlob, cIP4,
	cList, cIntArr, cFltArr, cTxtArr, cLngArr, cMap, cIntMap}

var scalarCodes = []byte{cNull, cBool, cDecimal, cInt, cLong, cFloat, cDouble, cText, cTextH, cBlob, cIP4}

var typeName = map[byte]string{
	cNull: "NullValue", cBool: "BoolValue", cDecimal: "DecimalValue", cInt: "IntValue", cLong: "LongValue",
	cFloat: "FloatValue", cDouble: "DoubleValue", cDSum: "DoubleSummary", cLSum: "LongSummary",
	cText: "TextValue", cTextH: "TextHashValue", cBlob: "BlobValue", cIP4: "IP4Value",
	cList: "ListValue", cIntArr: "IntArray", cFltArr: "FloatArray", cTxtArr: "TextArray", cLngArr: "LongArray",
	cMap: "MapValue", cIntMap: "IntMapValue",
}

// isScalar: the types the property's "returns zero for scalar values exactly when they are
// equal" clause is applied to (single-payload values; summaries, arrays and containers are not).
func isScalar(code byte) bool {
	switch code {
	case cNull, cBool, cDecimal, cInt, cLong, cFloat, cDouble, cText, cTextH, cBlob, cIP4:
		return true
	}
	return false
}

func isContainer(code byte) bool { return code == cList || code == cMap || code == cIntMap }

type spec struct {
	code byte

	b   bool
	i   int64   // Decimal, Int, Long, TextHash; LongSummary.Sum
	f32 float32 // Float
	f64 float64 // Double; DoubleSummary.Sum
	s   string  // Text

	nilp   bool // Blob / arrays: payload is nil (not merely empty)
	blob   []byte
	ints   []int32
	floats []float32
	texts  []string
	longs  []int64

	count      int32 // summaries
	lmin, lmax int64
	dmin, dmax float64

	// share: the payload slice handed to the constructor is a window of a backing array that
	// other values of the case use too (alias.go); the CONTENT is still what blob/ints/... say
	share *arena
	off   int

	items []*spec  // List elements; Map / IntMap values in insertion order
	keys  []string // Map keys in insertion order
	ikeys []int32  // IntMap keys in insertion order
}

// build constructs the real golib value; every node of it (children before their container)
// is entered into the ledger of live values (history.go).
func build(s *spec) value.Value {
	v := build0(s)
	led.node(s, v, "built")
	return v
}

func build0(s *spec) value.Value {
	switch s.code {
	case cNull:
		return value.NewNullValue()
	case cBool:
		return value.NewBoolValue(s.b)
	case cDecimal:
		return value.NewDecimalValue(s.i)
	case cInt:
		return value.NewIntValue(int32(s.i))
	case cLong:
		return value.NewLongValue(s.i)
	case cFloat:
		return value.NewFloatValue(s.f32)
	case cDouble:
		return value.NewDoubleValue(s.f64)
	case cDSum:
		v := value.NewDoubleSummary()
		v.Sum, v.Count, v.Min, v.Max = s.f64, s.count, s.dmin, s.dmax
		return v
	case cLSum:
		v := value.NewLongSummary()
		v.Sum, v.Count, v.Min, v.Max = s.i, s.count, s.lmin, s.lmax
		return v
	case cText:
		return value.NewTextValue(s.s)
	case cTextH:
		return value.NewTextHashValue(int32(s.i))
	case cBlob:
		if s.nilp {
			return value.NewBlobValue(nil)
		}
		if s.share != nil {
			return value.NewBlobValue(s.share.bytes()[s.off : s.off+len(s.blob)])
		}
		return value.NewBlobValue(append([]byte{}, s.blob...))
	case cIP4:
		if s.share != nil {
			return value.NewIP4Value(s.share.bytes()[s.off : s.off+len(s.blob)])
		}
		return value.NewIP4Value(append([]byte{}, s.blob...))
	case cList:
		l := value.NewListValue(nil)
		for _, e := range s.items {
			l.Add(build(e))
		}
		return l
	case cIntArr:
		if s.nilp {
			return value.NewIntArray(nil)
		}
		if s.share != nil {
			return value.NewIntArray(s.share.i32s()[s.off : s.off+len(s.ints)])
		}
		return value.NewIntArray(append([]int32{}, s.ints...))
	case cFltArr:
		if s.nilp {
			return value.NewFloatArray(nil)
		}
		if s.share != nil {
			return value.NewFloatArray(s.share.f32s()[s.off : s.off+len(s.floats)])
		}
		return value.NewFloatArray(append([]float32{}, s.floats...))
	case cTxtArr:
		if s.nilp {
			return value.NewTextArray(nil)
		}
		if s.share != nil {
			return value.NewTextArray(s.share.strs()[s.off : s.off+len(s.texts)])
		}
		return value.NewTextArray(append([]string{}, s.texts...))
	case cLngArr:
		if s.nilp {
			return value.NewLongArray(nil)
		}
		if s.share != nil {
			return value.NewLongArray(s.share.i64s()[s.off : s.off+len(s.longs)])
		}
		return value.NewLongArray(append([]int64{}, s.longs...))
	case cMap:
		m := value.NewMapValue()
		for k, e := range s.items {
			m.Put(s.keys[k], build(e))
		}
		return m
	case cIntMap:
		m := value.NewIntMapValue()
		for k, e := range s.items {
			m.Put(s.ikeys[k], build(e))
		}
		return m
	}
	panic(fmt.Sprintf("wC20: spec with unknown code %d", s.code))
}

// clone is a deep copy of the description (building it gives a separate, structurally
// identical golib value).
func clone(s *spec) *spec {
	c := *s
	c.share, c.off = nil, 0 // a copy of the description has storage of its own
	c.blob = append([]byte(nil), s.blob...)
	c.ints = append([]int32(nil), s.ints...)
	c.floats = append([]float32(nil), s.floats...)
	c.texts = append([]string(nil), s.texts...)
	c.longs = append([]int64(nil), s.longs...)
	c.keys = append([]string(nil), s.keys...)
	c.ikeys = append([]int32(nil), s.ikeys...)
	c.items = make([]*spec, len(s.items))
	for i, e := range s.items {
		c.items[i] = clone(e)
	}
	return &c
}

// asDecoded describes what the wire form of s carries: a nil payload and an empty payload
// have the same encoding, so the decoded copy has the empty one. Used only to NAME the shape
// of a (value, decoded copy) pair; the decoded copy itself always comes from golib's ReadValue.
func asDecoded(s *spec) *spec {
	c := clone(s)
	var walk func(x *spec)
	walk = func(x *spec) {
		x.nilp = false
		for _, e := range x.items {
			walk(e)
		}
	}
	walk(c)
	return c
}

// ---- rendering (witness text, distinct-case hashing) ----------------------------------------

func f64s(f float64) string {
	if f != f {
		return fmt.Sprintf("NaN(%#x)", math.Float64bits(f))
	}
	return strconv.FormatFloat(f, 'g', -1, 64)
}
func f32s(f float32) string {
	if f != f {
		return fmt.Sprintf("NaN(%#x)", math.Float32bits(f))
	}
	return strconv.FormatFloat(float64(f), 'g', -1, 32)
}

func qs(s string) string {
	if len(s) > 48 {
		return fmt.Sprintf("%q…(%dB)", s[:48], len(s))
	}
	return strconv.Quote(s)
}

func render(s *spec) string {
	var sb strings.Builder
	renderTo(&sb, s)
	return sb.String()
}

func renderTo(sb *strings.Builder, s *spec) {
	switch s.code {
	case cNull:
		sb.WriteString("Null")
	case cBool:
		fmt.Fprintf(sb, "Bool(%v)", s.b)
	case cDecimal:
		fmt.Fprintf(sb, "Decimal(%d)", s.i)
	case cInt:
		fmt.Fprintf(sb, "Int(%d)", int32(s.i))
	case cLong:
		fmt.Fprintf(sb, "Long(%d)", s.i)
	case cFloat:
		fmt.Fprintf(sb, "Float(%s)", f32s(s.f32))
	case cDouble:
		fmt.Fprintf(sb, "Double(%s)", f64s(s.f64))
	case cDSum:
		fmt.Fprintf(sb, "DoubleSummary{sum=%s,count=%d,min=%s,max=%s}", f64s(s.f64), s.count, f64s(s.dmin), f64s(s.dmax))
	case cLSum:
		fmt.Fprintf(sb, "LongSummary{sum=%d,count=%d,min=%d,max=%d}", s.i, s.count, s.lmin, s.lmax)
	case cText:
		fmt.Fprintf(sb, "Text(%s)", qs(s.s))
	case cTextH:
		fmt.Fprintf(sb, "TextHash(%d)", int32(s.i))
	case cBlob:
		if s.nilp {
			sb.WriteString("Blob(nil)")
		} else if len(s.blob) > 24 {
			fmt.Fprintf(sb, "Blob(%x…%dB)", s.blob[:24], len(s.blob))
		} else {
			fmt.Fprintf(sb, "Blob(%x)", s.blob)
		}
	case cIP4:
		fmt.Fprintf(sb, "IP4(%d.%d.%d.%d)", s.blob[0], s.blob[1], s.blob[2], s.blob[3])
	case cIntArr:
		if s.nilp {
			sb.WriteString("IntArray(nil)")
		} else {
			fmt.Fprintf(sb, "IntArray%v", s.ints)
		}
	case cLngArr:
		if s.nilp {
			sb.WriteString("LongArray(nil)")
		} else {
			fmt.Fprintf(sb, "LongArray%v", s.longs)
		}
	case cFltArr:
		if s.nilp {
			sb.WriteString("FloatArray(nil)")
		} else {
			sb.WriteString("FloatArray[")
			for i, f := range s.floats {
				if i > 0 {
					sb.WriteByte(' ')
				}
				sb.WriteString(f32s(f))
			}
			sb.WriteByte(']')
		}
	case cTxtArr:
		if s.nilp {
			sb.WriteString("TextArray(nil)")
		} else {
			sb.WriteString("TextArray[")
			for i, t := range s.texts {
				if i > 0 {
					sb.WriteByte(' ')
				}
				sb.WriteString(qs(t))
			}
			sb.WriteByte(']')
		}
	case cList:
		sb.WriteString("List[")
		for i, e := range s.items {
			if i > 0 {
				sb.WriteString(", ")
			}
			renderTo(sb, e)
		}
		sb.WriteByte(']')
	case cMap:
		sb.WriteString("Map{")
		for i, e := range s.items {
			if i > 0 {
				sb.WriteString(", ")
			}
			sb.WriteString(qs(s.keys[i]))
			sb.WriteByte(':')
			renderTo(sb, e)
		}
		sb.WriteByte('}')
	case cIntMap:
		sb.WriteString("IntMap{")
		for i, e := range s.items {
			if i > 0 {
				sb.WriteString(", ")
			}
			fmt.Fprintf(sb, "%d:", s.ikeys[i])
			renderTo(sb, e)
		}
		sb.WriteByte('}')
	}
}

// renderShort caps a witness at a readable length.
func renderShort(s *spec) string {
	t := render(s)
	if len(t) > 600 {
		return t[:600] + fmt.Sprintf("…(%d chars)", len(t))
	}
	return t
}

// ---- golib's own codec (used to obtain "the decoded copy") ----------------------------------

func encode(v value.Value) []byte {
	out := io.NewDataOutputX()
	value.WriteValue(out, v)
	return out.ToByteArray()
}

func decode(b []byte) value.Value {
	return value.ReadValue(io.NewDataInputX(b))
}
