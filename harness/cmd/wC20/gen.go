package main

// Self-contained generator of value descriptions (specs): all implemented type codes, scalars
// at their extremes, NaN payloads only when asked for (their own class), nil versus empty
// payloads, containers of every nesting, and the targeted pair / triple shapes of the property.

import (
	"math"

	"verif/vlib"
)

type gen struct {
	r     *vlib.Rand
	nan   bool // NaN may be drawn for float fields
	nilOK bool // nil payloads may be drawn for blobs and arrays
	small bool // draw only from tiny pools (so that equalities and orderings between draws are frequent)

	cluster     bool // draw scalars from one neighbourhood (see f32Bases)
	clusterBase int

	nanType byte // when non-zero: NaN is drawn only inside leaves of this type (one NaN-bearing type per case)
}

var i64Pool = []int64{-2, -1, 0, 1, 2, 3, 127, 128, -128, -129, 32767, 32768, math.MaxInt32, math.MinInt32,
	int64(math.MaxInt32) + 1, math.MaxInt64, math.MinInt64, math.MaxInt64 - 1, math.MinInt64 + 1}
var i32Pool = []int32{-2, -1, 0, 1, 2, 3, 127, 128, -128, 32767, -32768, math.MaxInt32, math.MinInt32, math.MaxInt32 - 1, math.MinInt32 + 1}
var f32Pool = []float32{0, float32(math.Copysign(0, -1)), 1, -1, 1.5, 2, float32(math.Inf(1)), float32(math.Inf(-1)),
	math.MaxFloat32, -math.MaxFloat32, math.SmallestNonzeroFloat32}
var f64Pool = []float64{0, math.Copysign(0, -1), 1, -1, 1.5, 2, math.Inf(1), math.Inf(-1),
	math.MaxFloat64, -math.MaxFloat64, math.SmallestNonzeroFloat64}
var nan32Bits = []uint32{0x7fc00000, 0xffc00000, 0x7f800001, 0x7fa00000, 0xff800001, 0x7fffffff}
var nan64Bits = []uint64{0x7ff8000000000000, 0xfff8000000000000, 0x7ff0000000000001, 0x7ff4000000000000, 0xfff0000000000001, 0x7fffffffffffffff}
var strPool = []string{"", "a", "b", "ab", "aa", "a\x00", "한", "\xff", "A"}
var keyPool = []string{"", "a", "b", "c", "d", "k1", "k2", "키", "x y", "e", "f"}
var ikeyPool = []int32{0, 1, 2, 3, -1, 101, 102, 203, math.MaxInt32, math.MinInt32, 7}

func (g *gen) i64() int64 {
	if g.cluster {
		return i64Bases[g.clusterBase%len(i64Bases)] + int64(g.r.Intn(4))
	}
	if g.small {
		return int64(g.r.Intn(3))
	}
	if g.r.Chance(1, 5) {
		// neighbours beyond 2^53 and around the 32-bit edges (collapse when routed through a
		// double or a narrower integer)
		return []int64{1 << 53, 1 << 62, math.MaxInt64 - 3, math.MinInt64, 1 << 32, -(1 << 32), 1 << 31}[g.r.Intn(7)] + int64(g.r.Intn(4))
	}
	if g.r.Bool() {
		return i64Pool[g.r.Intn(len(i64Pool))]
	}
	return g.r.I64()
}

func (g *gen) i32() int32 {
	if g.small {
		return int32(g.r.Intn(3))
	}
	if g.r.Bool() {
		return i32Pool[g.r.Intn(len(i32Pool))]
	}
	return g.r.I32()
}

// cluster mode: every scalar draw of this generator comes from ONE neighbourhood (a base value
// plus 0..24 ulps / 0..3 integer steps), so pairs and triples of distinct-but-adjacent values
// are the rule, not the exception.
var f32Bases = []float32{1, -1, 1.5, 2, 0.1, 100, 1e6, 16777216}
var f64Bases = []float64{1, -1, 1.5, 2, 0.1, 100, 1e6, 9007199254740992}
var i64Bases = []int64{1 << 53, 1 << 62, math.MaxInt64 - 3, math.MinInt64, 1 << 32, -(1 << 32), 1 << 31, 0}

func (g *gen) f32() float32 {
	if g.cluster {
		b := f32Bases[g.clusterBase%len(f32Bases)]
		for k := g.r.Intn(25); k > 0; k-- {
			b = math.Nextafter32(b, float32(math.Inf(1)))
		}
		return b
	}
	if g.nan && g.r.Chance(2, 5) {
		return math.Float32frombits(nan32Bits[g.r.Intn(len(nan32Bits))])
	}
	if g.small {
		return float32(g.r.Intn(3))
	}
	if g.r.Chance(1, 4) {
		// neighbours: a few ulps around a handful of bases, so that distinct values that are
		// "almost equal" (and integers that collapse in a narrower type) meet in pairs and triples
		b := []float32{1, -1, 1.5, 2, 0.1, 100, 1e6, 16777216}[g.r.Intn(8)]
		for k := g.r.Intn(25); k > 0; k-- {
			b = math.Nextafter32(b, float32(math.Inf(1)))
		}
		return b
	}
	if g.r.Bool() {
		return f32Pool[g.r.Intn(len(f32Pool))]
	}
	return g.r.F32NoNaN()
}

func (g *gen) f64() float64 {
	if g.cluster {
		b := f64Bases[g.clusterBase%len(f64Bases)]
		for k := g.r.Intn(25); k > 0; k-- {
			b = math.Nextafter(b, math.Inf(1))
		}
		return b
	}
	if g.nan && g.r.Chance(2, 5) {
		return math.Float64frombits(nan64Bits[g.r.Intn(len(nan64Bits))])
	}
	if g.small {
		return float64(g.r.Intn(3))
	}
	if g.r.Chance(1, 4) {
		b := []float64{1, -1, 1.5, 2, 0.1, 100, 1e6, 9007199254740992}[g.r.Intn(8)]
		for k := g.r.Intn(25); k > 0; k-- {
			b = math.Nextafter(b, math.Inf(1))
		}
		return b
	}
	if g.r.Bool() {
		return f64Pool[g.r.Intn(len(f64Pool))]
	}
	return g.r.F64NoNaN()
}

func (g *gen) str() string {
	if g.small {
		return strPool[g.r.Intn(3)]
	}
	if g.r.Chance(3, 5) {
		return strPool[g.r.Intn(len(strPool))]
	}
	if g.r.Chance(1, 40) {
		return g.r.Str(70000)
	}
	return g.r.Str(64)
}

func (g *gen) key() string {
	if g.small || g.r.Chance(3, 4) {
		return keyPool[g.r.Intn(len(keyPool))]
	}
	return g.r.Ident()
}

func (g *gen) ikey() int32 {
	if g.small || g.r.Chance(3, 4) {
		return ikeyPool[g.r.Intn(len(ikeyPool))]
	}
	return g.r.I32()
}

// payload length for blobs / arrays: mostly tiny so that prefixes and equalities occur
func (g *gen) plen() int {
	if g.small {
		return g.r.Intn(3)
	}
	switch g.r.Intn(12) {
	case 0:
		return g.r.Range(6, 40)
	case 1:
		return []int{253, 254, 255, 256, 300}[g.r.Intn(5)]
	default:
		return g.r.Intn(5)
	}
}

// payloadNil decides nil versus empty for a zero-length payload
func (g *gen) payloadNil(n int) bool { return n == 0 && g.nilOK && g.r.Bool() }

func (g *gen) leaf(code byte) *spec {
	s := &spec{code: code}
	if g.nanType != 0 {
		g.nan = code == g.nanType
	}
	switch code {
	case cNull:
	case cBool:
		s.b = g.r.Bool()
	case cDecimal, cLong:
		s.i = g.i64()
	case cInt, cTextH:
		s.i = int64(g.i32())
	case cFloat:
		s.f32 = g.f32()
	case cDouble:
		s.f64 = g.f64()
	case cDSum:
		s.f64, s.count, s.dmin, s.dmax = g.f64(), g.i32(), g.f64(), g.f64()
	case cLSum:
		s.i, s.count, s.lmin, s.lmax = g.i64(), g.i32(), g.i64(), g.i64()
	case cText:
		s.s = g.str()
	case cBlob:
		n := g.plen()
		s.nilp = g.payloadNil(n)
		s.blob = make([]byte, n)
		for i := range s.blob {
			if g.small || g.r.Bool() {
				s.blob[i] = byte(g.r.Intn(3))
			} else {
				s.blob[i] = byte(g.r.U64())
			}
		}
	case cIP4:
		s.blob = []byte{byte(g.i32()), byte(g.i32()), byte(g.i32()), byte(g.i32())}
	case cIntArr:
		n := g.plen()
		s.nilp = g.payloadNil(n)
		s.ints = make([]int32, n)
		for i := range s.ints {
			s.ints[i] = g.i32()
		}
	case cLngArr:
		n := g.plen()
		s.nilp = g.payloadNil(n)
		s.longs = make([]int64, n)
		for i := range s.longs {
			s.longs[i] = g.i64()
		}
	case cFltArr:
		n := g.plen()
		s.nilp = g.payloadNil(n)
		s.floats = make([]float32, n)
		for i := range s.floats {
			s.floats[i] = g.f32()
		}
	case cTxtArr:
		n := g.plen()
		if n > 40 {
			n = 40
		}
		s.nilp = g.payloadNil(n)
		s.texts = make([]string, n)
		for i := range s.texts {
			s.texts[i] = g.str()
		}
	default:
		panic("wC20: leaf of a container code")
	}
	return s
}

var leafCodes = []byte{cNull, cBool, cDecimal, cInt, cLong, cFloat, cDouble, cDSum, cLSum, cText, cTextH, cBlob, cIP4,
	cIntArr, cFltArr, cTxtArr, cLngArr}
var containerCodes = []byte{cList, cMap, cIntMap}
var nanCompanions = []byte{cNull, cBool, cDecimal, cInt, cLong, cText, cTextH, cBlob, cIP4, cIntArr, cTxtArr, cLngArr}

func (g *gen) anyCode(depth int) byte {
	if depth > 0 && g.r.Chance(3, 10) {
		return containerCodes[g.r.Intn(3)]
	}
	return leafCodes[g.r.Intn(len(leafCodes))]
}

func (g *gen) otherCode(not byte, depth int) byte {
	for {
		c := g.anyCode(depth)
		if c != not {
			return c
		}
	}
}

func (g *gen) csize() int {
	switch g.r.Intn(10) {
	case 0:
		return 0
	case 1, 2:
		return 1
	case 3, 4, 5:
		return 2
	case 6, 7:
		return 3
	default:
		return g.r.Range(4, 6)
	}
}

// value draws a value of the given type; depth is the nesting budget below it.
func (g *gen) value(code byte, depth int) *spec {
	if !isContainer(code) {
		return g.leaf(code)
	}
	return g.container(code, g.csize(), depth)
}

func (g *gen) container(code byte, n, depth int) *spec {
	s := &spec{code: code}
	switch code {
	case cList:
		for i := 0; i < n; i++ {
			s.items = append(s.items, g.any(depth-1))
		}
	case cMap:
		seen := map[string]bool{}
		for len(s.keys) < n {
			k := g.key()
			if seen[k] {
				k = g.r.Ident() + g.r.Ident()
				if seen[k] {
					continue
				}
			}
			seen[k] = true
			s.keys = append(s.keys, k)
			s.items = append(s.items, g.any(depth-1))
		}
	case cIntMap:
		seen := map[int32]bool{}
		for len(s.ikeys) < n {
			k := g.ikey()
			if seen[k] {
				k = int32(g.r.U32())
				if seen[k] {
					continue
				}
			}
			seen[k] = true
			s.ikeys = append(s.ikeys, k)
			s.items = append(s.items, g.any(depth-1))
		}
	}
	return s
}

func (g *gen) any(depth int) *spec { return g.value(g.anyCode(depth), depth) }

func (g *gen) freshKey(s *spec) string {
	for {
		k := g.key()
		if g.r.Bool() {
			k = g.r.Ident()
		}
		dup := false
		for _, o := range s.keys {
			if o == k {
				dup = true
			}
		}
		if !dup {
			return k
		}
	}
}

func (g *gen) freshIKey(s *spec) int32 {
	for {
		k := g.ikey()
		if g.r.Bool() {
			k = int32(g.r.U32())
		}
		dup := false
		for _, o := range s.ikeys {
			if o == k {
				dup = true
			}
		}
		if !dup {
			return k
		}
	}
}

// permute reorders the entries of a map description (non-identity when it has ≥ 2 entries).
func (g *gen) permute(s *spec) {
	n := len(s.items)
	if n < 2 {
		return
	}
	perm := make([]int, n)
	for {
		for i := range perm {
			perm[i] = i
		}
		g.r.Shuffle(n, func(i, j int) { perm[i], perm[j] = perm[j], perm[i] })
		id := true
		for i, p := range perm {
			if i != p {
				id = false
			}
		}
		if !id {
			break
		}
	}
	items := make([]*spec, n)
	for i, p := range perm {
		items[i] = s.items[p]
	}
	if s.code == cMap {
		keys := make([]string, n)
		for i, p := range perm {
			keys[i] = s.keys[p]
		}
		s.keys = keys
	} else {
		keys := make([]int32, n)
		for i, p := range perm {
			keys[i] = s.ikeys[p]
		}
		s.ikeys = keys
	}
	s.items = items
}

// mutate returns a modified deep copy: a small change that keeps the type.
func (g *gen) mutate(s *spec) *spec {
	c := clone(s)
	g.mutateInPlace(c, 2)
	return c
}

func (g *gen) mutateInPlace(c *spec, depth int) {
	switch c.code {
	case cNull:
	case cBool:
		c.b = !c.b
	case cDecimal, cLong:
		switch g.r.Intn(3) {
		case 0:
			c.i++
		case 1:
			c.i--
		default:
			c.i = g.i64()
		}
	case cInt, cTextH:
		switch g.r.Intn(3) {
		case 0:
			c.i = int64(int32(c.i) + 1)
		case 1:
			c.i = int64(int32(c.i) - 1)
		default:
			c.i = int64(g.i32())
		}
	case cFloat:
		if g.r.Bool() && c.f32 == c.f32 {
			c.f32 = math.Nextafter32(c.f32, float32(math.Inf(1-2*g.r.Intn(2))))
		} else {
			c.f32 = g.f32()
		}
	case cDouble:
		if g.r.Bool() && c.f64 == c.f64 {
			c.f64 = math.Nextafter(c.f64, math.Inf(1-2*g.r.Intn(2)))
		} else {
			c.f64 = g.f64()
		}
	case cDSum:
		switch g.r.Intn(4) {
		case 0:
			c.count++
		case 1:
			c.dmin, c.dmax = g.f64(), g.f64()
		case 2:
			c.f64 = g.f64()
		default:
			c.f64, c.count = g.f64(), g.i32()
		}
	case cLSum:
		switch g.r.Intn(4) {
		case 0:
			c.count++
		case 1:
			c.lmin, c.lmax = g.i64(), g.i64()
		case 2:
			c.i = g.i64()
		default:
			c.i, c.count = g.i64(), g.i32()
		}
	case cText:
		switch g.r.Intn(3) {
		case 0:
			c.s += string(rune('a' + g.r.Intn(3)))
		case 1:
			if len(c.s) > 0 {
				c.s = c.s[:len(c.s)-1]
			} else {
				c.s = "a"
			}
		default:
			c.s = g.str()
		}
	case cBlob:
		switch {
		case len(c.blob) == 0 && g.nilOK && g.r.Bool():
			c.nilp = !c.nilp
		case len(c.blob) > 0 && g.r.Bool():
			c.blob[g.r.Intn(len(c.blob))] ^= byte(1 << uint(g.r.Intn(8)))
		case len(c.blob) > 0 && g.r.Bool():
			c.blob = c.blob[:len(c.blob)-1]
		default:
			c.blob = append(c.blob, byte(g.r.Intn(3)))
			c.nilp = false
		}
	case cIP4:
		c.blob[g.r.Intn(4)] ^= byte(1 << uint(g.r.Intn(8)))
	case cIntArr, cLngArr, cFltArr, cTxtArr:
		n := payloadLen(c)
		switch {
		case n == 0 && g.nilOK && g.r.Bool():
			c.nilp = !c.nilp
		case n > 0 && g.r.Chance(1, 4):
			c.ints, c.longs, c.floats, c.texts = cut32(c.ints), cut64(c.longs), cutF(c.floats), cutS(c.texts)
		case n > 0 && g.r.Bool():
			i := g.r.Intn(n)
			switch c.code {
			case cIntArr:
				c.ints[i] += int32(1 - 2*g.r.Intn(2))
			case cLngArr:
				c.longs[i] += int64(1 - 2*g.r.Intn(2))
			case cFltArr:
				c.floats[i] = g.f32()
			case cTxtArr:
				c.texts[i] = g.str()
			}
		default:
			c.nilp = false
			switch c.code {
			case cIntArr:
				c.ints = append(c.ints, g.i32())
			case cLngArr:
				c.longs = append(c.longs, g.i64())
			case cFltArr:
				c.floats = append(c.floats, g.f32())
			case cTxtArr:
				c.texts = append(c.texts, g.str())
			}
		}
	case cList:
		n := len(c.items)
		switch {
		case n == 0:
			c.items = append(c.items, g.any(depth-1))
		case g.r.Chance(4, 10):
			g.mutateInPlace(c.items[g.r.Intn(n)], depth-1)
		case g.r.Chance(1, 3):
			i := g.r.Intn(n)
			c.items[i] = g.value(g.otherCode(c.items[i].code, depth-1), depth-1)
		case g.r.Chance(1, 3) && n >= 2:
			i, j := g.r.Intn(n), g.r.Intn(n)
			c.items[i], c.items[j] = c.items[j], c.items[i]
		case g.r.Bool():
			c.items = append(c.items, g.any(depth-1))
		default:
			c.items = c.items[:n-1]
		}
	case cMap, cIntMap:
		n := len(c.items)
		switch {
		case n == 0:
			g.addEntry(c, depth)
		case g.r.Chance(3, 10):
			g.mutateInPlace(c.items[g.r.Intn(n)], depth-1)
		case g.r.Chance(1, 4):
			i := g.r.Intn(n)
			c.items[i] = g.value(g.otherCode(c.items[i].code, depth-1), depth-1)
		case g.r.Chance(1, 3):
			i := g.r.Intn(n)
			if c.code == cMap {
				c.keys[i] = g.freshKey(c)
			} else {
				c.ikeys[i] = g.freshIKey(c)
			}
		case g.r.Chance(1, 2) && n >= 2:
			g.permute(c)
		case g.r.Bool():
			g.addEntry(c, depth)
		default:
			c.items = c.items[:n-1]
			if c.code == cMap {
				c.keys = c.keys[:n-1]
			} else {
				c.ikeys = c.ikeys[:n-1]
			}
		}
	}
}

func cut32(a []int32) []int32 {
	if len(a) > 0 {
		return a[:len(a)-1]
	}
	return a
}
func cut64(a []int64) []int64 {
	if len(a) > 0 {
		return a[:len(a)-1]
	}
	return a
}
func cutF(a []float32) []float32 {
	if len(a) > 0 {
		return a[:len(a)-1]
	}
	return a
}
func cutS(a []string) []string {
	if len(a) > 0 {
		return a[:len(a)-1]
	}
	return a
}

func (g *gen) addEntry(c *spec, depth int) {
	if c.code == cMap {
		c.keys = append(c.keys, g.freshKey(c))
	} else {
		c.ikeys = append(c.ikeys, g.freshIKey(c))
	}
	c.items = append(c.items, g.any(depth-1))
}

// mutateLeaves redraws some leaves without touching the structure (same key sets, same
// insertion order, same element types).
func (g *gen) mutateLeaves(c *spec) {
	if isContainer(c.code) {
		for _, e := range c.items {
			g.mutateLeaves(e)
		}
		return
	}
	if g.r.Bool() {
		n := g.leaf(c.code)
		*c = *n
	}
}

// wrap puts a and b into the same position of two otherwise identical containers.
func (g *gen) wrap(a, b *spec) (*spec, *spec) {
	switch g.r.Intn(4) {
	case 0:
		return &spec{code: cList, items: []*spec{a}}, &spec{code: cList, items: []*spec{b}}
	case 1:
		k := g.key()
		return &spec{code: cMap, keys: []string{k}, items: []*spec{a}}, &spec{code: cMap, keys: []string{k}, items: []*spec{b}}
	case 2:
		k := g.ikey()
		return &spec{code: cIntMap, ikeys: []int32{k}, items: []*spec{a}}, &spec{code: cIntMap, ikeys: []int32{k}, items: []*spec{b}}
	default:
		x := g.leaf(leafCodes[g.r.Intn(len(leafCodes))])
		k := g.key()
		wa := &spec{code: cList, items: []*spec{x, {code: cMap, keys: []string{k}, items: []*spec{a}}}}
		wb := &spec{code: cList, items: []*spec{clone(x), {code: cMap, keys: []string{k}, items: []*spec{b}}}}
		return wa, wb
	}
}

// ---- targeted pair shapes -------------------------------------------------------------------

// shapeMapKeys: maps of equal size whose key sets differ.
func (g *gen) shapeMapKeys() (*spec, *spec) {
	code := []byte{cMap, cIntMap}[g.r.Intn(2)]
	depth := 1
	if g.r.Chance(1, 4) {
		depth = 2
	}
	a := g.container(code, g.r.Range(1, 5), depth)
	b := clone(a)
	n := len(b.items)
	ren := 1
	if g.r.Chance(1, 3) {
		ren = g.r.Range(1, n)
	}
	for k := 0; k < ren; k++ {
		i := g.r.Intn(n)
		if code == cMap {
			b.keys[i] = g.freshKey2(a, b)
		} else {
			b.ikeys[i] = g.freshIKey2(a, b)
		}
	}
	if g.r.Chance(1, 3) {
		g.mutateLeaves(b)
	}
	if g.r.Chance(1, 5) {
		return g.wrap(a, b)
	}
	return a, b
}

func (g *gen) freshKey2(a, b *spec) string {
	for {
		k := g.freshKey(a)
		dup := false
		for _, o := range b.keys {
			if o == k {
				dup = true
			}
		}
		if !dup {
			return k
		}
	}
}
func (g *gen) freshIKey2(a, b *spec) int32 {
	for {
		k := g.freshIKey(a)
		dup := false
		for _, o := range b.ikeys {
			if o == k {
				dup = true
			}
		}
		if !dup {
			return k
		}
	}
}

// shapeMapOrder: the same key set inserted in different orders.
func (g *gen) shapeMapOrder() (*spec, *spec) {
	code := []byte{cMap, cIntMap}[g.r.Intn(2)]
	a := g.container(code, g.r.Range(2, 6), 1)
	b := clone(a)
	g.permute(b)
	switch g.r.Intn(4) {
	case 0: // equal values: Equals must be symmetric-true, CompareTo 0 both ways
	case 1, 2:
		g.mutateLeaves(b)
	default:
		// all values differ, by a small step
		for _, e := range b.items {
			g.mutateInPlace(e, 0)
		}
	}
	if g.r.Chance(1, 5) {
		return g.wrap(a, b)
	}
	return a, b
}

// shapeListTypes: lists of equal length holding different element types.
func (g *gen) shapeListTypes() (*spec, *spec) {
	a := g.container(cList, g.r.Range(1, 5), 1)
	b := clone(a)
	n := len(b.items)
	k := 1
	if g.r.Chance(1, 3) {
		k = g.r.Range(1, n)
	}
	for ; k > 0; k-- {
		i := g.r.Intn(n)
		b.items[i] = g.value(g.otherCode(a.items[i].code, 1), 1)
	}
	if g.r.Chance(1, 3) {
		for i := range b.items {
			if b.items[i].code == a.items[i].code && g.r.Bool() {
				g.mutateInPlace(b.items[i], 0)
			}
		}
	}
	if g.r.Chance(1, 5) {
		return g.wrap(a, b)
	}
	return a, b
}

// shapeNilEmpty: nil versus empty payloads ("" texts included).
func (g *gen) shapeNilEmpty() (*spec, *spec) {
	code := []byte{cBlob, cIntArr, cFltArr, cTxtArr, cLngArr, cText, cTxtArr}[g.r.Intn(7)]
	var a, b *spec
	if code == cText {
		a, b = &spec{code: cText}, &spec{code: cText}
		if g.r.Chance(1, 3) {
			b.s = g.str()
		}
	} else {
		mk := func(kind int) *spec {
			s := &spec{code: code}
			switch kind {
			case 0:
				s.nilp = true
			case 1: // empty
			default:
				old := g.nilOK
				g.nilOK = false
				for {
					s = g.leaf(code)
					if payloadLen(s) > 0 {
						break
					}
				}
				g.nilOK = old
				if code == cTxtArr && g.r.Bool() {
					s.texts = []string{""}
				}
			}
			return s
		}
		kinds := [][2]int{{0, 1}, {1, 0}, {0, 0}, {1, 1}, {0, 2}, {2, 0}, {1, 2}, {0, 1}, {1, 0}}[g.r.Intn(9)]
		a, b = mk(kinds[0]), mk(kinds[1])
	}
	if g.r.Chance(1, 3) {
		return g.wrap(a, b)
	}
	return a, b
}

// shapeSumCount: summaries with equal sums and different counts (and the neighbouring cases).
func (g *gen) shapeSumCount() (*spec, *spec) {
	code := []byte{cLSum, cDSum}[g.r.Intn(2)]
	a := g.leaf(code)
	b := clone(a)
	switch g.r.Intn(6) {
	case 0, 1, 2: // same sum, different count
		for b.count == a.count {
			if g.r.Bool() {
				b.count = a.count + int32(1-2*g.r.Intn(2))
			} else {
				b.count = g.i32()
			}
		}
		if g.r.Bool() {
			b.lmin, b.lmax, b.dmin, b.dmax = g.i64(), g.i64(), g.f64(), g.f64()
		}
	case 3: // same sum and count, different min/max
		b.lmin, b.lmax, b.dmin, b.dmax = g.i64(), g.i64(), g.f64(), g.f64()
	case 4: // different sum, same count
		b.i, b.f64 = g.i64(), g.f64()
		if g.r.Bool() {
			// neighbouring sums (integer steps beyond 2^53, a few ulps): distinct sums that
			// collapse when a comparison routes them through a narrower or a floating type
			base := i64Bases[g.r.Intn(len(i64Bases))]
			a.i = base + int64(g.r.Intn(4))
			for b.i = a.i; b.i == a.i; {
				b.i = base + int64(g.r.Intn(4))
			}
			fb := f64Bases[g.r.Intn(len(f64Bases))]
			a.f64 = fb
			b.f64 = fb
			for k := 1 + g.r.Intn(3); k > 0; k-- {
				b.f64 = math.Nextafter(b.f64, math.Inf(1))
			}
		}
	default:
		b = g.leaf(code)
	}
	if g.r.Chance(1, 3) {
		return g.wrap(a, b)
	}
	return a, b
}

// shapeNaN: n NaN-bearing values of identical structure (same keys, same order, same element
// types) so that the only irregularity is the NaN; the NaNs sit in leaves of ONE type per
// case (Float, Double, FloatArray or DoubleSummary), which is the type the finding key names.
func (g *gen) shapeNaN(n int) []*spec {
	nanLeaves := []byte{cFloat, cDouble, cFltArr, cDSum}
	g.nanType = nanLeaves[g.r.Intn(4)]
	oldSmall := g.small
	if g.r.Bool() {
		g.small = true // tiny pools for the non-NaN numbers: ties between the copies are frequent
	}
	defer func() { g.nanType, g.nan, g.small = 0, false, oldSmall }()
	var a *spec
	for tries := 0; ; tries++ {
		if g.r.Chance(4, 7) {
			a = g.leaf(g.nanType)
			if a.code == cFltArr && len(a.floats) == 0 {
				a.nilp = false
				a.floats = []float32{g.f32()}
			}
		} else {
			code := containerCodes[g.r.Intn(3)]
			a = g.container(code, 0, 0)
			k := g.r.Range(1, 4)
			for i := 0; i < k; i++ {
				var e *spec
				if g.r.Chance(2, 3) {
					e = g.leaf(g.nanType)
				} else {
					// no summaries among the NaN-free companions: redrawing one could add an
					// equal-sum / different-count pair, which is a class of its own
					e = g.leaf(nanCompanions[g.r.Intn(len(nanCompanions))])
				}
				switch code {
				case cMap:
					a.keys = append(a.keys, g.freshKey(a))
				case cIntMap:
					a.ikeys = append(a.ikeys, g.freshIKey(a))
				}
				a.items = append(a.items, e)
			}
		}
		if hasNaN(a) || tries > 20 {
			break
		}
	}
	out := []*spec{a}
	for len(out) < n {
		b := clone(a)
		if g.r.Chance(4, 5) {
			g.mutateLeaves(b)
		}
		out = append(out, b)
	}
	g.r.Shuffle(len(out), func(i, j int) { out[i], out[j] = out[j], out[i] })
	return out
}

// shapeWide: containers large enough to make the backing tables grow.
func (g *gen) shapeWide() (*spec, *spec) {
	code := containerCodes[g.r.Intn(3)]
	n := g.r.Range(60, 200)
	a := &spec{code: code}
	for i := 0; i < n; i++ {
		switch code {
		case cMap:
			// unique: i*7%n alone repeats when 7 divides n
			a.keys = append(a.keys, "k"+itoa(i*7%n)+keyPool[i%len(keyPool)]+"#"+itoa(i))
		case cIntMap:
			a.ikeys = append(a.ikeys, int32(i*101+i%3))
		}
		a.items = append(a.items, g.leaf(scalarCodes[g.r.Intn(len(scalarCodes))]))
	}
	b := clone(a)
	switch g.r.Intn(5) {
	case 0:
	case 1:
		if code != cList {
			g.permute(b)
		}
	case 2:
		g.mutateInPlace(b.items[g.r.Intn(n)], 0)
	case 3:
		i := g.r.Intn(n)
		switch code {
		case cMap:
			b.keys[i] = "zz" + itoa(i)
		case cIntMap:
			b.ikeys[i] = int32(-5 - i)
		default:
			b.items[i] = g.leaf(g.otherLeaf(b.items[i].code))
		}
	default:
		g.mutateLeaves(b)
	}
	return a, b
}

func (g *gen) otherLeaf(not byte) byte {
	for {
		c := leafCodes[g.r.Intn(len(leafCodes))]
		if c != not {
			return c
		}
	}
}

func itoa(i int) string {
	if i == 0 {
		return "0"
	}
	neg := i < 0
	if neg {
		i = -i
	}
	var b [20]byte
	p := len(b)
	for i > 0 {
		p--
		b[p] = byte('0' + i%10)
		i /= 10
	}
	if neg {
		p--
		b[p] = '-'
	}
	return string(b[p:])
}

// shapeNested: deep narrow containers differing at one deep node.
func (g *gen) shapeNested() (*spec, *spec) {
	depth := g.r.Range(3, 6)
	var mk func(d int) *spec
	mk = func(d int) *spec {
		if d == 0 {
			return g.any(0)
		}
		code := containerCodes[g.r.Intn(3)]
		s := g.container(code, g.r.Range(1, 2), 0)
		s.items[g.r.Intn(len(s.items))] = mk(d - 1)
		return s
	}
	a := mk(depth)
	b := clone(a)
	// walk down to a random depth and mutate there
	node := b
	for d := g.r.Intn(depth + 1); d > 0 && isContainer(node.code) && len(node.items) > 0; d-- {
		next := node.items[g.r.Intn(len(node.items))]
		if !isContainer(next.code) {
			break
		}
		node = next
	}
	if g.r.Chance(4, 5) {
		g.mutateInPlace(node, 1)
	}
	return a, b
}
