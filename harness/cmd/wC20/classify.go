package main

// Shape classes. A failing law is keyed <law>/<TypeA>×<TypeB>/<shape>; the shape names the
// structural relation between the two (or three) values that were compared, computed from the
// worker's own descriptions. Exactly one name per pair, by a fixed priority, so the key space
// stays small.

const (
	shNaN       = "NaN"                       // a NaN in a float field of either value
	shMissing   = "missing-key"               // maps of equal size whose key sets differ
	shOrder     = "different-insertion-order" // maps with the same key set inserted in another order
	shElemTypes = "different-element-types"   // equal-length lists / same-key maps holding values of different types
	shSumCount  = "equal-sum-different-count" // summaries with equal sums and different counts
	shNilEmpty  = "nil-vs-empty"              // a nil payload against an empty payload
	shPlain     = "plain"
)

// Priority when several classes arise in one pair: first the classes for which the library's
// element-wise scheme has no order-consistent answer (NaN, key sets, insertion order, the
// count that CompareTo ignores), then the classes a lawful per-element order handles.
var shapePriority = []string{shNaN, shMissing, shOrder, shSumCount, shElemTypes, shNilEmpty, shPlain}

func shapeRank(s string) int {
	for i, n := range shapePriority {
		if n == s {
			return i
		}
	}
	return len(shapePriority)
}

// flags: for every class, the type of the first node (in walk order) at which it arises
// ("" = does not arise). The key names THAT type — the node whose Equals/CompareTo meets the
// irregular shape — not the outermost container, so that the same irregularity wrapped in a
// list or a map is the same finding.
type flags struct{ nan, missing, order, elemTypes, sumCount, nilEmpty string }

func (f flags) name() (shape, where string) {
	switch {
	case f.nan != "":
		return shNaN, f.nan
	case f.missing != "":
		return shMissing, f.missing
	case f.order != "":
		return shOrder, f.order
	case f.sumCount != "":
		return shSumCount, f.sumCount
	case f.elemTypes != "":
		return shElemTypes, f.elemTypes
	case f.nilEmpty != "":
		return shNilEmpty, f.nilEmpty
	}
	return shPlain, ""
}

func set(p *string, v string) {
	if *p == "" {
		*p = v
	}
}

// nanWhere: type of the first node holding a NaN ("" if none).
func nanWhere(s *spec) string {
	switch s.code {
	case cFloat:
		if s.f32 != s.f32 {
			return typeName[cFloat]
		}
	case cDouble:
		if s.f64 != s.f64 {
			return typeName[cDouble]
		}
	case cDSum:
		if s.f64 != s.f64 || s.dmin != s.dmin || s.dmax != s.dmax {
			return typeName[cDSum]
		}
	case cFltArr:
		for _, f := range s.floats {
			if f != f {
				return typeName[cFltArr]
			}
		}
	}
	for _, e := range s.items {
		if w := nanWhere(e); w != "" {
			return w
		}
	}
	return ""
}

// nilWhere: type of the first node with a nil payload ("" if none).
func nilWhere(s *spec) string {
	if s.nilp {
		return typeName[s.code]
	}
	for _, e := range s.items {
		if w := nilWhere(e); w != "" {
			return w
		}
	}
	return ""
}

func hasNaN(s *spec) bool { return nanWhere(s) != "" }

func hasNilPayload(s *spec) bool { return nilWhere(s) != "" }

func payloadLen(s *spec) int {
	switch s.code {
	case cBlob:
		return len(s.blob)
	case cIntArr:
		return len(s.ints)
	case cFltArr:
		return len(s.floats)
	case cTxtArr:
		return len(s.texts)
	case cLngArr:
		return len(s.longs)
	}
	return 0
}

// classPair names the shape of the pair (a,b). Values of different types are always "plain":
// a lawful comparison of different types never looks at the payloads.
//
// It returns the shape and the "TypeA×TypeB" part of the finding key: for an irregular shape
// the type of the node where it arises (twice: both sides have that type), for plain pairs
// the two top-level types, receiver first.
func classPair(a, b *spec) (shape, types string) {
	if a.code != b.code {
		return shPlain, tn(a) + "×" + tn(b)
	}
	var f flags
	if w := nanWhere(a); w != "" {
		f.nan = w
	} else if w := nanWhere(b); w != "" {
		f.nan = w
	}
	walkPair(a, b, &f)
	sh, w := f.name()
	if w == "" {
		w = tn(a)
	}
	return sh, w + "×" + w
}

// classSelf names the shape of (v,v) and of (v, decoded copy of v).
func classSelf(a *spec, decoded bool) (shape, types string) {
	if w := nanWhere(a); w != "" {
		return shNaN, w + "×" + w
	}
	if decoded {
		if w := nilWhere(a); w != "" {
			return shNilEmpty, w + "×" + w
		}
	}
	return shPlain, tn(a) + "×" + tn(a)
}

func walkPair(a, b *spec, f *flags) {
	switch a.code {
	case cBlob, cIntArr, cFltArr, cTxtArr, cLngArr:
		if a.nilp != b.nilp && payloadLen(a) == 0 && payloadLen(b) == 0 {
			set(&f.nilEmpty, tn(a))
		}
	case cLSum:
		if a.i == b.i && a.count != b.count {
			set(&f.sumCount, tn(a))
		}
	case cDSum:
		if a.f64 == b.f64 && a.count != b.count {
			set(&f.sumCount, tn(a))
		}
	case cList:
		if len(a.items) != len(b.items) {
			return
		}
		for i := range a.items {
			if a.items[i].code != b.items[i].code {
				set(&f.elemTypes, tn(a))
			} else {
				walkPair(a.items[i], b.items[i], f)
			}
		}
	case cMap:
		if len(a.items) != len(b.items) {
			return
		}
		idx := make(map[string]int, len(b.keys))
		for i, k := range b.keys {
			idx[k] = i
		}
		for i, k := range a.keys {
			j, ok := idx[k]
			if !ok {
				set(&f.missing, tn(a))
				continue
			}
			if i != j {
				set(&f.order, tn(a))
			}
			if a.items[i].code != b.items[j].code {
				set(&f.elemTypes, tn(a))
			} else {
				walkPair(a.items[i], b.items[j], f)
			}
		}
	case cIntMap:
		if len(a.items) != len(b.items) {
			return
		}
		idx := make(map[int32]int, len(b.ikeys))
		for i, k := range b.ikeys {
			idx[k] = i
		}
		for i, k := range a.ikeys {
			j, ok := idx[k]
			if !ok {
				set(&f.missing, tn(a))
				continue
			}
			if i != j {
				set(&f.order, tn(a))
			}
			if a.items[i].code != b.items[j].code {
				set(&f.elemTypes, tn(a))
			} else {
				walkPair(a.items[i], b.items[j], f)
			}
		}
	}
}
