package main

// guard.go — every Equals / CompareTo call runs under a termination guard.
//
// "Equality and comparison never fail" includes returning at all. The call is made on a helper
// goroutine; the case waits for it. A watchdog goroutine notices a call that has been in flight
// for several ticks and only then — the clock TRIGGERS the look, it decides nothing — the
// guard MEASURES: two dumps of the helper goroutine some seconds apart must both show it
// running/runnable inside golib frames, and the user-CPU time of the process must have grown by
// most of a core between them. That is `totality-<Method>/<Type>×<Type>/<shape>:never-returns`
// (the operands are small values: their descriptions and creation-time encodings are in the
// witness). Anything else (blocked goroutine, no CPU burnt, frames outside golib) is
// inconclusive. Either way the helper is abandoned (it keeps its operands busy: the running
// case is given up without further looks at its values), a fresh helper is started, and further
// comparisons of the same (receiver type, argument type, same object?) class are skipped in
// this process so that the run still ends.

import (
	"bytes"
	"fmt"
	"runtime"
	"strconv"
	"strings"
	"sync/atomic"
	"syscall"
	"time"

	"github.com/whatap/golib/lang/value"

	"verif/vlib"
)

// skipped is the "panic value" eq/cmp hand back for a call that was not made (its class never
// returned earlier in this process): callers judge nothing on it.
type skipped struct{}

func isSkipped(p interface{}) bool { _, ok := p.(skipped); return ok }

// abortCase unwinds the running case after a call was abandoned.
type abortCase struct{}

type skipKey struct {
	a, b byte
	same bool
}

type guard struct {
	m    *mon
	jobs chan func()
	done chan interface{}
	gid  string // goroutine id of the helper

	seq      int64 // calls started (atomic)
	inflight int32 // 1 while a call is running (atomic)
	alarm    chan int64

	skip map[skipKey]bool
}

const (
	guardTick       = 500 * time.Millisecond
	guardStaleTicks = 10              // a call in flight for ~5 s is looked at
	guardGap        = 3 * time.Second // between the two dumps
	guardRounds     = 4               // looks before giving up as inconclusive
	guardMinCPU     = 600 * time.Millisecond
)

var grd *guard

func newGuard(m *mon) *guard {
	g := &guard{m: m, alarm: make(chan int64, 1), skip: map[skipKey]bool{}}
	g.startHelper()
	go g.watchdog()
	return g
}

func curGID() string {
	var buf [64]byte
	n := runtime.Stack(buf[:], false)
	f := strings.Fields(string(buf[:n]))
	if len(f) >= 2 {
		return f[1]
	}
	return "?"
}

func (g *guard) startHelper() {
	jobs, done := make(chan func()), make(chan interface{})
	ready := make(chan string)
	go func() {
		ready <- curGID()
		for fn := range jobs {
			done <- vlib.Catch(fn)
		}
	}()
	g.jobs, g.done, g.gid = jobs, done, <-ready
}

func (g *guard) watchdog() {
	t := time.NewTicker(guardTick)
	var last int64 = -1
	stale := 0
	for range t.C {
		s := atomic.LoadInt64(&g.seq)
		if atomic.LoadInt32(&g.inflight) == 1 && s == last {
			stale++
			if stale >= guardStaleTicks {
				select {
				case g.alarm <- s:
				default:
				}
			}
			continue
		}
		last, stale = s, 0
	}
}

func userCPU() time.Duration {
	var ru syscall.Rusage
	if syscall.Getrusage(syscall.RUSAGE_SELF, &ru) != nil {
		return 0
	}
	return time.Duration(ru.Utime.Sec)*time.Second + time.Duration(ru.Utime.Usec)*time.Microsecond
}

// helperDump: state and frames of the helper goroutine, from a dump of all goroutines.
func (g *guard) helperDump() (state string, golibFrames []string, text string) {
	buf := make([]byte, 1<<20)
	buf = buf[:runtime.Stack(buf, true)]
	head := []byte("goroutine " + g.gid + " [")
	i := bytes.Index(buf, head)
	if i < 0 || (i > 0 && buf[i-1] != '\n') {
		return "gone", nil, ""
	}
	blk := buf[i:]
	if j := bytes.Index(blk, []byte("\n\n")); j >= 0 {
		blk = blk[:j]
	}
	text = string(blk)
	lines := strings.Split(text, "\n")
	if k := strings.Index(lines[0], "]"); k > 0 {
		state = lines[0][len(head):k]
	}
	if k := strings.Index(state, ","); k >= 0 {
		state = state[:k] // "running, 2 minutes" cannot occur for running, but keep the state word only
	}
	for _, ln := range lines[1:] {
		if strings.HasPrefix(ln, "github.com/whatap/golib/") {
			if k := strings.LastIndex(ln, "("); k > 0 {
				ln = ln[:k]
			}
			golibFrames = append(golibFrames, ln)
		}
	}
	return
}

func typeNameOf(v value.Value) (code byte, name string) {
	code = 255
	vlib.Catch(func() { code = v.GetValueType() })
	if n, ok := typeName[code]; ok {
		return code, n
	}
	return code, "type-" + strconv.Itoa(int(code))
}

// run makes one call of the code under test under the guard.
func (g *guard) run(method string, a, b value.Value, fn func()) interface{} {
	ca, na := typeNameOf(a)
	cb, nb := typeNameOf(b)
	k := skipKey{ca, cb, a == b}
	if len(g.skip) > 0 && g.skip[k] {
		g.m.c.Count("calls_skipped_after_never_returns", 1)
		return skipped{}
	}
	my := atomic.AddInt64(&g.seq, 1)
	atomic.StoreInt32(&g.inflight, 1)
	g.jobs <- fn
	for {
		select {
		case p := <-g.done:
			atomic.StoreInt32(&g.inflight, 0)
			return p
		case s := <-g.alarm:
			if s != my {
				continue
			}
		}
		break
	}
	// the call has been in flight for seconds: measure what its goroutine is doing
	c := g.m.c
	c.Count("guard_calls_looked_at", 1)
	var looks []map[string]interface{}
	conclusive, deadlocked := false, false
	var frames []string
	var lastText string
	for round := 0; round < guardRounds && !conclusive; round++ {
		cpu0 := userCPU()
		st0, fr0, _ := g.helperDump()
		select {
		case p := <-g.done:
			atomic.StoreInt32(&g.inflight, 0)
			c.Count("guard_slow_calls_that_returned", 1)
			return p
		case <-time.After(guardGap):
		}
		st1, fr1, text := g.helperDump()
		cpu := userCPU() - cpu0
		busy := func(s string) bool { return s == "running" || s == "runnable" }
		looks = append(looks, map[string]interface{}{"state_first_dump": st0, "state_second_dump": st1,
			"innermost_golib_frame_first_dump": first(fr0), "innermost_golib_frame_second_dump": first(fr1), "user_cpu_between_dumps_ms": cpu.Milliseconds()})
		if busy(st0) && busy(st1) && len(fr0) > 0 && len(fr1) > 0 && cpu >= guardMinCPU {
			conclusive = true
		}
		// the other way of never returning: parked on a mutex inside golib, in the same frames
		// in both dumps, while no goroutine of the process is executing golib code (the values
		// of a case are touched by its own calls only, golib never hands a held lock back to
		// its caller, so nobody is left who could release it). Added after seeded change
		// C20r7-3 (a map compared with itself walks its entries under its own lock and looks
		// each key up through a method that takes that lock again).
		parked := func(s string) bool {
			return strings.HasPrefix(s, "sync.Mutex.Lock") || strings.HasPrefix(s, "sync.RWMutex") || strings.HasPrefix(s, "semacquire")
		}
		if parked(st0) && parked(st1) && len(fr0) > 0 && strings.Join(fr0, "|") == strings.Join(fr1, "|") && !othersRunGolib(g.gid) {
			conclusive, deadlocked = true, true
		}
		frames, lastText = fr1, text
	}
	atomic.StoreInt32(&g.inflight, 0)

	// name the call from the ledger's records of the operands (taken when they were created;
	// the operands themselves are in use by the abandoned goroutine and are not read again)
	shape, types := shPlain, na+"×"+nb
	wit := map[string]interface{}{"method": method, "same_object_on_both_sides": a == b, "looks": looks,
		"golib_frames_of_the_call": frames, "goroutine_dump": lastText}
	if led != nil {
		var sa, sb *spec
		if j, ok := led.byPtr[a]; ok && j < len(led.cur) {
			sa = led.cur[j].s
			wit["receiver"], wit["receiver_wire_hex_at_creation"] = renderShort(sa), vlib.Hex(led.cur[j].wire)
		}
		if j, ok := led.byPtr[b]; ok && j < len(led.cur) {
			sb = led.cur[j].s
			wit["argument"], wit["argument_wire_hex_at_creation"] = renderShort(sb), vlib.Hex(led.cur[j].wire)
		}
		if sa != nil && sb != nil {
			if a == b {
				shape, types = classSelf(sa, false)
			} else {
				shape, types = classPair(sa, sb)
			}
		}
		wit["calls_of_the_case_so_far"] = led.opLog()
	}
	obj := "two objects"
	if a == b {
		obj = "the SAME object on both sides"
	}
	if conclusive && deadlocked {
		c.Fail("totality-"+method+"/"+types+"/"+shape+":never-returns",
			fmt.Sprintf("%s.%s(%s) with %s does not return: its goroutine is parked on a mutex in %s (same frames in two dumps %s apart) and no other goroutine is executing golib code that could release it; receiver=%v argument=%v",
				na, method, nb, obj, first(frames), guardGap, wit["receiver"], wit["argument"]), wit)
	} else if conclusive {
		c.Fail("totality-"+method+"/"+types+"/"+shape+":never-returns",
			fmt.Sprintf("%s.%s(%s) with %s does not return: in %d pairs of goroutine dumps %s apart the call is running in %s and the process burns CPU; receiver=%v argument=%v",
				na, method, nb, obj, len(looks), guardGap, first(frames), wit["receiver"], wit["argument"]), wit)
	} else {
		c.Inconclusive(led.caseID, fmt.Sprintf("%s.%s(%s) had not returned after %d looks, but the measurements do not show a busy loop in golib: %v", na, method, nb, len(looks), looks))
	}
	g.skip[k] = true
	c.SetAdd("comparison_classes_skipped_after_never_returns", fmt.Sprintf("%s×%s same-object=%v", na, nb, a == b))
	g.startHelper()
	panic(abortCase{})
}

// othersRunGolib: is any goroutine other than gid inside golib frames and not itself parked on a
// mutex? (A goroutine abandoned by an earlier verdict may still be spinning or parked there.)
func othersRunGolib(gid string) bool {
	buf := make([]byte, 4<<20)
	buf = buf[:runtime.Stack(buf, true)]
	for _, blk := range strings.Split(string(buf), "\n\n") {
		if !strings.HasPrefix(blk, "goroutine ") || strings.HasPrefix(blk, "goroutine "+gid+" [") {
			continue
		}
		if !strings.Contains(blk, "\ngithub.com/whatap/golib/") {
			continue
		}
		head := blk
		if k := strings.Index(head, "\n"); k > 0 {
			head = head[:k]
		}
		if strings.Contains(head, "[sync.Mutex.Lock") || strings.Contains(head, "[sync.RWMutex") || strings.Contains(head, "[semacquire") {
			continue
		}
		return true
	}
	return false
}

func first(s []string) string {
	if len(s) == 0 {
		return "(none)"
	}
	return s[0]
}
