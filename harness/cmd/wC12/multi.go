package main

// Multi-instance histories (added after seeded change C12r6-2: IntKeyMap.PutAll copied only the
// bucket heads of its argument, so the chain tails were shared by both maps — each map alone
// was exact right after the call, and went wrong when the OTHER one was modified).
//
// Two to four live maps of one type with their own models share one colliding key pool. Every
// step mutates or queries one of them; PutAll takes another LIVE map as its argument, and both
// go on being used. After a PutAll, and after every mutation of the following steps, ALL live
// maps are compared in full with their models (private structure, every enumeration, every
// key): an operation on one map must never change another.

import (
	"fmt"

	"verif/pmap"
	"verif/vlib"
)

func runMulti(c *vlib.Ctx, d *pmap.Descriptor, section string, i int, r *vlib.Rand) {
	n := r.Range(2, 4)
	caseID := fmt.Sprintf("%s#%d", section, i)
	poolSize := []int{6, 12, 24, 64, 150, 400}[r.Intn(6)]
	var hs []*hist
	// same constructor for all (equal bucket counts) in half of the cases
	sameCtor := r.Bool()
	c0, l0 := 0, float32(0)
	if d.CtorCaps != nil && r.Intn(3) != 0 {
		v := r.Intn(20)
		c0, l0 = d.CtorCaps[v%5], d.CtorLFs[v/5]
	}
	var tw twinSet
	ipool := makeIntPool(r, d.Name, c0, poolSize, &tw)
	for k := 0; k < n; k++ {
		h := &hist{c: c, d: d, r: r, caseID: caseID, lastMut: "New"}
		capacity, lf := c0, l0
		if !sameCtor && d.CtorCaps != nil && r.Intn(3) != 0 {
			v := r.Intn(20)
			capacity, lf = d.CtorCaps[v%5], d.CtorLFs[v/5]
		}
		h.in = d.New(capacity, lf)
		h.m = pmap.NewModel(d.Name, 0)
		if capacity == 0 {
			h.ctor = "default (101, 0.75)"
		} else {
			h.ctor = fmt.Sprintf("(%d, %v)", capacity, lf)
		}
		h.ctor += fmt.Sprintf(" [live instance %c of %d]", 'A'+k, n)
		h.tableLen = pmap.TableLen(h.in)
		h.ipool = ipool
		h.tw = tw
		hs = append(hs, h)
	}
	alive := func() bool {
		for _, h := range hs {
			if h.dead {
				return false
			}
		}
		return true
	}
	checkAll := func() {
		for _, h := range hs {
			h.fullCheck()
		}
		c.Count("multi_all_instance_checks", 1)
	}
	nops := r.Range(60, 700)
	linked := 0
	for s := 0; s < nops && alive(); s++ {
		t := r.Intn(n)
		h := hs[t]
		if r.Intn(7) == 0 {
			src := hs[(t+1+r.Intn(n-1))%n]
			op := pmap.Op{Name: "PutAll", Src: src.in.Obj, SrcTag: string(rune('A' + (t+1)%n))}
			ok := true
			for k, v := range src.m.M {
				if v.Nil {
					ok = false
					break
				}
				op.KS = append(op.KS, k)
				op.VS = append(op.VS, v.V)
			}
			if !ok {
				c.Count("multi_putall_skipped_nil_valued_source", 1)
				continue
			}
			for k, x := range hs {
				if x == src {
					op.SrcTag = string(rune('A' + k))
				}
			}
			chains := pmap.Walk(src.in).MaxChain
			h.step(op)
			c.Count("multi_putall_from_live_instance", 1)
			if chains >= 2 {
				c.Count("multi_putall_from_source_with_chain_ge2", 1)
			}
			if pmap.TableLen(h.in) == pmap.TableLen(src.in) {
				c.Count("multi_putall_with_equal_table_lengths", 1)
			}
			if len(op.KS) > 0 && h.m.Size() == len(op.KS) {
				c.Count("multi_putall_into_empty_or_subset_target", 1)
			}
			checkAll()
			linked = 16
			continue
		}
		phase := phChurn
		if s < nops/3 {
			phase = phGrow
		}
		op := h.genOp(pickOp(r, weights(d.Name, phase)), phase)
		if op.Name == "PutAll" || op.Name == "Clear" && r.Intn(4) != 0 {
			continue // PutAll with a scratch source is the single-instance histories' business
		}
		if op.Name == "Put" && op.Nil {
			op.Nil = false
		}
		h.step(op)
		if linked > 0 && mutating[op.Name] {
			checkAll()
			c.Count("multi_mutations_checked_on_every_instance_after_putall", 1)
			linked--
		}
	}
	if alive() {
		checkAll()
	}
	c.Count("multi_histories", 1)
	c.Max("max_multi_instances", int64(n))
	var hsh uint64
	for _, h := range hs {
		hsh = vlib.Mix(hsh ^ h.hash)
	}
	c.Distinct(vlib.Mix(hsh ^ vlib.HashStr(d.Name+"multi")))
	if i < 4 && c.WantSample() {
		var trs [][]string
		for _, h := range hs {
			tr := h.trace
			if len(tr) > 12 {
				tr = tr[:12]
			}
			trs = append(trs, tr)
		}
		c.Sample(map[string]interface{}{"type": d.Name, "section": "multi-instance", "instances": n, "first_operations_per_instance": trs})
	}
}
