package main

// Equal-hash keys ("twins") and keys congruent modulo the table capacities.
//
// twins: groups of DISTINCT keys with the same FULL hash value — for StringSet strings with
// equal hash.HashStr (found by an independent CRC-32 birthday search, verified with the
// library's function: pmap.CRCGroups), for IntKeyMap keys k and k^d where d is a difference
// the bit mix of IntKeyMap.hash cancels (pmap.MixedKernel). IntIntMap and IntSet hash with the
// identity on the sign-extended key, which is injective: they have no twins, only congruent
// keys. The members of a group are mixed into the key pool and, on top of the pool draws,
// addressed directly so that both members of a pair are live in one instance, inserted in
// either order, removed one at a time, looked up (live and absent), enumerated and carried
// across growths.
//
// level groups: groups of 2..5 keys that share a bucket in the table of capacity c_i (and,
// for some, also of the next one or two capacities c_{i+1} = 2 c_i + 1, …) for every capacity
// the instance goes through, drawn from all regions of the key range (around MinInt32, below
// zero, above zero, around MaxInt32), so that at the moment of every growth old buckets hold
// chains of several keys, negative and extreme ones included.

import (
	"math"

	"verif/pmap"
	"verif/vlib"
)

type twinSet struct {
	sgroups [][]string
	igroups [][]int32
	sOf     map[string]int
	iOf     map[int32]int
	smem    []string
	imem    []int32
}

func (t *twinSet) addStr(g []string) {
	if t.sOf == nil {
		t.sOf = map[string]int{}
	}
	for _, s := range g {
		if _, dup := t.sOf[s]; dup {
			return
		}
	}
	for _, s := range g {
		t.sOf[s] = len(t.sgroups)
		t.smem = append(t.smem, s)
	}
	t.sgroups = append(t.sgroups, g)
}

func (t *twinSet) addInt(g []int32) {
	if t.iOf == nil {
		t.iOf = map[int32]int{}
	}
	for _, k := range g {
		if _, dup := t.iOf[k]; dup {
			return
		}
	}
	for _, k := range g {
		t.iOf[k] = len(t.igroups)
		t.imem = append(t.imem, k)
	}
	t.igroups = append(t.igroups, g)
}

func (t *twinSet) empty() bool { return len(t.smem) == 0 && len(t.imem) == 0 }

// partnerLive: is the key of op a twin, and is ANOTHER member of its group stored (model)?
func (h *hist) partnerLive(op pmap.Op) (twin, partner bool) {
	if h.d.StringKey {
		g, ok := h.tw.sOf[op.S]
		if !ok || !op.Str {
			return false, false
		}
		for _, s := range h.tw.sgroups[g] {
			if s != op.S {
				if _, live := h.m.SS[s]; live {
					return true, true
				}
			}
		}
		return true, false
	}
	g, ok := h.tw.iOf[op.K]
	if !ok {
		return false, false
	}
	for _, k := range h.tw.igroups[g] {
		if k != op.K {
			if _, live := h.m.M[k]; live {
				return true, true
			}
		}
	}
	return true, false
}

func (h *hist) selfLive(op pmap.Op) bool {
	if h.d.StringKey {
		_, ok := h.m.SS[op.S]
		return ok
	}
	_, ok := h.m.M[op.K]
	return ok
}

// liveTwinGroups counts the groups of which at least two members are stored.
func (h *hist) liveTwinGroups() int {
	n := 0
	for _, g := range h.tw.sgroups {
		l := 0
		for _, s := range g {
			if _, ok := h.m.SS[s]; ok {
				l++
			}
		}
		if l >= 2 {
			n++
		}
	}
	for _, g := range h.tw.igroups {
		l := 0
		for _, k := range g {
			if _, ok := h.m.M[k]; ok {
				l++
			}
		}
		if l >= 2 {
			n++
		}
	}
	return n
}

var singleKeyOps = map[string]bool{"Put": true, "Add": true, "AddIfExist": true, "Unipoint": true, "Remove": true,
	"Get": true, "ContainsKey": true, "Contains": true, "HasKey": true}

// twinCoverage counts what an operation on a twin exercised (pre: state before the operation).
func (h *hist) twinCoverage(op pmap.Op, twin, partner, self bool) {
	if !twin || !partner {
		return
	}
	c := h.c
	c.Count("equal_hash_ops_with_partner_stored", 1)
	c.Count("equal_hash_ops_with_partner_stored_"+h.d.Name, 1)
	switch op.Name {
	case "Put", "Add", "Unipoint":
		if !self {
			c.Count("equal_hash_second_member_inserted", 1)
			c.Count("equal_hash_second_member_inserted_"+h.d.Name, 1)
		} else {
			c.Count("equal_hash_member_updated_with_partner_stored", 1)
		}
	case "Remove":
		if self {
			c.Count("equal_hash_member_removed_partner_stays", 1)
		} else {
			c.Count("equal_hash_absent_member_removed_partner_stays", 1)
		}
	default:
		if self {
			c.Count("equal_hash_lookup_of_stored_member_with_partner_stored", 1)
		} else {
			c.Count("equal_hash_lookup_of_absent_member_with_partner_stored", 1)
		}
	}
}

// pickTwinStr / pickTwinInt: a member of an equal-hash group, chosen to bring about the
// situations above: insertions prefer an absent member whose partner is stored, removals a
// stored member whose partner is stored.
func (h *hist) pickTwinStr(name string) string {
	r := h.r
	m := h.tw.smem
	start := r.Intn(len(m))
	if r.Intn(4) != 0 {
		for j := 0; j < len(m) && j < 24; j++ {
			s := m[(start+j)%len(m)]
			op := pmap.StrOp(name, s)
			_, partner := h.partnerLive(op)
			self := h.selfLive(op)
			switch name {
			case "Put", "Unipoint":
				if partner && !self {
					return s
				}
			case "Remove":
				if partner && self {
					return s
				}
			default:
				if partner {
					return s
				}
			}
		}
	}
	return m[start]
}

func (h *hist) pickTwinInt(name string) int32 {
	r := h.r
	m := h.tw.imem
	start := r.Intn(len(m))
	if r.Intn(4) != 0 {
		for j := 0; j < len(m) && j < 24; j++ {
			k := m[(start+j)%len(m)]
			op := pmap.Op{Name: name, K: k}
			_, partner := h.partnerLive(op)
			self := h.selfLive(op)
			switch name {
			case "Put", "Add":
				if partner && !self {
					return k
				}
			case "Remove":
				if partner && self {
					return k
				}
			default:
				if partner {
					return k
				}
			}
		}
	}
	return m[start]
}

// twinTurn: should this operation address a twin? (about one key-taking operation in seven,
// more on small pools where the whole history is about a few keys)
func (h *hist) twinTurn() bool {
	if h.tw.empty() {
		return false
	}
	return h.r.Intn(7) == 0
}

// strTwinGroups draws n equal-hash string groups for a pool.
func strTwinGroups(r *vlib.Rand, n int) [][]string {
	all := pmap.CRCGroups().Groups
	if len(all) == 0 {
		return nil
	}
	var out [][]string
	for i := 0; i < n; i++ {
		g := all[r.Intn(len(all))]
		if r.Intn(3) == 0 {
			// one of the larger groups (they are at the end of the list)
			g = all[len(all)-1-r.Intn(minInt(12, len(all)))]
		}
		g = append([]string(nil), g...)
		r.Shuffle(len(g), func(i, j int) { g[i], g[j] = g[j], g[i] })
		out = append(out, g)
	}
	return out
}

// intTwinGroups draws n pairs {k, k^d} for IntKeyMap.
func intTwinGroups(r *vlib.Rand, n int) [][]int32 {
	ker := pmap.MixedKernel()
	if len(ker) == 0 {
		return nil
	}
	var out [][]int32
	for i := 0; i < n; i++ {
		var k int32
		switch r.Intn(4) {
		case 0:
			k = intSpecials[r.Intn(len(intSpecials))]
		case 1:
			k = int32(r.Range(-200, 200))
		default:
			k = r.I32()
		}
		d := ker[r.Intn(len(ker))]
		g := []int32{k, k ^ d}
		if pmap.HashIntMixed(g[0]) != pmap.HashIntMixed(g[1]) {
			continue
		}
		if r.Bool() {
			g[0], g[1] = g[1], g[0]
		}
		out = append(out, g)
	}
	return out
}

// capLevels lists the capacities an instance created with `capacity` goes through.
func capLevels(capacity, n int) []int {
	if capacity <= 0 {
		capacity = 101
	}
	l := []int{capacity}
	for len(l) < n {
		l = append(l, 2*l[len(l)-1]+1)
	}
	return l
}

// levelGroup: up to gsize keys that fall into the bucket of `base` for every capacity in
// mods, taken from all regions of the int32 range. The bucket is computed with the
// independent statement of the type's index (pmap.Index), so sign extension is accounted for.
func levelGroup(r *vlib.Rand, typ string, base int32, mods []int, gsize int) []int32 {
	same := func(k int32) bool {
		for _, n := range mods {
			if pmap.Index(typ, k, "", n) != pmap.Index(typ, base, "", n) {
				return false
			}
		}
		return true
	}
	M := int64(1)
	for _, n := range mods {
		M *= int64(n)
	}
	g := []int32{base}
	has := map[int32]bool{base: true}
	for tries := 0; len(g) < gsize && tries < 4*gsize; tries++ {
		// a starting point in one of the regions, then forward to the next key in the bucket(s)
		var v0 int64
		switch r.Intn(6) {
		case 0:
			v0 = math.MinInt32 + int64(r.Intn(int(minI64(4*M, 1<<20))))
		case 1:
			v0 = -int64(r.Intn(int(minI64(4*M, 1<<20)))) - 1
		case 2:
			v0 = int64(r.Intn(int(minI64(4*M, 1<<20))))
		case 3:
			v0 = math.MaxInt32 - minI64(4*M, 1<<20) - int64(r.Intn(1<<10))
		default:
			v0 = int64(r.I32())
		}
		if typ == pmap.TIntKeyMap {
			// the mixed hash is not additive: scan
			lim := 6 * M
			if lim > 200000 {
				lim = 200000
			}
			for j := int64(0); j < lim; j++ {
				v := v0 + j
				if v > math.MaxInt32 {
					break
				}
				if k := int32(v); !has[k] && same(k) {
					g, has[k] = append(g, k), true
					break
				}
			}
			continue
		}
		// identity hash on the sign-extended key: within one sign the bucket is periodic in M
		idx := func(v int64) int64 { return int64(uint64(v) % uint64(M)) }
		target := idx(int64(base))
		v := v0 + ((target-idx(v0))%M+M)%M
		if v < math.MinInt32 || v > math.MaxInt32 || (v0 < 0) != (v < 0) {
			continue
		}
		if k := int32(v); !has[k] && same(k) {
			g, has[k] = append(g, k), true
		}
	}
	return g
}

func minI64(a, b int64) int64 {
	if a < b {
		return a
	}
	return b
}

// levelGroups: about `want` keys in groups of 2..5 spread over the capacity levels.
func levelGroups(r *vlib.Rand, typ string, capacity, want int) [][]int32 {
	levels := capLevels(capacity, 7)
	var out [][]int32
	got := 0
	for n := 0; got < want && n < 64; n++ {
		lv := r.Intn(len(levels) - 1)
		span := 1 + r.Intn(3)
		mods := []int{}
		M := int64(1)
		for j := lv; j < len(levels) && len(mods) < span; j++ {
			if typ == pmap.TIntKeyMap && M*int64(levels[j]) > 30000 && len(mods) > 0 {
				break
			}
			if M*int64(levels[j]) > 1<<26 {
				break
			}
			mods = append(mods, levels[j])
			M *= int64(levels[j])
		}
		if len(mods) == 0 || (typ == pmap.TIntKeyMap && M > 30000) {
			continue
		}
		var base int32
		switch r.Intn(5) {
		case 0:
			base = []int32{math.MinInt32, math.MaxInt32, -1, 0, math.MinInt32 + 1, math.MaxInt32 - 1}[r.Intn(6)]
		case 1:
			base = -int32(r.Intn(1000)) - 1
		default:
			base = r.I32()
		}
		g := levelGroup(r, typ, base, mods, r.Range(2, 5))
		if len(g) >= 2 {
			out = append(out, g)
			got += len(g)
		}
	}
	return out
}

// growthCoverage: what the old table looked like at the moment of a growth caused by a
// single-key operation (keys: the model's content before the operation).
func (h *hist) growthCoverage(op pmap.Op, oldLen int, inserted bool) {
	c := h.c
	type bucket struct {
		n   int
		neg bool
		h   map[uint32]int
	}
	bs := map[int]*bucket{}
	note := func(idx int, neg bool, full uint32, hasFull bool) {
		b := bs[idx]
		if b == nil {
			b = &bucket{}
			bs[idx] = b
		}
		b.n++
		b.neg = b.neg || neg
		if hasFull {
			if b.h == nil {
				b.h = map[uint32]int{}
			}
			b.h[full]++
		}
	}
	if h.d.StringKey {
		for s := range h.m.SS {
			if inserted && s == op.S {
				continue
			}
			note(pmap.IndexStr(s, oldLen), false, pmap.RefHashStr(s), true)
		}
	} else {
		for k := range h.m.M {
			if inserted && k == op.K {
				continue
			}
			if h.d.Name == pmap.TIntKeyMap {
				note(pmap.Index(h.d.Name, k, "", oldLen), k < 0, pmap.HashIntMixed(k), true)
			} else {
				note(pmap.Index(h.d.Name, k, "", oldLen), k < 0, 0, false)
			}
		}
	}
	maxChain, ge2, neg, twins := 0, 0, false, false
	for _, b := range bs {
		if b.n > maxChain {
			maxChain = b.n
		}
		if b.n >= 2 {
			ge2++
			neg = neg || b.neg
			for _, n := range b.h {
				if n >= 2 {
					twins = true
				}
			}
		}
	}
	c.Count("growths_by_single_key_op", 1)
	c.Max("max_old_chain_at_growth", int64(maxChain))
	if maxChain >= 2 {
		c.Count("growths_with_old_chain_ge2", 1)
		c.Count("growths_with_old_chain_ge2_"+h.d.Name, 1)
		c.Count("old_chains_ge2_at_growths", int64(ge2))
	}
	if maxChain >= 3 {
		c.Count("growths_with_old_chain_ge3", 1)
	}
	if neg {
		c.Count("growths_with_negative_key_in_old_chain", 1)
	}
	if twins {
		c.Count("growths_with_equal_hash_keys_in_old_chain", 1)
		c.Count("growths_with_equal_hash_keys_in_old_chain_"+h.d.Name, 1)
	}
	if oldLen > 101 && maxChain >= 2 {
		c.Count("growths_beyond_first_with_old_chain_ge2", 1)
	}
}
