// wC12 — plain hash maps and sets behave as mathematical maps and sets.
//
// Generated operation histories are executed on the real IntIntMap / IntKeyMap / IntSet /
// StringSet (every call through a watchdog goroutine) in lock-step with the mathematical
// model of verif/pmap. After every operation the return value and Size() must agree; at
// small sizes after every mutation, right after every table growth, after every bulk
// operation, at random points and at the end a full check runs: the private table is walked
// (every entry in exactly one acyclic chain, in the bucket its key hashes to, count equal to
// the number of entries, no key twice, content equal to the model), every public
// enumeration is compared with the model as a multiset, and every stored key (plus absent
// probes) is looked up. IntIntMap.ToBytes is parsed and re-encoded by an independent
// reference codec and read back with ToObject into fresh and into populated maps.
package main

import (
	"fmt"
	"math"
	"os"
	"runtime"
	"runtime/debug"
	"runtime/pprof"
	"strconv"
	"strings"
	"sync/atomic"
	"time"

	"verif/pmap"
	"verif/vlib"
)

const guardTimeout = 10 * time.Second

// process-wide: methods that were seen to self-deadlock are not called again in this
// process (every further call would park another goroutine for the whole watchdog time).
var deadlocked = map[string]bool{}
var walkerBroken = false

// Progress beacon: bumped before every call into the structure. The watchdog
// (pmap.GuardProgress) only inspects the case goroutine when the beacon has not moved for
// guardTimeout, and only a goroutine dump showing it parked on the structure's own mutex is a
// verdict; a slow machine just makes it wait.
var (
	progSeq atomic.Int64
	curHist atomic.Pointer[hist]
	curOp   atomic.Pointer[pmap.Op]
)

func (h *hist) apply(op pmap.Op) pmap.Result {
	curHist.Store(h)
	curOp.Store(&op)
	progSeq.Add(1)
	return pmap.Apply(h.in, op)
}

// hungTypes: a type one of whose calls ran into a proven endless chain walk (or stalled
// without proof). The goroutine of that call spins for ever; the remaining histories of the
// type are skipped in this process (each would cost another watchdog period and another
// spinning goroutine).
var hungTypes = map[string]bool{}

// guardCase runs one case in its own goroutine under the progress watchdog.
func guardCase(c *vlib.Ctx, section, caseID string, fn func()) {
	curHist.Store(nil)
	var cycle *pmap.Cycle
	probe := func(rep pmap.StallReport) bool {
		// the call is running (not parked) inside golib and has not come back for a whole
		// watchdog period: look at the chains it is walking. A cyclic chain seen at two looks
		// is the proof that the walk cannot end; the elapsed time only decided WHEN to look.
		h := curHist.Load()
		if h == nil || rep.RunningInGolib() == "" {
			return false
		}
		if pmap.FindCycle(h.in) == nil {
			return false
		}
		time.Sleep(20 * time.Millisecond)
		cycle = pmap.FindCycle(h.in)
		return cycle != nil
	}
	out := pmap.GuardProgressProbe(guardTimeout, 30, progSeq.Load, func() {
		defer func() {
			if e := recover(); e != nil {
				c.Fail(section+":panic", fmt.Sprintf("unexpected panic in case %s: %v", caseID, e),
					map[string]interface{}{"panic": fmt.Sprint(e), "stack": string(debug.Stack())})
			}
		}()
		fn()
	}, probe)
	if !out.TimedOut {
		return
	}
	h := curHist.Load()
	chain := pmap.DeadlockChain(out.Stack)
	if out.Proven && h != nil && len(chain) > 0 {
		// the case goroutine spins for ever; its history object is no longer written
		outer := chain[len(chain)-1] // "IntIntMap.Put"
		hungTypes[h.d.Name] = true
		runtime.GOMAXPROCS(runtime.GOMAXPROCS(0) + 1) // the spinner keeps one P busy from now on
		h.dead, h.in.Dead = true, true
		op := curOp.Load()
		h.trace = append(h.trace, op.String()+" -> never returns")
		c.Count("histories_abandoned_after_endless_chain_walk", 1)
		h.noWalk = true // the table is being rewritten by the spinning call: do not walk it for the replay detail
		h.fail(outer[strings.Index(outer, ".")+1:], "never-returns",
			fmt.Sprintf("%s.%s never returns on a private instance used by one goroutine: the call is executing %s and %s — a chain walk over it cannot end",
				h.d.Name, op, chain[0], cycle),
			map[string]interface{}{"running_goroutine": out.Stack, "call_chain": strings.Join(chain, "<-"), "cyclic_chain": cycle})
		return
	}
	if !out.ParkedInOwnLock || len(chain) == 0 || h == nil {
		if h != nil {
			hungTypes[h.d.Name] = true
			runtime.GOMAXPROCS(runtime.GOMAXPROCS(0) + 1)
		}
		c.Inconclusive(caseID, fmt.Sprintf("no progress for %d x %s and the goroutine dump does not show the case parked on the structure's own mutex, nor does the private table hold a cyclic chain", 30, guardTimeout))
		return
	}
	// the case goroutine is parked for ever; its history object is no longer written
	outer := chain[len(chain)-1] // "IntKeyMap.KeyArray"
	deadlocked[outer] = true
	h.dead, h.in.Dead = true, true
	op := curOp.Load()
	h.trace = append(h.trace, op.String()+" -> never returns")
	c.Count("histories_abandoned_after_self_deadlock", 1)
	h.fail(outer[strings.Index(outer, ".")+1:], "self-deadlock",
		fmt.Sprintf("%s.%s never returns on a private instance used by one goroutine: parked in sync.(*Mutex).Lock re-locking its own mutex (%s)", h.d.Name, op, strings.Join(chain, "<-")),
		map[string]interface{}{"parked_goroutine": out.Stack, "lock_chain": strings.Join(chain, "<-")})
}

var isEnumOp = map[string]bool{"Keys": true, "Values": true, "Entries": true}
var readOps = map[string]bool{"Get": true, "ContainsKey": true, "Contains": true, "HasKey": true}

// probeRead performs one non-modifying look-up on the history's instance (called between two
// elements of an enumeration in progress) and compares it with the model.
func (h *hist) probeRead() {
	var names []string
	for _, n := range h.d.PointOps {
		if readOps[n] {
			names = append(names, n)
		}
	}
	if len(names) == 0 {
		return
	}
	op := h.genOp(names[h.r.Intn(len(names))], 0)
	if !h.d.StringKey && len(h.known) > 0 && h.r.Intn(2) == 0 {
		op.K = h.pickKnownInt()
	} else if h.d.StringKey && len(h.sknown) > 0 && h.r.Intn(2) == 0 {
		op = pmap.StrOp(op.Name, h.sknown[h.r.Intn(len(h.sknown))])
	}
	want := h.m.Step(op)
	got := pmap.Apply(h.in, op)
	if len(h.trace) < 6000 {
		h.trace = append(h.trace, "    between two elements of the next enumeration: "+op.String()+" -> "+got.String())
	}
	h.c.Count("reads_during_enumeration", 1)
	if !pmap.Match(want, got, h.in.None) {
		h.fail(methodName(op), "wrong-return/during-enumeration", fmt.Sprintf("%s.%s called during an enumeration returned %s, the model says %s", h.d.Name, op, got, want),
			map[string]interface{}{"expected": want.String(), "actual": got.String()})
	}
}

var mutating = map[string]bool{
	"Put": true, "Add": true, "AddIfExist": true, "Remove": true, "Clear": true, "PutAll": true,
	"Sort": true, "ToObject": true, "Unipoint": true, "SetMax": true,
}
var bulk = map[string]bool{"Clear": true, "PutAll": true, "Sort": true, "ToObject": true}

type hist struct {
	c        *vlib.Ctx
	d        *pmap.Descriptor
	in       *pmap.Inst
	m        *pmap.Model
	r        *vlib.Rand
	caseID   string
	ctor     string
	trace    []string
	nops     int
	lastMut  string
	tableLen int
	rehashes int
	dead     bool
	noWalk   bool
	hash     uint64
	// kindOverride / methodOverride: failures of a ToObject target are all reported as
	// IntIntMap.ToObject:serialization
	kindOverride   string
	methodOverride string
	parent         *hist

	ipool  []int32
	spool  []string
	tw     twinSet // equal-hash key groups mixed into the pool (twins.go)
	known  []int32 // int keys that were inserted at some point
	sknown []string
	vals   []int32 // recently stored values
}

func (h *hist) detail(extra map[string]interface{}) map[string]interface{} {
	tr := h.trace
	note := ""
	if len(tr) > 400 {
		note = fmt.Sprintf("%d operations; the last 400 are listed, the whole case is regenerated from the seed with -only %s", len(tr), h.caseID)
		tr = tr[len(tr)-400:]
	}
	d := map[string]interface{}{
		"type": h.d.Name, "constructor": h.ctor, "NONE": h.in.None, "operations": tr, "model_after": h.m.Describe(),
	}
	if note != "" {
		d["note"] = note
	}
	if !walkerBroken && !h.noWalk {
		if rep := pmap.Walk(h.in); rep.Err == nil {
			missing, extra := pmap.DiffTokens(h.m.EntryTokens(), walkTokens(h.d, rep))
			d["private_table"] = map[string]interface{}{"buckets": rep.TableLen, "count": rep.Count, "entries_chained": len(rep.Entries),
				"in_model_not_in_table": missing, "in_table_not_in_model": extra, "problems": rep.Problems}
		}
	}
	if h.parent != nil {
		d["source_map"] = h.parent.detail(nil)
	}
	for k, v := range extra {
		d[k] = v
	}
	return d
}

// walkTokens renders the chained entries like Model.EntryTokens.
func walkTokens(d *pmap.Descriptor, rep *pmap.WalkReport) []string {
	toks := make([]string, 0, len(rep.Entries))
	for _, e := range rep.Entries {
		switch {
		case d.StringKey:
			toks = append(toks, strconv.Quote(e.S))
		case d.IsSet:
			toks = append(toks, strconv.Itoa(int(e.K)))
		case e.VNil:
			toks = append(toks, strconv.Itoa(int(e.K))+"=nil")
		default:
			toks = append(toks, strconv.Itoa(int(e.K))+"="+strconv.Itoa(int(e.V)))
		}
	}
	return toks
}

func (h *hist) key(method, kind string) string {
	if h.kindOverride != "" {
		return h.d.Name + "." + h.methodOverride + ":" + h.kindOverride
	}
	return h.d.Name + "." + method + ":" + kind
}

// reported: the replay detail (operation list, model) is only built for the first failure
// of a key in this process; vlib keeps only the first anyway.
var reported = map[string]bool{}

func (h *hist) fail(method, kind, what string, extra map[string]interface{}) {
	h.failKey(h.key(method, kind), what, extra)
}

func (h *hist) failKey(key, what string, extra map[string]interface{}) {
	if reported[key] {
		h.c.Fail(key, what, nil)
		return
	}
	reported[key] = true
	h.c.Fail(key, what, h.detail(extra))
}

func methodName(op pmap.Op) string {
	if op.Str && op.S == "" && op.Name != "Keys" && op.Name != "Clear" && op.Name != "Size" {
		return op.Name + "[empty-key]"
	}
	return op.Name
}

func (h *hist) record(op pmap.Op, got pmap.Result) {
	h.nops++
	h.hash = vlib.Mix(h.hash ^ vlib.HashStr(op.String()))
	if len(h.trace) >= 6000 {
		// long (size-class) histories: keep the most recent operations for the replay detail
		h.trace = append(h.trace[:0], h.trace[3000:]...)
	}
	h.trace = append(h.trace, op.String()+" -> "+got.String())
}

// step performs one operation of the history on the model and on the real structure.
func (h *hist) step(op pmap.Op) {
	if h.dead {
		return
	}
	mkey := h.d.Name + "." + op.Name
	if deadlocked[mkey] {
		h.c.Count("ops_skipped_after_self_deadlock", 1)
		return
	}
	twin, partner := false, false
	self := false
	if singleKeyOps[op.Name] {
		if !h.tw.empty() {
			twin, partner = h.partnerLive(op)
		}
		self = h.selfLive(op)
	}
	want := h.m.Step(op)
	probing := false
	if isEnumOp[op.Name] && h.m.Size() >= 2 && h.r.Intn(3) == 0 {
		// an enumeration "taken while the structure is not being modified": look-ups on the same
		// instance between two elements are not modifications and must not disturb it
		probing = true
		budget := 2 * h.m.Size()
		if budget > 256 {
			budget = 256
		}
		pmap.BetweenNext = func() {
			if budget > 0 {
				budget--
				h.probeRead()
			}
		}
	}
	got := h.apply(op)
	pmap.BetweenNext = nil
	h.record(op, got)
	h.c.Count("ops", 1)
	h.c.SetAdd("ops_covered", mkey)
	method := methodName(op)
	emptyKey := method != op.Name
	if mutating[op.Name] {
		h.lastMut = method
	}
	switch {
	case got.Kind == pmap.RPanic:
		h.c.Count("panics_observed", 1)
		h.fail(method, "panic", fmt.Sprintf("%s.%s panics: %s", h.d.Name, op, got.S), map[string]interface{}{"expected": want.String()})
		if mutating[op.Name] {
			h.dead = true // state unknown after a panic inside a mutator
			return
		}
	case !pmap.Match(want, got, h.in.None):
		kind := "wrong-return"
		if want.Kind == pmap.RMultiset {
			kind = "enumeration-multiset"
			if probing {
				kind = "enumeration-multiset/interleaved-reads"
			}
		}
		h.fail(method, kind, fmt.Sprintf("%s.%s returned %s, the model says %s", h.d.Name, op, got, want),
			map[string]interface{}{"expected": want.String(), "actual": got.String()})
		if mutating[op.Name] && !emptyKey {
			h.dead = true
			return
		}
	default:
		if probing {
			h.c.Count("enumerations_with_interleaved_reads", 1)
		}
		if want.Kind == pmap.RMultiset {
			h.c.Count("enumerations_compared", 1)
			h.c.Count("elements_enumerated", int64(got.N))
		}
		if got.Kind == pmap.RBytes {
			h.checkSerialized([]byte(got.S))
		}
	}
	// Size() after every operation
	if real, mod := h.in.Size(), h.m.Size(); real != mod {
		h.fail(method, "wrong-size", fmt.Sprintf("after %s.%s Size()=%d, the model holds %d", h.d.Name, op, real, mod),
			map[string]interface{}{"size": real, "model_size": mod})
		if emptyKey && real == mod-1 {
			// the structure refused the empty key: continue the history without it
			delete(h.m.SS, "")
		} else {
			h.dead = true
			return
		}
	}
	h.c.Count("size_checks", 1)
	h.twinCoverage(op, twin, partner, self)
	if !mutating[op.Name] {
		return
	}
	tl := pmap.TableLen(h.in)
	grew := tl != h.tableLen
	if grew {
		if h.tableLen > 0 {
			h.rehashes++
			h.c.Count("rehashes_crossed", 1)
			if singleKeyOps[op.Name] && tl > h.tableLen {
				h.growthCoverage(op, h.tableLen, !self)
			}
			if h.liveTwinGroups() > 0 {
				h.c.Count("rehashes_with_equal_hash_pair_stored", 1)
			}
		}
		h.tableLen = tl
		h.c.Max("max_table_len", int64(tl))
	}
	// the draw is always made so that the stream does not depend on the state
	lucky := h.r.Intn(24+h.m.Size()/8) == 0
	if grew || bulk[op.Name] || h.m.Size() <= 12 || lucky {
		h.fullCheck()
	}
}

// fullCheck compares the whole structure with the model (see the package comment).
func (h *hist) fullCheck() {
	if h.dead {
		return
	}
	type failure struct {
		method, kind, what string
		extra              map[string]interface{}
		fatal              bool
	}
	var fails []failure
	body := func() {
		add := func(f failure) { fails = append(fails, f) }
		// 1. private structure
		if !walkerBroken {
			rep := pmap.Walk(h.in)
			if rep.Err != nil {
				walkerBroken = true
				h.c.Inconclusive(h.caseID, "structure walker cannot read this build: "+rep.Err.Error())
			} else {
				h.c.Count("walker_runs", 1)
				h.c.Count("walker_entries", int64(len(rep.Entries)))
				h.c.Max("max_chain", int64(rep.MaxChain))
				toks := walkTokens(h.d, rep)
				for _, p := range rep.Problems {
					if p.Kind == pmap.PMisplaced {
						// confirm through the public lookup: an entry outside the bucket its key
						// selects cannot be found
						var look pmap.Op
						switch h.d.Name {
						case pmap.TIntIntMap, pmap.TIntKeyMap:
							look = pmap.Op{Name: "ContainsKey", K: p.K}
						case pmap.TIntSet:
							look = pmap.Op{Name: "Contains", K: p.K}
						default:
							look = pmap.StrOp("Contains", p.S)
						}
						if g := h.apply(look); g.Kind == pmap.RBool && g.B {
							h.c.Note("walker: " + p.Detail + " but the public lookup finds it (index computation differs from the one read at pin time)")
							continue
						}
					}
					add(failure{h.lastMut, "structure-corrupt", fmt.Sprintf("%s after %s: %s", h.d.Name, h.lastMut, p.Detail),
						map[string]interface{}{"problems": rep.Problems, "table_len": rep.TableLen, "count": rep.Count}, true})
					return
				}
				if got, want := pmap.Canon(toks), h.m.Step(pmap.Op{Name: entriesOp(h.d.Name)}); got != want {
					add(failure{h.lastMut, "structure-corrupt", fmt.Sprintf("%s after %s: the chained entries differ from the model (%d stored, %d expected)", h.d.Name, h.lastMut, got.N, want.N),
						map[string]interface{}{"stored": got.String(), "expected": want.String()}, true})
					return
				}
			}
		}
		// 2. public enumerations and whole-structure reads
		for _, name := range enumOps(h.d.Name) {
			if deadlocked[h.d.Name+"."+name] {
				continue
			}
			op := pmap.Op{Name: name}
			want := h.m.Step(op)
			got := h.apply(op)
			if got.Kind == pmap.RPanic {
				add(failure{name, "panic", fmt.Sprintf("%s.%s panics: %s", h.d.Name, op, got.S), nil, false})
			} else if !pmap.Match(want, got, h.in.None) {
				kind := "wrong-return"
				if want.Kind == pmap.RMultiset {
					kind = "enumeration-multiset"
				}
				add(failure{name, kind, fmt.Sprintf("%s.%s gives %s, the model says %s", h.d.Name, op, got, want),
					map[string]interface{}{"expected": want.String(), "actual": got.String()}, false})
			} else if want.Kind == pmap.RMultiset {
				h.c.Count("enumerations_compared", 1)
				h.c.Count("elements_enumerated", int64(got.N))
			}
		}
		// 3. look up stored keys and absent probes
		var probes []pmap.Op
		if h.d.StringKey {
			ks := h.m.SortedStrKeys()
			stride := len(ks)/96 + 1
			for i := h.nops % stride; i < len(ks); i += stride {
				probes = append(probes, pmap.StrOp("Contains", ks[i]), pmap.StrOp("HasKey", ks[i]))
			}
			for _, s := range []string{"", "absent-probe", "a"} {
				probes = append(probes, pmap.StrOp("Contains", s))
			}
			if len(ks) > 0 {
				probes = append(probes, pmap.StrOp("Contains", ks[0]+"\x00"), pmap.StrOp("Contains", ks[len(ks)-1]+"x"))
			}
		} else {
			ks := h.m.SortedIntKeys()
			stride := len(ks)/96 + 1
			var lookups []string
			switch h.d.Name {
			case pmap.TIntSet:
				lookups = []string{"Contains"}
			default:
				lookups = []string{"Get", "ContainsKey"}
			}
			for i := h.nops % stride; i < len(ks); i += stride {
				for _, l := range lookups {
					probes = append(probes, pmap.Op{Name: l, K: ks[i]})
				}
			}
			abs := []int32{0, -1, 1, math.MinInt32, math.MaxInt32, 101, 203, -101}
			for i := 0; i < len(ks) && i < 8; i++ {
				abs = append(abs, ks[i]+1, ks[i]+int32(h.tableLen), ks[i]-int32(h.tableLen))
			}
			for _, k := range abs {
				for _, l := range lookups {
					probes = append(probes, pmap.Op{Name: l, K: k})
				}
			}
		}
		// every member of an equal-hash group, stored or not
		for _, s := range h.tw.smem {
			probes = append(probes, pmap.StrOp("Contains", s), pmap.StrOp("HasKey", s))
		}
		for _, k := range h.tw.imem {
			probes = append(probes, pmap.Op{Name: "Get", K: k}, pmap.Op{Name: "ContainsKey", K: k})
		}
		if n := h.liveTwinGroups(); n > 0 {
			h.c.Count("full_checks_with_equal_hash_pair_stored", 1)
			h.c.Count("full_checks_with_equal_hash_pair_stored_"+h.d.Name, 1)
		}
		for _, op := range probes {
			want := h.m.Step(op)
			got := h.apply(op)
			h.c.Count("lookups", 1)
			if !pmap.Match(want, got, h.in.None) {
				kind := "wrong-return"
				if got.Kind == pmap.RPanic {
					kind = "panic"
				}
				add(failure{methodName(op), kind, fmt.Sprintf("%s.%s returned %s, the model says %s", h.d.Name, op, got, want),
					map[string]interface{}{"expected": want.String(), "actual": got.String()}, false})
				return
			}
		}
	}
	body()
	h.c.Count("full_checks", 1)
	for _, f := range fails {
		h.fail(f.method, f.kind, f.what, f.extra)
		if f.fatal {
			h.dead = true
		}
	}
}

func entriesOp(typ string) string {
	switch typ {
	case pmap.TIntSet:
		return "Values"
	case pmap.TStringSet:
		return "Keys"
	}
	return "Entries"
}

func enumOps(typ string) []string {
	switch typ {
	case pmap.TIntIntMap:
		return []string{"Size", "IsEmpty", "Keys", "Values", "Entries"}
	case pmap.TIntKeyMap:
		return []string{"Size", "Keys", "Values", "Entries"}
	case pmap.TIntSet:
		return []string{"Size", "Values"}
	}
	return []string{"Size", "Keys"}
}

// checkSerialized: the bytes of IntIntMap.ToBytes against the reference layout and the model,
// then ToObject into a fresh and into a populated map.
func (h *hist) checkSerialized(b []byte) {
	c := h.c
	c.Count("serializations", 1)
	c.Count("serialized_bytes", int64(len(b)))
	pairs, err := refDecodeIntIntMap(b)
	if err != nil {
		h.failKey("IntIntMap.ToBytes:serialization", "serialized map does not parse as decimal(count){decimal(key)decimal(value)}: "+err.Error(),
			map[string]interface{}{"bytes": vlib.Hex(b)})
		return
	}
	var toks []string
	ks := make([]int32, len(pairs))
	vs := make([]int32, len(pairs))
	for i, p := range pairs {
		if p.K < math.MinInt32 || p.K > math.MaxInt32 || p.V < math.MinInt32 || p.V > math.MaxInt32 {
			h.failKey("IntIntMap.ToBytes:serialization", fmt.Sprintf("entry %d (%d=%d) is outside the 32-bit range", i, p.K, p.V), map[string]interface{}{"bytes": vlib.Hex(b)})
			return
		}
		ks[i], vs[i] = int32(p.K), int32(p.V)
		toks = append(toks, strconv.FormatInt(p.K, 10)+"="+strconv.FormatInt(p.V, 10))
	}
	want := h.m.Step(pmap.Op{Name: "Entries"})
	if got := pmap.Canon(toks); got != want {
		h.failKey("IntIntMap.ToBytes:serialization", fmt.Sprintf("serialized form holds %d entries that are not the map's %d entries", got.N, want.N),
			map[string]interface{}{"bytes": vlib.Hex(b), "decoded": got.String(), "expected": want.String()})
		return
	}
	if ref := refEncodeIntIntMap(pairs); string(ref) != string(b) {
		h.failKey("IntIntMap.ToBytes:serialization", "bytes differ from the reference encoding of the same entries in the same order (a decimal is not in its shortest class)",
			map[string]interface{}{"bytes": vlib.Hex(b), "reference": vlib.Hex(ref)})
		return
	}
	// read back: into a fresh map of another shape, and into a map that already holds entries
	for variant := 0; variant < 2; variant++ {
		capacity, lf := 0, float32(0)
		if v := h.r.Intn(21); v < 20 {
			capacity, lf = pmap.StdCaps[v%5], pmap.StdLFs[v/5]
		}
		t := &hist{c: c, d: h.d, r: h.r, caseID: h.caseID, parent: h, kindOverride: "serialization", methodOverride: "ToObject",
			ctor: fmt.Sprintf("ToObject target (%d,%v)", capacity, lf), lastMut: "ToObject"}
		t.in = h.d.New(capacity, lf)
		t.m = pmap.NewModel(h.d.Name, 0)
		t.tableLen = pmap.TableLen(t.in)
		if variant == 1 {
			n := h.r.Range(1, 20)
			for i := 0; i < n && !t.dead; i++ {
				k := h.pickInt()
				if h.r.Intn(3) == 0 && len(ks) > 0 {
					k = ks[h.r.Intn(len(ks))] // overlap with the incoming entries
				}
				t.step(pmap.Op{Name: "Put", K: k, V: h.pickVal()})
			}
		}
		t.step(pmap.Op{Name: "ToObject", Bytes: b, KS: ks, VS: vs})
		t.fullCheck()
		if !t.dead {
			c.Count("serialization_round_trips", 1)
			c.Count("round_trip_entries", int64(len(pairs)))
		}
	}
}

// ---- generation ----------------------------------------------------------------------

var intSpecials = []int32{0, -1, 1, math.MinInt32, math.MaxInt32, math.MinInt32 + 1, math.MaxInt32 - 1, 101, -101, 203, 100, 102}

// makeIntPool builds the key pool: specials, keys colliding modulo the current and the next
// table sizes (found by search for the bit-mixed index), a dense run and random keys.
func makeIntPool(r *vlib.Rand, typ string, capacity, size int, tw *twinSet) []int32 {
	if capacity == pmap.ZeroCap {
		capacity = 1 // what the constructor makes of 0
	}
	if capacity == 0 {
		capacity = 101
	}
	pool := make([]int32, 0, size)
	seen := map[int32]bool{}
	add := func(k int32) {
		if !seen[k] && len(pool) < size {
			seen[k] = true
			pool = append(pool, k)
		}
	}
	nSpecial := r.Range(0, minInt(len(intSpecials), size/2+1))
	for _, i := range permN(r, len(intSpecials))[:nSpecial] {
		add(intSpecials[i])
	}
	// equal-hash pairs (IntKeyMap: the only int-keyed type here whose hash is not injective)
	if typ == pmap.TIntKeyMap {
		for _, g := range intTwinGroups(r, twinGroupCount(r, size)) {
			if len(pool)+len(g) > size && len(pool) > 0 {
				pool = pool[:maxInt(0, size-len(g))] // small pools: the pair replaces specials
				seen = map[int32]bool{}
				for _, k := range pool {
					seen[k] = true
				}
			}
			if !seen[g[0]] && !seen[g[1]] {
				add(g[0])
				add(g[1])
				tw.addInt(g)
			}
		}
	}
	// colliding keys
	nColl := size / 3
	if size <= 8 {
		nColl = size / 2
	}
	// half of them: groups of 2..5 congruent modulo the capacities of the successive tables
	if size >= 6 {
		nLevel := nColl / 2
		if nLevel > 160 {
			nLevel = 160
		}
		for _, g := range levelGroups(r, typ, capacity, nLevel) {
			for _, k := range g {
				add(k)
			}
		}
		nColl -= nLevel
	}
	l1, l2, l3 := capacity, 2*capacity+1, 4*capacity+3
	if typ == pmap.TIntKeyMap {
		moduli := [][]int{{l1}, {l1, l2}, {l2}, {l1, l2, l3}}[r.Intn(4)]
		if capacity > 7 && len(moduli) == 3 {
			moduli = moduli[:2]
		}
		base := r.I32()
		targets := make([]int, len(moduli))
		for i, n := range moduli {
			targets[i] = pmap.IndexIntMixed(base, n)
		}
		k := base
		for tries := 0; tries < 150000 && nColl > 0; tries++ {
			ok := true
			for i, n := range moduli {
				if pmap.IndexIntMixed(k, n) != targets[i] {
					ok = false
					break
				}
			}
			if ok && !seen[k] {
				add(k)
				nColl--
			}
			k += int32(r.Range(1, 3))
		}
	} else {
		strides := []int64{int64(l1), int64(l2), int64(l1) * int64(l2), int64(l1) * int64(l2) * int64(l3)}
		st := strides[r.Intn(len(strides))]
		if st > 1<<24 {
			st = int64(l1) * int64(l2)
		}
		base := int64(r.I32())
		for j := 0; j < nColl; j++ {
			v := base + int64(j)*st
			if r.Bool() {
				v = base - int64(j)*st
			}
			if v < math.MinInt32 || v > math.MaxInt32 {
				v = int64(int32(v)) // wraps: still a legitimate key
			}
			add(int32(v))
		}
	}
	// dense run
	nDense := (size - len(pool)) / 2
	start := int32(r.Range(-50, 50))
	if r.Intn(4) == 0 {
		start = math.MaxInt32 - int32(nDense/2) // run across the wrap-around of int32
	}
	for j := 0; j < nDense; j++ {
		add(start + int32(j))
	}
	for len(pool) < size {
		add(r.I32())
	}
	return pool
}

func makeStrPool(r *vlib.Rand, size int, tw *twinSet) []string {
	pool := make([]string, 0, size)
	seen := map[string]bool{}
	add := func(s string) {
		if !seen[s] && len(pool) < size {
			seen[s] = true
			pool = append(pool, s)
		}
	}
	if r.Intn(3) != 0 {
		add("")
	}
	// equal-hash groups: distinct strings with one hash.HashStr value
	for _, g := range strTwinGroups(r, twinGroupCount(r, size)) {
		if len(pool)+len(g) > size {
			g = g[:maxInt(2, size-len(pool))]
			if len(pool)+len(g) > size {
				pool = pool[:0] // a pool of 2: just the pair
				seen = map[string]bool{}
			}
		}
		for _, s := range g {
			add(s)
		}
		tw.addStr(g)
	}
	for _, s := range []string{"a", "b", "0", " ", "한국어", "\xff\xfe", "a\x00b", "k1"} {
		if r.Bool() {
			add(s)
		}
	}
	// strings colliding modulo 101 (and some modulo 101 and 203)
	nColl := size / 3
	t1, t2 := r.Intn(101), r.Intn(203)
	both := r.Intn(3) == 0
	n := r.Intn(1 << 20)
	for tries := 0; tries < 120000 && nColl > 0; tries++ {
		s := "c" + strconv.Itoa(n)
		n++
		if pmap.IndexStr(s, 101) == t1 && (!both || pmap.IndexStr(s, 203) == t2) {
			add(s)
			nColl--
		}
	}
	for j := 0; len(pool) < size && j < size/3; j++ {
		add("key-" + strconv.Itoa(j))
	}
	for len(pool) < size {
		add(r.Str(300) + strconv.Itoa(r.Intn(1000)))
	}
	return pool
}

func permN(r *vlib.Rand, n int) []int {
	p := make([]int, n)
	for i := range p {
		p[i] = i
	}
	r.Shuffle(n, func(i, j int) { p[i], p[j] = p[j], p[i] })
	return p
}

// twinGroupCount: how many equal-hash groups a pool of this size gets.
func twinGroupCount(r *vlib.Rand, size int) int {
	switch {
	case size <= 6:
		return 1
	case size <= 24:
		return r.Range(1, 3)
	case size <= 150:
		return r.Range(2, 8)
	}
	return r.Range(6, 24)
}

func maxInt(a, b int) int {
	if a > b {
		return a
	}
	return b
}

func minInt(a, b int) int {
	if a < b {
		return a
	}
	return b
}

func (h *hist) pickInt() int32 {
	r := h.r
	switch x := r.Intn(100); {
	case x < 80 || len(h.ipool) == 0:
		if len(h.ipool) == 0 {
			return r.I32()
		}
		return h.ipool[r.Intn(len(h.ipool))]
	case x < 90 && len(h.known) > 0:
		return h.known[r.Intn(len(h.known))]
	case x < 94:
		return intSpecials[r.Intn(len(intSpecials))]
	}
	return r.I32()
}

func (h *hist) pickIntFor(name string) int32 {
	if len(h.tw.imem) > 0 && h.twinTurn() {
		return h.pickTwinInt(name)
	}
	return h.pickInt()
}

func (h *hist) pickStrFor(name string) string {
	if len(h.tw.smem) > 0 && h.twinTurn() {
		return h.pickTwinStr(name)
	}
	return h.pickStr()
}

func (h *hist) pickKnownInt() int32 {
	if len(h.known) > 0 && h.r.Intn(10) < 8 {
		return h.known[h.r.Intn(len(h.known))]
	}
	return h.pickInt()
}

func (h *hist) pickStr() string {
	r := h.r
	switch x := r.Intn(100); {
	case x < 82:
		return h.spool[r.Intn(len(h.spool))]
	case x < 90 && len(h.sknown) > 0:
		return h.sknown[r.Intn(len(h.sknown))]
	case x < 93:
		return ""
	}
	return r.Str(64)
}

func (h *hist) pickVal() int32 {
	r := h.r
	var v int32
	switch x := r.Intn(100); {
	case x < 55:
		v = int32(r.Intn(24)) - 6
	case x < 70 && len(h.vals) > 0:
		v = h.vals[r.Intn(len(h.vals))]
	case x < 80:
		v = []int32{math.MaxInt32, math.MinInt32, math.MaxInt32 - 1, math.MinInt32 + 1, 127, 128, -128, -129, 32767, 32768, -32768, -32769, 8388607, 8388608, -8388608, -8388609}[r.Intn(16)]
	default:
		v = r.I32()
	}
	return v
}

func (h *hist) remember(v int32) {
	if len(h.vals) < 32 {
		h.vals = append(h.vals, v)
	} else {
		h.vals[h.r.Intn(32)] = v
	}
}

type wop struct {
	name string
	w    int
}

const (
	phChurn = iota
	phGrow
	phDrain
)

func weights(typ string, phase int) []wop {
	switch typ {
	case pmap.TIntIntMap:
		switch phase {
		case phGrow:
			return []wop{{"Put", 100}, {"Add", 40}, {"AddIfExist", 6}, {"Get", 12}, {"ContainsKey", 6}, {"ContainsValue", 2}, {"Remove", 8}, {"Size", 1}, {"IsEmpty", 1},
				{"Keys", 1}, {"Values", 1}, {"Entries", 1}, {"KeyArray", 1}, {"ValueArray", 1}, {"ToString", 1}, {"Sort", 1}, {"ToBytes", 1}, {"IsFull", 1}}
		case phDrain:
			return []wop{{"Remove", 120}, {"Get", 14}, {"ContainsKey", 8}, {"Put", 8}, {"Add", 4}, {"AddIfExist", 4}, {"ContainsValue", 2}, {"IsEmpty", 3},
				{"Keys", 1}, {"Values", 1}, {"Entries", 1}, {"KeyArray", 1}, {"ValueArray", 1}, {"ToBytes", 1}, {"Sort", 1}}
		}
		return []wop{{"Put", 40}, {"Add", 18}, {"AddIfExist", 12}, {"Get", 24}, {"ContainsKey", 14}, {"ContainsValue", 4}, {"Remove", 32}, {"Clear", 1}, {"Size", 2},
			{"IsEmpty", 4}, {"IsFull", 2}, {"SetMax", 2}, {"Keys", 4}, {"Values", 4}, {"Entries", 4}, {"KeyArray", 4}, {"ValueArray", 4}, {"ToString", 2}, {"Sort", 2}, {"ToBytes", 4}}
	case pmap.TIntKeyMap:
		switch phase {
		case phGrow:
			return []wop{{"Put", 140}, {"Get", 14}, {"ContainsKey", 8}, {"ContainsValue", 2}, {"Remove", 8}, {"Size", 1}, {"Keys", 1}, {"Values", 1}, {"Entries", 1},
				{"KeyArray", 1}, {"ToString", 1}, {"ToFormatString", 1}, {"PutAll", 3}}
		case phDrain:
			return []wop{{"Remove", 120}, {"Get", 14}, {"ContainsKey", 10}, {"Put", 8}, {"ContainsValue", 2}, {"Keys", 1}, {"Values", 1}, {"Entries", 1}, {"KeyArray", 1}, {"PutAll", 1}}
		}
		return []wop{{"Put", 60}, {"Get", 28}, {"ContainsKey", 16}, {"ContainsValue", 5}, {"Remove", 34}, {"Clear", 1}, {"Size", 2}, {"Keys", 4}, {"Values", 4}, {"Entries", 4},
			{"KeyArray", 4}, {"ToString", 2}, {"ToFormatString", 2}, {"PutAll", 5}}
	case pmap.TIntSet:
		switch phase {
		case phGrow:
			return []wop{{"Put", 130}, {"PutAll", 6}, {"Contains", 16}, {"Remove", 8}, {"Size", 1}, {"Values", 2}, {"ToString", 1}}
		case phDrain:
			return []wop{{"Remove", 120}, {"Contains", 20}, {"Put", 8}, {"Values", 2}, {"ToString", 1}, {"PutAll", 1}}
		}
		return []wop{{"Put", 60}, {"PutAll", 5}, {"Contains", 36}, {"Remove", 40}, {"Clear", 1}, {"Size", 2}, {"Values", 8}, {"ToString", 3}}
	}
	switch phase {
	case phGrow:
		return []wop{{"Put", 90}, {"Unipoint", 40}, {"Contains", 12}, {"HasKey", 4}, {"Remove", 8}, {"Size", 1}, {"Keys", 2}}
	case phDrain:
		return []wop{{"Remove", 120}, {"Contains", 16}, {"HasKey", 6}, {"Put", 6}, {"Unipoint", 3}, {"Keys", 2}}
	}
	return []wop{{"Put", 40}, {"Unipoint", 20}, {"Contains", 26}, {"HasKey", 10}, {"Remove", 40}, {"Clear", 1}, {"Size", 2}, {"Keys", 8}}
}

func pickOp(r *vlib.Rand, ws []wop) string {
	t := 0
	for _, w := range ws {
		t += w.w
	}
	x := r.Intn(t)
	for _, w := range ws {
		if x < w.w {
			return w.name
		}
		x -= w.w
	}
	return ws[0].name
}

// genOp draws the arguments of one operation.
func (h *hist) genOp(name string, phase int) pmap.Op {
	r := h.r
	if h.d.StringKey {
		switch name {
		case "Put", "Unipoint":
			s := h.pickStrFor(name)
			if len(h.sknown) < 4096 {
				h.sknown = append(h.sknown, s)
			}
			return pmap.StrOp(name, s)
		case "Contains", "HasKey":
			return pmap.StrOp(name, h.pickStrFor(name))
		case "Remove":
			if h.twinTurn() {
				return pmap.StrOp(name, h.pickTwinStr(name))
			}
			if phase == phDrain && len(h.sknown) > 0 && r.Intn(10) < 8 {
				return pmap.StrOp(name, h.sknown[r.Intn(len(h.sknown))])
			}
			return pmap.StrOp(name, h.pickStr())
		case "Keys":
			return pmap.Op{Name: name, V: int32(r.Intn(3))}
		}
		return pmap.Op{Name: name}
	}
	switch name {
	case "Put", "Add", "AddIfExist":
		op := pmap.Op{Name: name, K: h.pickIntFor(name)}
		if !h.d.IsSet {
			op.V = h.pickVal()
			h.remember(op.V)
			if h.d.Name == pmap.TIntKeyMap && r.Intn(40) == 0 {
				op.Nil, op.V = true, 0
			}
		}
		if name != "AddIfExist" && len(h.known) < 8192 {
			h.known = append(h.known, op.K)
		}
		return op
	case "Get", "ContainsKey", "Contains":
		return pmap.Op{Name: name, K: h.pickIntFor(name)}
	case "Remove":
		if len(h.tw.imem) > 0 && h.twinTurn() {
			return pmap.Op{Name: name, K: h.pickTwinInt(name)}
		}
		if phase == phDrain {
			return pmap.Op{Name: name, K: h.pickKnownInt()}
		}
		return pmap.Op{Name: name, K: h.pickInt()}
	case "ContainsValue":
		return pmap.Op{Name: name, V: h.pickVal()}
	case "Keys", "Values", "Entries":
		return pmap.Op{Name: name, V: int32(r.Intn(3))}
	case "Sort":
		return pmap.Op{Name: name, V: int32(r.Intn(2))}
	case "SetMax":
		return pmap.Op{Name: name, V: int32(r.Range(0, 40))}
	case "PutAll":
		op := pmap.Op{Name: name}
		switch x := r.Intn(20); {
		case x == 0:
			op.Nil = true
		case x == 1 && h.d.Name == pmap.TIntKeyMap:
			op.Self = true
		default:
			n := r.Range(0, 40)
			if r.Intn(6) == 0 {
				n = r.Range(100, 300) // enough to force growth inside the bulk call
			}
			for i := 0; i < n; i++ {
				k := h.pickInt()
				op.KS = append(op.KS, k)
				if len(h.known) < 8192 {
					h.known = append(h.known, k)
				}
				if !h.d.IsSet {
					op.VS = append(op.VS, h.pickVal())
				}
			}
		}
		return op
	}
	return pmap.Op{Name: name}
}

var noneChoices = []int32{0, 0, 0, 0, 0, -1, math.MinInt32, 12345}

func runHistory(c *vlib.Ctx, d *pmap.Descriptor, section string, i int, r *vlib.Rand) {
	h := &hist{c: c, d: d, r: r, caseID: fmt.Sprintf("%s#%d", section, i), lastMut: "New"}
	capacity, lf := 0, float32(0)
	if d.CtorCaps != nil {
		if v := i % 21; v < 20 {
			capacity, lf = d.CtorCaps[v%5], d.CtorLFs[v/5]
		}
	}
	if d.Name == pmap.TIntKeyMap && i%23 == 22 {
		// the constructor documents capacity 0 (one bucket): growth starts from the smallest
		// table there is (added after seeded change C12r7-2: Clear re-allocated the table at the
		// capacity the constructor was GIVEN — zero)
		capacity, lf = pmap.ZeroCap, d.CtorLFs[(i/23)%len(d.CtorLFs)]
		c.Count("histories_with_constructor_capacity_0", 1)
	}
	h.in = d.New(capacity, lf)
	none := int32(0)
	if d.Name == pmap.TIntIntMap {
		none = noneChoices[r.Intn(len(noneChoices))]
		h.in.SetNone(none)
	}
	h.m = pmap.NewModel(d.Name, none)
	if capacity == 0 {
		h.ctor = "default (101, 0.75)"
	} else if capacity == pmap.ZeroCap {
		h.ctor = fmt.Sprintf("(0, %v)", lf)
	} else {
		h.ctor = fmt.Sprintf("(%d, %v)", capacity, lf)
	}
	c.SetAdd("constructors_covered", d.Name+h.ctor)
	h.tableLen = pmap.TableLen(h.in)

	// shape of the history
	profile := r.Intn(10)
	var nops, poolSize int
	switch {
	case profile < 5: // churn on a small colliding pool
		nops = r.Range(30, 400)
		poolSize = []int{3, 6, 12, 24, 64, 150}[r.Intn(6)]
	case profile < 8: // growth across several rehashes
		if capacity == 0 || capacity == 101 {
			nops = r.Range(700, 2600)
		} else {
			nops = r.Range(200, 1500)
		}
		poolSize = []int{400, 1000, 4000}[r.Intn(3)]
	default: // fill, drain, refill
		nops = r.Range(300, 1800)
		poolSize = []int{100, 400, 1000}[r.Intn(3)]
	}
	if d.StringKey {
		h.spool = makeStrPool(r, poolSize, &h.tw)
	} else {
		h.ipool = makeIntPool(r, d.Name, capacity, poolSize, &h.tw)
	}
	if !h.tw.empty() {
		c.Count("histories_with_equal_hash_groups_"+d.Name, 1)
		c.Count("equal_hash_groups_in_pools", int64(len(h.tw.sgroups)+len(h.tw.igroups)))
	}
	h.fullCheck() // the fresh structure
	for n := 0; n < nops && !h.dead; n++ {
		phase := phChurn
		switch {
		case profile >= 5 && profile < 8:
			phase = phGrow
		case profile >= 8:
			switch {
			case n < nops*2/5:
				phase = phGrow
			case n < nops*7/10:
				phase = phDrain
			default:
				phase = phGrow
			}
		}
		h.step(h.genOp(pickOp(r, weights(d.Name, phase)), phase))
	}
	completed := !h.dead
	if completed {
		h.fullCheck()
	}
	c.Count("histories", 1)
	c.Count("histories_"+d.Name, 1)
	if completed && !h.dead {
		c.Count("histories_completed_"+d.Name, 1)
	}
	if h.rehashes >= 2 {
		c.Count("histories_crossing_2_or_more_rehashes", 1)
	}
	c.Max("max_rehashes_in_one_history", int64(h.rehashes))
	c.Max("max_size_reached", int64(h.m.Size()))
	if h.nops >= 10 {
		c.Distinct(vlib.Mix(h.hash ^ vlib.HashStr(d.Name+h.ctor)))
	}
	if i < 8 && c.WantSample() {
		tr := h.trace
		if len(tr) > 25 {
			tr = tr[:25]
		}
		c.Sample(map[string]interface{}{"type": d.Name, "constructor": h.ctor, "operations_total": h.nops, "rehashes": h.rehashes,
			"final_size": h.m.Size(), "first_operations": tr})
	}
}

// serialCase: a map built from boundary-biased keys and values, serialized and read back.
func serialCase(c *vlib.Ctx, i int, r *vlib.Rand) {
	d := pmap.ByName(pmap.TIntIntMap)
	h := &hist{c: c, d: d, r: r, caseID: fmt.Sprintf("serial#%d", i), lastMut: "New"}
	capacity, lf := 0, float32(0)
	if v := i % 21; v < 20 {
		capacity, lf = d.CtorCaps[v%5], d.CtorLFs[v/5]
	}
	h.in = d.New(capacity, lf)
	h.m = pmap.NewModel(d.Name, 0)
	h.ctor = fmt.Sprintf("(%d, %v)", capacity, lf)
	h.tableLen = pmap.TableLen(h.in)
	n := []int{0, 1, 2, 5, 30, 127, 128, 300, 1000}[r.Intn(9)]
	if n >= 30 {
		n = r.Range(n/2, n)
	}
	for j := 0; j < n && !h.dead; j++ {
		name := "Put"
		if r.Intn(4) == 0 {
			name = "Add"
		}
		h.step(pmap.Op{Name: name, K: r.I32(), V: r.I32()})
	}
	if r.Bool() && n > 4 {
		for j := 0; j < n/3 && !h.dead; j++ {
			h.step(pmap.Op{Name: "Remove", K: h.pickKnownInt()})
		}
	}
	h.step(pmap.Op{Name: "ToBytes"})
	c.Count("serial_cases", 1)
	c.Distinct(vlib.Mix(h.hash ^ 0x5e71a1))
	if i < 2 && c.WantSample() {
		out := h.apply(pmap.Op{Name: "ToBytes"})
		c.Sample(map[string]interface{}{"type": "IntIntMap serialization", "entries": h.m.Size(), "bytes": vlib.Hex([]byte(out.S))})
	}
}

func main() {
	c := vlib.Start("C12")
	// One case runs at a time and 16 shards run side by side: keep the runtime from fanning
	// the collector out over every core, and collect less often (the live heap is a few MB).
	runtime.GOMAXPROCS(2)
	debug.SetGCPercent(1000)
	if p := os.Getenv("VERIF_CPUPROF"); p != "" { // development aid
		if f, err := os.Create(p); err == nil {
			pprof.StartCPUProfile(f)
			defer pprof.StopCPUProfile()
		}
	}
	// equal-hash key groups (twins.go): computed once, the same in every process
	grp := pmap.CRCGroups()
	c.Max("max_equal_hash_string_groups_available", int64(len(grp.Groups)))
	c.Max("max_equal_hash_int_differences_available", int64(len(pmap.MixedKernel())))
	if c.Shard == 0 {
		c.Note(fmt.Sprintf("equal-hash string groups: %d, from %s", len(grp.Groups), grp.Source))
		if !grp.LibraryAgrees {
			c.Note("hash.HashStr is not CRC-32 IEEE on the reference collision groups (C15 checks that equality); the groups were searched with the library's own function")
		}
		if c.WantSample() && len(grp.Groups) > 2 {
			var ex []map[string]interface{}
			for _, g := range [][]string{grp.Groups[0], grp.Groups[1], grp.Groups[len(grp.Groups)-1]} {
				q := make([]string, len(g))
				for i, s := range g {
					q[i] = strconv.Quote(s)
				}
				ex = append(ex, map[string]interface{}{"strings": q, "crc32_ieee": fmt.Sprintf("%#08x", pmap.RefHashStr(g[0])), "hash.HashStr": fmt.Sprintf("%#08x", pmap.LibHashStr(g[0]))})
			}
			c.Sample(map[string]interface{}{"equal_hash_string_groups_examples": ex})
		}
		for _, d := range pmap.MixedKernel() {
			c.Note(fmt.Sprintf("IntKeyMap: keys k and k^%#x have the same full hash (difference cancelled by the bit mix, found by elimination on the restated mix)", uint32(d)))
		}
	}
	per := c.N(3000, 60000)
	for _, d := range pmap.Types {
		d := d
		section := "hist-" + d.Name
		c.Cases(section, per, func(i int, r *vlib.Rand) {
			if hungTypes[d.Name] {
				c.Eval(-1) // a skipped case is not an evaluation
				c.Count("histories_skipped_after_hang", 1)
				return
			}
			guardCase(c, section, fmt.Sprintf("%s#%d", section, i), func() { runHistory(c, d, section, i, r) })
		})
	}
	// whole-structure operations at every table-size class (sizeclass.go)
	perSC := c.N(128, 1600)
	for _, d := range pmap.Types {
		d := d
		section := "sizeclass-" + d.Name
		c.Cases(section, perSC, func(i int, r *vlib.Rand) {
			if hungTypes[d.Name] {
				c.Eval(-1)
				c.Count("histories_skipped_after_hang", 1)
				return
			}
			guardCase(c, section, fmt.Sprintf("%s#%d", section, i), func() { runSizeClass(c, d, section, i, r) })
		})
	}
	// several live maps, PutAll between them (multi.go)
	perMulti := c.N(800, 12000)
	for _, d := range pmap.Types {
		d := d
		if d.Name != pmap.TIntKeyMap {
			continue // the only type whose bulk operation takes another map
		}
		section := "multi-" + d.Name
		c.Cases(section, perMulti, func(i int, r *vlib.Rand) {
			if hungTypes[d.Name] {
				c.Eval(-1)
				c.Count("histories_skipped_after_hang", 1)
				return
			}
			guardCase(c, section, fmt.Sprintf("%s#%d", section, i), func() { runMulti(c, d, section, i, r) })
		})
	}
	c.Cases("serial", c.N(1500, 30000), func(i int, r *vlib.Rand) {
		if hungTypes[pmap.TIntIntMap] {
			c.Eval(-1)
			c.Count("histories_skipped_after_hang", 1)
			return
		}
		guardCase(c, "serial", fmt.Sprintf("serial#%d", i), func() { serialCase(c, i, r) })
	})

	// observation floors (per shard; the driver sums them): ≤ 10 % of a healthy run
	sh := int64(c.NShards)
	c.Floor("histories", int64(per)*4/10/sh, c.Counter("histories"))
	c.Floor("ops", int64(per)*4*60/10/sh, c.Counter("ops"))
	c.Floor("rehashes_crossed", int64(per)/10/sh, c.Counter("rehashes_crossed"))
	c.Floor("enumerations_compared", int64(per)*4/sh, c.Counter("enumerations_compared"))
	c.Floor("walker_runs", int64(per)*4/sh, c.Counter("walker_runs"))
	// equal-hash groups and chains at growth
	c.Floor("equal_hash_second_member_inserted_StringSet", int64(per)*2/sh, c.Counter("equal_hash_second_member_inserted_StringSet"))
	c.Floor("equal_hash_second_member_inserted_IntKeyMap", int64(per)/sh, c.Counter("equal_hash_second_member_inserted_IntKeyMap"))
	c.Floor("equal_hash_member_removed_partner_stays", int64(per)*2/sh, c.Counter("equal_hash_member_removed_partner_stays"))
	c.Floor("equal_hash_lookup_of_absent_member_with_partner_stored", int64(per)/2/sh, c.Counter("equal_hash_lookup_of_absent_member_with_partner_stored"))
	c.Floor("full_checks_with_equal_hash_pair_stored", int64(per)*5/sh, c.Counter("full_checks_with_equal_hash_pair_stored"))
	c.Floor("rehashes_with_equal_hash_pair_stored", int64(per)/3/sh, c.Counter("rehashes_with_equal_hash_pair_stored"))
	c.Floor("growths_with_equal_hash_keys_in_old_chain", int64(per)/4/sh, c.Counter("growths_with_equal_hash_keys_in_old_chain"))
	c.Floor("growths_with_negative_key_in_old_chain", int64(per)/2/sh, c.Counter("growths_with_negative_key_in_old_chain"))
	c.Floor("growths_with_old_chain_ge2_IntIntMap", int64(per)/2/sh, c.Counter("growths_with_old_chain_ge2_IntIntMap"))
	c.Floor("growths_with_old_chain_ge2_IntKeyMap", int64(per)/5/sh, c.Counter("growths_with_old_chain_ge2_IntKeyMap"))
	c.Floor("growths_with_old_chain_ge2_IntSet", int64(per)/20/sh, c.Counter("growths_with_old_chain_ge2_IntSet"))
	c.Floor("growths_with_old_chain_ge2_StringSet", int64(per)/10/sh, c.Counter("growths_with_old_chain_ge2_StringSet"))
	c.Floor("serialization_round_trips", int64(c.N(1500, 30000))/10/sh, c.Counter("serialization_round_trips"))
	scFloors(c, perSC)
	c.Floor("multi_putall_from_live_instance", int64(perMulti)*2/sh, c.Counter("multi_putall_from_live_instance"))
	c.Floor("multi_putall_from_source_with_chain_ge2", int64(perMulti)/10/sh, c.Counter("multi_putall_from_source_with_chain_ge2"))
	c.Floor("multi_putall_with_equal_table_lengths", int64(perMulti)/10/sh, c.Counter("multi_putall_with_equal_table_lengths"))
	c.Floor("multi_mutations_checked_on_every_instance_after_putall", int64(perMulti)*4/sh, c.Counter("multi_mutations_checked_on_every_instance_after_putall"))
	c.Finish()
	fmt.Println("done")
}
