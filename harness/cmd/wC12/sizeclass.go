// Size-class histories: whole-structure operations applied AT every table-size class.
//
// A history of this section fills one instance with distinct keys up to a planned list of
// sizes — just below, at and just above every growth threshold the constructor variant
// reaches within a feasible size (default 101/0.75: 75, 152, 305, 611, 1223 and for a share
// 2447; (1000, 1): 1000, 2001; (5000, 1): 5000; small tables: every doubling from the first),
// and a last size beyond the last threshold. At each planned size ONE whole-structure
// operation of the type (Clear, Sort, PutAll, KeyArray/Keys/Values/Entries, ToString,
// ToBytes+ToObject, SetMax+IsFull, ContainsValue; scheduled by case index and stage number so
// that every operation meets every size class) is executed, followed by the full comparison
// with the model and the structural walker, a run of further point operations, and another
// full comparison. After a Clear (or a bulk insertion that overshoots) the history refills
// (or drains) to the next planned size, so a table that was emptied at one size class is
// used again across all the following ones.
package main

import (
	"fmt"
	"strconv"

	"verif/pmap"
	"verif/vlib"
)

type scCtor struct {
	capacity int
	lf       float32
}

// scCtors: constructor variant by case index (types without a capacity constructor always
// use the default one).
// scVariant rotates the eight variants over the shards (cases are dealt out by i mod nshards)
// while every variant still meets every value of i/8 (the operation schedule).
func scVariant(i int) int { return (i + i/16) % 8 }

func scCtorFor(d *pmap.Descriptor, i int) scCtor {
	if d.CtorCaps == nil {
		return scCtor{}
	}
	switch scVariant(i) {
	case 4, 5:
		return scCtor{1000, 1}
	case 6:
		return scCtor{5000, 1}
	case 7:
		return []scCtor{{7, 0.75}, {2, 0.5}, {3, 2}, {101, 1}}[(i/8)%4]
	}
	return scCtor{}
}

// scThresholds restates the growth rule read in the pinned tree: a table of n buckets with
// load factor f takes int(n*f) entries; inserting a NEW key when that many are stored first
// re-buckets into 2n+1. Only used to PLAN sizes; what is counted is the observed table length.
func scThresholds(capacity int, lf float32, maxSize int) (ths []int, tabs []int) {
	if capacity == 0 {
		capacity, lf = 101, 0.75
	}
	n := capacity
	for len(ths) < 24 {
		t := int(float32(n) * lf)
		if t > maxSize {
			break
		}
		ths = append(ths, t)
		tabs = append(tabs, n)
		n = 2*n + 1
	}
	return
}

type scStage struct {
	size int
	pos  string // below / at / above / largest
}

func scPlan(ct scCtor, big bool) []scStage {
	maxSize := 1400
	switch {
	case ct.capacity == 1000:
		maxSize = 2100
	case ct.capacity == 5000:
		maxSize = 5100
	case big:
		maxSize = 2600
	}
	ths, _ := scThresholds(ct.capacity, ct.lf, maxSize)
	var st []scStage
	last := 0
	add := func(s int, pos string) {
		if s > last {
			st = append(st, scStage{s, pos})
			last = s
		}
	}
	for _, t := range ths {
		if t < 4 {
			continue // the tiny first tables of (2, 0.5) … are crossed on the way
		}
		add(t-1, "below")
		add(t, "at")
		add(t+1, "above")
	}
	add(last+40, "largest")
	return st
}

func scOps(typ string) []string {
	switch typ {
	case pmap.TIntIntMap:
		return []string{"Clear", "Sort", "KeyArray", "ValueArray", "Keys", "Values", "Entries", "ToString", "ToBytes", "SetMax", "ContainsValue"}
	case pmap.TIntKeyMap:
		return []string{"Clear", "PutAll", "KeyArray", "Keys", "Values", "Entries", "ToString", "ToFormatString", "ContainsValue"}
	case pmap.TIntSet:
		return []string{"Clear", "PutAll", "Values", "ToString"}
	}
	return []string{"Clear", "Keys"}
}

func scTabClass(tl int) string {
	if tl < 101 {
		return "lt101"
	}
	return strconv.Itoa(tl)
}

// scKeys: distinct keys to fill with — a third in runs congruent modulo the successive table
// lengths (long chains that every growth has to split), the rest dense and random.
func scIntKeys(r *vlib.Rand, ct scCtor, n int) []int32 {
	capacity := ct.capacity
	if capacity == 0 {
		capacity = 101
	}
	seen := make(map[int32]bool, n)
	out := make([]int32, 0, n)
	add := func(k int32) {
		if !seen[k] && len(out) < n {
			seen[k] = true
			out = append(out, k)
		}
	}
	base := int64(r.I32())
	stride := int64([]int{capacity, 2*capacity + 1, 4*capacity + 3}[r.Intn(3)])
	for j := 0; j < n/3; j++ {
		add(int32(base + int64(j)*stride))
	}
	start := int32(r.Range(-200, 200))
	for j := 0; j < n/3; j++ {
		add(start + int32(j))
	}
	for len(out) < n {
		add(r.I32())
	}
	r.Shuffle(len(out), func(i, j int) { out[i], out[j] = out[j], out[i] })
	return out
}

func scStrKeys(r *vlib.Rand, n int, tw *twinSet) []string {
	pool := makeStrPool(r, n+1, tw)
	out := pool[:0]
	for _, s := range pool {
		if s != "" { // the refused empty key is the business of the hist- sections
			out = append(out, s)
		}
	}
	r.Shuffle(len(out), func(i, j int) { out[i], out[j] = out[j], out[i] })
	return out
}

func (h *hist) scStored(k int32, s string) bool {
	if h.d.StringKey {
		_, ok := h.m.SS[s]
		return ok
	}
	_, ok := h.m.M[k]
	return ok
}

// scFillTo inserts fresh keys (or removes stored ones) until the model holds exactly size.
func (h *hist) scFillTo(size int, ikeys []int32, skeys []string, next *int) bool {
	r := h.r
	// the key list is used round-robin: after a Clear (or removals) the keys before *next are
	// free again
	misses := 0
	for !h.dead && h.m.Size() < size {
		n := len(ikeys)
		if h.d.StringKey {
			n = len(skeys)
		}
		if misses > n {
			return false
		}
		idx := *next % n
		*next++
		if h.d.StringKey {
			s := skeys[idx]
			if h.scStored(0, s) {
				misses++
				continue
			}
			misses = 0
			name := "Put"
			if r.Intn(4) == 0 {
				name = "Unipoint"
			}
			h.step(pmap.StrOp(name, s))
			continue
		}
		k := ikeys[idx]
		if h.scStored(k, "") {
			misses++
			continue
		}
		misses = 0
		op := pmap.Op{Name: "Put", K: k}
		if !h.d.IsSet {
			op.V = h.pickVal()
			h.remember(op.V)
			if h.d.Name == pmap.TIntIntMap && r.Intn(5) == 0 {
				op.Name = "Add"
			}
		}
		h.step(op)
	}
	if !h.dead && h.m.Size() > size {
		if h.d.StringKey {
			for _, s := range h.m.SortedStrKeys() {
				if h.dead || h.m.Size() <= size {
					break
				}
				h.step(pmap.StrOp("Remove", s))
			}
		} else {
			ks := h.m.SortedIntKeys()
			r.Shuffle(len(ks), func(i, j int) { ks[i], ks[j] = ks[j], ks[i] })
			for _, k := range ks {
				if h.dead || h.m.Size() <= size {
					break
				}
				h.step(pmap.Op{Name: "Remove", K: k})
			}
		}
		h.c.Count("sizeclass_drains_to_planned_size", 1)
	}
	return !h.dead && h.m.Size() == size
}

// scQuietOps: point operations that never raise the number of stored keys above what it is
// now — lookups, overwrites of stored keys, and a removal followed by the re-insertion of the
// same key — so that the structure stays in the planned size class (no growth is triggered).
func (h *hist) scQuietOps(ikeys []int32, skeys []string) {
	r := h.r
	var k int32
	var s string
	found := false
	for t := 0; t < 8 && !found; t++ {
		if h.d.StringKey {
			s = skeys[r.Intn(len(skeys))]
		} else {
			k = ikeys[r.Intn(len(ikeys))]
		}
		found = h.scStored(k, s)
	}
	mk := func(name string) pmap.Op {
		if h.d.StringKey {
			return pmap.StrOp(name, s)
		}
		op := pmap.Op{Name: name, K: k}
		if !h.d.IsSet && (name == "Put" || name == "Add" || name == "AddIfExist") {
			op.V = h.pickVal()
			h.remember(op.V)
		}
		return op
	}
	look := "Contains"
	if !h.d.IsSet {
		look = []string{"Get", "ContainsKey"}[r.Intn(2)]
	} else if h.d.StringKey && r.Bool() {
		look = "HasKey"
	}
	x := r.Intn(10)
	switch {
	case x < 4 || !found:
		if !found || r.Intn(3) == 0 { // any key of the pool, stored or not
			if h.d.StringKey {
				s = h.pickStrFor(look)
			} else {
				k = h.pickIntFor(look)
			}
		}
		h.step(mk(look))
	case x < 7:
		name := "Put"
		switch {
		case h.d.Name == pmap.TIntIntMap:
			name = []string{"Put", "Add", "AddIfExist"}[r.Intn(3)]
		case h.d.StringKey && r.Bool():
			name = "Unipoint"
		}
		h.step(mk(name))
	default:
		h.step(mk("Remove"))
		if !h.dead {
			h.step(mk("Put"))
		}
	}
}

// scWholeOp builds the scheduled whole-structure operation for the current state.
func (h *hist) scWholeOp(name string, ikeys []int32, next *int, nextThreshold int) []pmap.Op {
	r := h.r
	switch name {
	case "Keys", "Values", "Entries":
		return []pmap.Op{{Name: name, V: int32(r.Intn(3))}}
	case "Sort":
		return []pmap.Op{{Name: name, V: int32(r.Intn(2))}}
	case "ContainsValue":
		return []pmap.Op{{Name: name, V: h.pickVal()}, {Name: name, V: r.I32()}}
	case "SetMax":
		sz := h.m.Size()
		v := []int{sz - 1, sz, sz + 1, 0, sz / 2}[r.Intn(5)]
		if v < 0 {
			v = 0
		}
		return []pmap.Op{{Name: "SetMax", V: int32(v)}, {Name: "IsFull"}, {Name: "SetMax", V: int32(sz)}, {Name: "IsFull"}, {Name: "SetMax", V: 0}, {Name: "IsFull"}}
	case "PutAll":
		op := pmap.Op{Name: name}
		switch x := r.Intn(12); {
		case x == 0:
			op.Nil = true
		case x == 1 && h.d.Name == pmap.TIntKeyMap:
			op.Self = true
		default:
			// enough new keys to reach or cross the next growth inside the bulk call (when that
			// is near), mixed with keys that are already stored
			n := r.Range(1, 40)
			if gap := nextThreshold - h.m.Size(); gap >= 0 && gap < 400 && r.Intn(3) != 0 {
				n = gap + r.Range(0, 3)
			}
			for j := 0; j < n; j++ {
				k := ikeys[*next%len(ikeys)]
				*next++
				op.KS = append(op.KS, k)
				if !h.d.IsSet {
					op.VS = append(op.VS, h.pickVal())
				}
				if r.Intn(8) == 0 && len(h.known) > 0 {
					op.KS = append(op.KS, h.known[r.Intn(len(h.known))])
					if !h.d.IsSet {
						op.VS = append(op.VS, h.pickVal())
					}
				}
			}
		}
		return []pmap.Op{op}
	}
	return []pmap.Op{{Name: name}}
}

func runSizeClass(c *vlib.Ctx, d *pmap.Descriptor, section string, i int, r *vlib.Rand) {
	h := &hist{c: c, d: d, r: r, caseID: fmt.Sprintf("%s#%d", section, i), lastMut: "New"}
	ct := scCtorFor(d, i)
	h.in = d.New(ct.capacity, ct.lf)
	none := int32(0)
	if d.Name == pmap.TIntIntMap {
		none = noneChoices[r.Intn(len(noneChoices))]
		h.in.SetNone(none)
	}
	h.m = pmap.NewModel(d.Name, none)
	if ct.capacity == 0 {
		h.ctor = "default (101, 0.75)"
	} else {
		h.ctor = fmt.Sprintf("(%d, %v)", ct.capacity, ct.lf)
	}
	c.SetAdd("sizeclass_constructors_covered", d.Name+h.ctor)
	h.tableLen = pmap.TableLen(h.in)

	big := ct.capacity == 0 && scVariant(i) == 3
	plan := scPlan(ct, big)
	need := plan[len(plan)-1].size*2 + 2000
	var ikeys []int32
	var skeys []string
	if d.StringKey {
		skeys = scStrKeys(r, need, &h.tw)
		h.spool = skeys
	} else {
		ikeys = scIntKeys(r, ct, need)
		h.ipool = ikeys
	}
	ths, _ := scThresholds(ct.capacity, ct.lf, 1<<20)
	nextTh := func() int {
		for _, t := range ths {
			if t >= h.m.Size() {
				return t
			}
		}
		return 1 << 30
	}
	ops := scOps(d.Name)
	next := 0
	h.fullCheck()
	stagesDone := 0
	for si, st := range plan {
		if h.dead {
			break
		}
		if !h.scFillTo(st.size, ikeys, skeys, &next) {
			break
		}
		name := ops[(i/8+si)%len(ops)]
		if deadlocked[d.Name+"."+name] {
			continue
		}
		tl := pmap.TableLen(h.in)
		sizeBefore := h.m.Size()
		for _, op := range h.scWholeOp(name, ikeys, &next, nextTh()) {
			if h.dead {
				break
			}
			h.step(op)
		}
		if h.dead {
			break
		}
		h.fullCheck() // right after the whole-structure operation
		c.Count("sizeclass_ops_applied", 1)
		c.Count("sizeclass_"+st.pos+"_"+d.Name+"."+name, 1)
		c.Count("sizeclass_tab"+scTabClass(tl)+"_"+d.Name+"."+name, 1)
		c.Max("max_sizeclass_size_at_whole_op", int64(sizeBefore))
		if name == "Clear" {
			c.Max("max_size_cleared_"+d.Name, int64(sizeBefore))
			c.Max("max_table_len_cleared_"+d.Name, int64(tl))
		}
		// further operations on the structure the whole-structure operation left behind
		nf := r.Range(12, 48)
		quiet := st.pos == "below" || st.pos == "at" // keep the planned size class: nothing that inserts a new key
		for n := 0; n < nf && !h.dead; n++ {
			if quiet {
				h.scQuietOps(ikeys, skeys)
			} else {
				h.step(h.genOp(pickOp(r, weights(d.Name, phChurn)), phChurn))
			}
		}
		if h.dead {
			break
		}
		h.fullCheck()
		stagesDone++
	}
	if !h.dead {
		// the structure that went through every class: drain a share, compare, clear, reuse
		if h.scFillTo(h.m.Size()/2, ikeys, skeys, &next) {
			h.fullCheck()
			tl := pmap.TableLen(h.in)
			h.step(pmap.Op{Name: "Clear"})
			c.Count("sizeclass_final_clear_tab"+scTabClass(tl)+"_"+d.Name, 1)
			if h.scFillTo(r.Range(1, 120), ikeys, skeys, &next) {
				h.fullCheck()
			}
		}
	}
	c.Count("histories", 1)
	c.Count("sizeclass_histories", 1)
	c.Count("sizeclass_histories_"+d.Name, 1)
	if !h.dead && stagesDone > 0 {
		c.Count("sizeclass_histories_completed_"+d.Name, 1)
	}
	if h.rehashes >= 5 {
		c.Count("sizeclass_histories_crossing_5_or_more_growths_"+d.Name, 1)
	}
	c.Max("max_rehashes_in_one_history", int64(h.rehashes))
	c.Max("max_size_reached", int64(h.m.Size()))
	if h.nops >= 10 {
		c.Distinct(vlib.Mix(h.hash ^ vlib.HashStr("sizeclass"+d.Name+h.ctor)))
	}
	if i < 2 && c.WantSample() {
		var pl []string
		for si, st := range plan {
			pl = append(pl, fmt.Sprintf("%d(%s):%s", st.size, st.pos, ops[(i/8+si)%len(ops)]))
		}
		c.Sample(map[string]interface{}{"type": d.Name, "constructor": h.ctor, "size_class_plan": pl, "operations_total": h.nops, "growths": h.rehashes})
	}
}

// scFloors: every whole-structure operation of every type met every size class.
func scFloors(c *vlib.Ctx, per int) {
	// global floors: the minimum is carried by shard 0 (the driver sums minima and values)
	g := func(name string, min int64) {
		if c.Shard != 0 {
			min = 0
		}
		c.Floor(name, min, c.Counter(name))
	}
	scale := int64(per) / 128
	if scale < 1 {
		scale = 1
	}
	for _, d := range pmap.Types {
		for _, op := range scOps(d.Name) {
			for _, pos := range []string{"below", "at", "above", "largest"} {
				min := 2 * scale
				if pos == "largest" {
					min = scale
				}
				g("sizeclass_"+pos+"_"+d.Name+"."+op, min)
			}
			tabs := []int{101, 203, 407, 815, 1631, 3263}
			for _, t := range tabs {
				g("sizeclass_tab"+strconv.Itoa(t)+"_"+d.Name+"."+op, scale)
			}
			if d.CtorCaps != nil {
				for _, t := range []int{1000, 2001, 4003, 5000, 10001} {
					g("sizeclass_tab"+strconv.Itoa(t)+"_"+d.Name+"."+op, 1)
				}
			}
		}
		g("sizeclass_histories_crossing_5_or_more_growths_"+d.Name, int64(per)/20)
		g("sizeclass_histories_completed_"+d.Name, int64(per)/10)
	}
}
