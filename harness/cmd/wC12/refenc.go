package main

import (
	"fmt"

	"verif/refcodec"
)

// Reference form of a serialized int-to-int map, written from the layout
//
//	decimal(count) { decimal(key) decimal(value) } × count
//
// where decimal(v) is one length-class byte n ∈ {0,1,2,3,4,5,8} (the SHORTEST class whose
// signed range holds v; n = 0 only for v = 0) followed by n big-endian two's-complement bytes.
// Nothing here uses golib.

type pair struct{ K, V int64 }

// refEncodeIntIntMap encodes the pairs in the order given (an unordered map has no
// canonical entry order; the order is taken from what is being compared).
func refEncodeIntIntMap(pairs []pair) []byte {
	w := refcodec.NewW()
	w.Decimal(int64(len(pairs)))
	for _, p := range pairs {
		w.Decimal(p.K)
		w.Decimal(p.V)
	}
	return w.Bytes()
}

// refReadDecimal is an independent reader of one decimal.
func refReadDecimal(b []byte, off int) (v int64, next int, err error) {
	if off >= len(b) {
		return 0, off, fmt.Errorf("offset %d: no length-class byte", off)
	}
	n := int(b[off])
	switch n {
	case 0, 1, 2, 3, 4, 5, 8:
	default:
		return 0, off, fmt.Errorf("offset %d: length class %d is not one of 0,1,2,3,4,5,8", off, n)
	}
	off++
	if off+n > len(b) {
		return 0, off, fmt.Errorf("offset %d: %d payload bytes announced, %d left", off, n, len(b)-off)
	}
	if n == 0 {
		return 0, off, nil
	}
	var u uint64
	if b[off]&0x80 != 0 {
		u = ^uint64(0)
	}
	for i := 0; i < n; i++ {
		u = u<<8 | uint64(b[off+i])
	}
	return int64(u), off + n, nil
}

// refDecodeIntIntMap parses a serialized map; the whole input must be consumed.
func refDecodeIntIntMap(b []byte) ([]pair, error) {
	cnt, off, err := refReadDecimal(b, 0)
	if err != nil {
		return nil, err
	}
	if cnt < 0 || cnt > int64(len(b)) {
		return nil, fmt.Errorf("count %d impossible for %d bytes", cnt, len(b))
	}
	out := make([]pair, 0, cnt)
	for i := int64(0); i < cnt; i++ {
		var p pair
		if p.K, off, err = refReadDecimal(b, off); err != nil {
			return nil, fmt.Errorf("entry %d key: %v", i, err)
		}
		if p.V, off, err = refReadDecimal(b, off); err != nil {
			return nil, fmt.Errorf("entry %d value: %v", i, err)
		}
		out = append(out, p)
	}
	if off != len(b) {
		return nil, fmt.Errorf("%d trailing bytes after %d entries", len(b)-off, cnt)
	}
	return out, nil
}
