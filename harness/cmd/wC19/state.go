// Process-wide state of util/dateutil and of the time package that a helper taking an EXPLICIT
// instant must not depend on:
//
//   - the server-clock correction `delta` (SetDelta / SetServerTime) — only the "*Now" helpers
//     and Now() itself may (and must) apply it;
//   - the host time zone time.Local — the calendar helpers are defined in UTC; DateFormat
//     formats a time.Time in that value's own location and parses in the local zone;
//   - the sync-time mode (StartSyncTime / StopSyncTime), which replaces the source of
//     SystemNow().
//
// The sections of this file run a representative slice of every other section of the worker
// (all eleven helpers, the unit functions at their edges, GetYmdTime, DateFormat format/parse,
// concurrent callers) with that state set to non-default values. The oracles are the same ones
// (standard-library calendar in UTC); the state is restored afterwards.
package main

import (
	"fmt"
	"math"
	"sort"
	"sync/atomic"
	"time"
	_ "time/tzdata" // the zone database does not depend on the host

	"github.com/whatap/golib/util/dateutil"

	"verif/vlib"
)

// ---- corrections ----------------------------------------------------------------------

type correction struct {
	ms    int64
	label string
}

var corrections = []correction{
	{-1, "-1ms"}, {+1, "+1ms"},
	{-1500, "-1.5s"}, {+1500, "+1.5s"},
	{-msHour, "-1h"}, {+msHour, "+1h"},
	{-msDay, "-1day"}, {+msDay, "+1day"},
	{400 * msDay, "+400days"},
}

var setterNames = [2]string{"SetDelta", "SetServerTime"}

// applied describes the correction in force: [lo, hi] brackets the value of the package's
// delta as it follows from the arguments given to the setter and from SystemNow() read before
// and after the call (SetDelta: lo == hi == the argument). got is GetDelta(), used only to
// choose instants near the edges a dependent helper would move, never as an oracle.
type applied struct {
	corr   correction
	setter int
	factor float64
	lo, hi int64
	got    int64
	ok     bool // [lo, hi] is valid (the clock did not step back around the setter)
}

// applyCorrection sets the correction through the given setter.
func applyCorrection(corr correction, setter int, r *vlib.Rand) applied {
	a := applied{corr: corr, setter: setter, factor: 1}
	if setter == 0 {
		dateutil.SetDelta(corr.ms)
		a.lo, a.hi, a.got, a.ok = corr.ms, corr.ms, dateutil.GetDelta(), true
		return a
	}
	// SetServerTime(server, f): delta = trunc((server - SystemNow()) * f). The server clock is
	// chosen so that the result is the wanted correction, up to the milliseconds that pass
	// between this function's clock reading and the setter's.
	d := corr.ms
	if r.Chance(1, 3) {
		a.factor = 0.5
		d = 2 * corr.ms
	}
	for try := 0; try < 50; try++ {
		s0 := dateutil.SystemNow()
		dateutil.SetServerTime(s0+d, a.factor)
		s1 := dateutil.SystemNow()
		a.got = dateutil.GetDelta()
		if s1 < s0 { // the clock was stepped back: no bracket
			a.ok = false
			continue
		}
		a.ok = true
		if a.factor == 1 {
			a.lo, a.hi = d-(s1-s0), d
		} else {
			a.lo = int64(math.Floor(float64(d-(s1-s0))*a.factor)) - 1
			a.hi = int64(math.Ceil(float64(d)*a.factor)) + 1
		}
		if a.got != 0 { // ±1 ms can be eaten by the clock advancing; try again
			break
		}
	}
	return a
}

// ---- zones ----------------------------------------------------------------------------

type zone struct {
	name  string
	loc   *time.Location
	fixed bool // one offset for every instant of the century
}

var zoneNames = []string{"UTC", "Asia/Seoul", "Asia/Kolkata", "America/New_York", "Europe/London",
	"Australia/Lord_Howe", "Pacific/Chatham", "America/St_Johns", "Pacific/Kiritimati", "Pacific/Apia",
	"Etc/GMT+12", "fixed+01:23:45", "fixed-09:59:59"}

func loadZones(c *vlib.Ctx) []zone {
	var zs []zone
	for _, n := range zoneNames {
		var loc *time.Location
		switch n {
		case "fixed+01:23:45":
			loc = time.FixedZone(n, 1*3600+23*60+45)
		case "fixed-09:59:59":
			loc = time.FixedZone(n, -(9*3600 + 59*60 + 59))
		default:
			l, err := time.LoadLocation(n)
			if err != nil {
				c.Inconclusive("setup", "zone "+n+" cannot be loaded: "+err.Error())
				continue
			}
			loc = l
		}
		z := zone{name: n, loc: loc, fixed: true}
		_, first := time.UnixMilli(baseMs).In(loc).Zone()
		for t := baseMs; t < endMs+msDay; t += msDay {
			if _, off := time.UnixMilli(t).In(loc).Zone(); off != first {
				z.fixed = false
				break
			}
		}
		zs = append(zs, z)
	}
	return zs
}

// ---- instants -------------------------------------------------------------------------

func floorDiv(a, b int64) int64 {
	q := a / b
	if a%b != 0 && (a < 0) != (b < 0) {
		q--
	}
	return q
}

func clampCentury(t int64) int64 {
	if t < baseMs {
		return baseMs
	}
	if t >= endMs {
		return endMs - 1
	}
	return t
}

// stateInstants: nd random days at the seven fixed offsets, the edges of a day, of one
// five-minute and of one minute step in each of them at -1/0/+1 ms — as they are and displaced
// by the correction g in both directions (where a helper that added or subtracted g would
// change its answer) — and nr random instants. Sorted.
func stateInstants(dst []int64, r *vlib.Rand, g int64, nd, nr int) []int64 {
	dst = dst[:0]
	for d := 0; d < nd; d++ {
		day := int64(r.Intn(numDays))
		if d == 0 && r.Bool() {
			day = []int64{0, 59, 60, 36524, 36523}[r.Intn(5)]
		}
		ds := baseMs + day*msDay
		for _, off := range fixedOffsets {
			dst = append(dst, ds+off)
		}
		edges := [4]int64{ds, ds + msDay, ds + int64(r.Intn(288))*msFive, ds + int64(r.Intn(1440))*msMin}
		for _, b := range edges {
			for _, sh := range [3]int64{0, -g, g} {
				for e := int64(-1); e <= 1; e++ {
					dst = append(dst, clampCentury(b+sh+e))
				}
			}
		}
	}
	for j := 0; j < nr; j++ {
		dst = append(dst, randomInstant(r))
	}
	sort.Slice(dst, func(a, b int) bool { return dst[a] < dst[b] })
	return dst
}

// clone returns a checker with its own counters and scratch buffer whose unit functions are
// anchored at the values read at process start (correction 0, UTC).
func (k *checker) clone() *checker {
	n := &checker{c: k.c, cnt: map[string]int64{}, failed: map[string]bool{}, sets: map[string]bool{}}
	n.unit0 = k.unit0
	return n
}

// checkUnder runs the instant checker over ts and counts the instants at which a helper that
// applied the correction g would give a different answer.
func (k *checker) checkUnder(ts []int64, g int64) {
	k.resetOrder()
	for _, t := range ts {
		k.check(t)
		for i := 0; i < 3; i++ {
			if floorDiv(t+g-baseMs, unitSteps[i]) != floorDiv(t-baseMs, unitSteps[i]) {
				k.cnt["state_instants_where_the_correction_crosses_a_step_edge_"+unitNames[i]]++
			}
		}
	}
	k.cnt["state_instants_checked"] += int64(len(ts))
}

// ---- the "*Now" helpers ------------------------------------------------------------------

func refYmd(t int64) string {
	o := oracle(t)
	return string(putN(putN(putN(nil, o.y, 4), o.mo, 2), o.d, 2))
}

func refTimeStamp(t int64) string {
	o := oracle(t)
	b := putN(putN(putN(nil, o.y, 4), o.mo, 2), o.d, 2)
	b = append(b, ' ')
	b = putN(b, o.hh, 2)
	b = append(b, ':')
	b = putN(b, o.mi, 2)
	b = append(b, ':')
	b = putN(b, o.ss, 2)
	b = append(b, '.')
	return string(putN(b, o.ms, 3))
}

// nowChecks: the helpers without an instant argument are the helpers of the instant
// SystemNow()+delta. SystemNow() is read before and after each call; the result must be the
// helper's value for some instant of [before+lo, after+hi] (all of them are non-decreasing in
// the instant, the string layouts are fixed-width). No verdict when the clock stepped back.
func (k *checker) nowChecks(a applied, rounds int) {
	for j := 0; j < rounds; j++ {
		for h := 0; h < 4; h++ {
			var vi int64
			var vs string
			s0 := dateutil.SystemNow()
			switch h {
			case 0:
				vi = dateutil.Now()
			case 1:
				vi = dateutil.GetDateUnitNow()
			case 2:
				vs = dateutil.TimeStampNow()
			case 3:
				vs = dateutil.YmdNow()
			}
			s1 := dateutil.SystemNow()
			lo, hi := s0+a.lo, s1+a.hi
			if !a.ok || s1 < s0 || lo < baseMs || hi >= endMs {
				k.cnt["state_now_helper_calls_without_bracket"]++
				continue
			}
			name := [4]string{"Now", "GetDateUnitNow", "TimeStampNow", "YmdNow"}[h]
			var bad bool
			var elo, ehi interface{}
			switch h {
			case 0:
				elo, ehi, bad = lo, hi, vi < lo || vi > hi
			case 1:
				ulo, uhi := k.unit0[0]+(lo-baseMs)/msDay, k.unit0[0]+(hi-baseMs)/msDay
				elo, ehi, bad = ulo, uhi, vi < ulo || vi > uhi
			case 2:
				slo, shi := refTimeStamp(lo), refTimeStamp(hi)
				elo, ehi, bad = slo, shi, len(vs) != len(slo) || vs < slo || vs > shi
			case 3:
				slo, shi := refYmd(lo), refYmd(hi)
				elo, ehi, bad = slo, shi, len(vs) != len(slo) || vs < slo || vs > shi
			}
			if bad {
				got := interface{}(vi)
				if h >= 2 {
					got = vs
				}
				k.fail(name+":not-SystemNow-plus-correction", func() (string, interface{}) {
					return fmt.Sprintf("%s() = %v with the correction in [%d, %d] ms (%s, %s) and SystemNow() = %d before / %d after the call: expected a value in [%v, %v]",
							name, got, a.lo, a.hi, setterNames[a.setter], a.corr.label, s0, s1, elo, ehi),
						map[string]interface{}{"helper": name, "got": got, "correction_lo_ms": a.lo, "correction_hi_ms": a.hi, "setter": setterNames[a.setter],
							"system_now_before": s0, "system_now_after": s1, "expected_lo": elo, "expected_hi": ehi}
				})
			}
			k.cnt["state_now_helper_calls_bracketed"]++
			k.cnt["state_now_helper_calls_bracketed_"+name]++
		}
	}
}

// ---- the slice --------------------------------------------------------------------------

type stater struct {
	c      *vlib.Ctx
	k      *checker
	zones  []zone
	canons []stateCanon
	inst   []int64
}

type stateCanon struct {
	pat   []rune
	class string
	mask  uint8
}

func newStater(c *vlib.Ctx, k *checker) *stater {
	s := &stater{c: c, k: k, zones: loadZones(c)}
	for _, p := range canonical {
		pr := []rune(p)
		m := presentMask(pr)
		s.canons = append(s.canons, stateCanon{pr, classOf(m), m})
	}
	return s
}

// restore puts the process back into the state every other section runs in.
func (s *stater) restore() {
	dateutil.SetDelta(0)
	time.Local = time.UTC
}

// stateOf: the state of case i of a section, the same whatever the sharding: consecutive blocks
// of 16 cases go through the 18 (correction, setter) pairs, the zone moves with both indices.
func (s *stater) stateOf(i int, seed uint64) (correction, int, zone) {
	return s.stateAt(i/16, i%16, seed)
}

func (s *stater) stateAt(j, sh int, seed uint64) (correction, int, zone) {
	combo := (j + int(seed%18)) % 18
	z := s.zones[(j*5+sh*3+int(seed%97))%len(s.zones)]
	return corrections[combo%9], combo / 9, z
}

// slice runs the sequential part under the state that is in force: helpers and unit functions
// (k.check, which includes GetYmdTime(YYYYMMDD(t))), GetYmdTime on reference date strings,
// DateFormat canonical and generated patterns, and (withNow) the "*Now" helpers.
func (s *stater) slice(r *vlib.Rand, a applied, z zone, nd, nr, npat int, withNow bool) {
	c, k := s.c, s.k
	g := a.got
	s.inst = stateInstants(s.inst, r, g, nd, nr)
	k.checkUnder(s.inst, g)
	for _, t := range s.inst {
		c.Distinct(vlib.Mix(uint64(t) ^ uint64(g)*0x9e3779b97f4a7c15 ^ vlib.HashStr(z.name)))
	}
	c.Eval(int64(len(s.inst)))

	// GetYmdTime on reference date strings
	for d := 0; d < nd; d++ {
		dayStart := baseMs + int64(r.Intn(numDays))*msDay
		ds := refYmd(dayStart)
		var back int64
		if p := vlib.Catch(func() { back = dateutil.GetYmdTime(ds) }); p != nil || back != dayStart {
			k.fail("GetYmdTime:differs", func() (string, interface{}) {
				return fmt.Sprintf("GetYmdTime(%q) = %d (panic: %v) with correction %d ms (%s) in zone %s, start of that day is %d", ds, back, p, g, setterNames[a.setter], z.name, dayStart),
					map[string]interface{}{"date": ds, "got": back, "expected": dayStart, "panic": fmt.Sprint(p), "correction_ms": g, "zone": z.name}
			})
		}
		k.cnt["state_GetYmdTime_of_reference_date_strings"]++
	}

	// DateFormat
	fc := &fmtChecker{k: k, loc: z.loc, fixed: z.fixed}
	before := k.cnt["format_parse_round_trips"]
	for d := 0; d < 3; d++ {
		dayStart := baseMs + int64(r.Intn(numDays))*msDay
		for _, off := range fixedOffsets {
			for _, cn := range s.canons {
				fc.roundTrip(dateutil.NewDateFormat(string(cn.pat)), cn.pat, cn.class, cn.mask, dayStart+off)
			}
		}
	}
	for q := 0; q < npat; q++ {
		var mask uint8
		switch r.Intn(4) {
		case 0, 1:
			mask = 0x7f
		case 2:
			mask = uint8(1)<<uint(r.Range(1, 6)) - 1
		default:
			mask = uint8(r.Range(1, 15)) << 3
		}
		pat := genPattern(r, mask)
		df := dateutil.NewDateFormat(string(pat))
		for j := 0; j < 16; j++ {
			t := randomInstant(r)
			if !z.fixed && j < 8 { // around the zone's own transitions
				t = nearTransition(r, z.loc, t)
			}
			fc.roundTrip(df, pat, classOf(mask), mask, t)
			c.Distinct(vlib.HashStr(string(pat)) ^ vlib.Mix(uint64(t)) ^ vlib.HashStr(z.name))
		}
		c.Eval(16)
	}
	k.cnt["state_format_parse_round_trips"] += k.cnt["format_parse_round_trips"] - before

	if withNow {
		k.nowChecks(a, 8)
	}
}

// nearTransition moves t to within two hours of a change of loc's offset in t's year, if
// the standard library reports one (found by bisection between two days with different offsets).
func nearTransition(r *vlib.Rand, loc *time.Location, t int64) int64 {
	off := func(x int64) int { _, o := time.UnixMilli(x).In(loc).Zone(); return o }
	start := t - (t-baseMs)%(30*msDay)
	for step := int64(0); step < 14; step++ {
		lo := start + step*30*msDay
		hi := lo + 30*msDay
		if hi >= endMs {
			break
		}
		if off(lo) == off(hi) {
			continue
		}
		for hi-lo > 1 {
			mid := lo + (hi-lo)/2
			if off(mid) == off(lo) {
				lo = mid
			} else {
				hi = mid
			}
		}
		return clampCentury(hi + int64(r.Intn(int(4*msHour))) - 2*msHour)
	}
	return t
}

func (s *stater) count(prefix string, a applied, z zone, n int64) {
	k := s.k
	k.cnt[prefix+"_correction_"+a.corr.label] += n
	k.cnt[prefix+"_setter_"+setterNames[a.setter]] += n
	k.cnt[prefix+"_zone_"+z.name] += n
	if a.got != 0 {
		k.cnt[prefix+"_with_nonzero_correction"] += n
	} else {
		k.cnt[prefix+"_where_the_setter_left_zero"] += n
	}
}

// sequential: section "state".
func (s *stater) sequential(nCases int) {
	c, k := s.c, s.k
	samples := 0
	c.Cases("state", nCases, func(i int, r *vlib.Rand) {
		corr, setter, z := s.stateOf(i, c.Seed)
		defer s.restore()
		time.Local = z.loc
		a := applyCorrection(corr, setter, r)
		before := k.cnt["state_instants_checked"]
		s.slice(r, a, z, 10, 1200, 4, true)
		s.count("state_instants", a, z, k.cnt["state_instants_checked"]-before)
		s.count("state_cases", a, z, 1)
		if a.factor != 1 {
			k.cnt["state_cases_SetServerTime_with_factor_0.5"]++
		}
		k.setAdd("state_corrections_in_force", fmt.Sprintf("%s via %s", corr.label, setterNames[setter]))
		if samples < 2 && c.WantSample() {
			samples++
			t := s.inst[len(s.inst)/3]
			c.Sample(map[string]interface{}{"section": "state", "correction": corr.label, "setter": setterNames[setter], "factor": a.factor,
				"GetDelta": a.got, "delta_bracket": []int64{a.lo, a.hi}, "zone": z.name, "zone_fixed": z.fixed, "t_ms": t, "utc": isoTime(t),
				"GetDateUnit": dateutil.GetDateUnit(t), "TimeStamp": dateutil.TimeStamp(t), "YYYYMMDD": dateutil.YYYYMMDD(t),
				"TimeStampNow": dateutil.TimeStampNow(), "SystemNow": dateutil.SystemNow(), "instants": len(s.inst)})
		}
		s.restore()
		if d := dateutil.GetDelta(); d != 0 {
			c.Inconclusive(fmt.Sprintf("state#%d", i), fmt.Sprintf("correction could not be reset to 0 (GetDelta=%d)", d))
		}
		k.flush()
	})
}

// parallel: blocks "state-parallel-<b>": one state per block and shard (it is process-wide,
// so it cannot differ between the goroutines of a block), the instant checker and full-pattern
// round trips from 8 goroutines at once.
func (s *stater) parallel(blocks, casesPerBlock int) {
	c, k := s.c, s.k
	for b := 0; b < blocks; b++ {
		// the state depends on the shard: the replay file records shard and nshards
		corr, setter, z := s.stateAt(7*b+11*c.Shard+1, c.Shard+b, c.Seed)
		time.Local = z.loc
		a := applyCorrection(corr, setter, c.Rand(fmt.Sprintf("state-parallel-%d/%d", b, c.Shard)))
		var ran atomic.Bool
		c.ParallelCases(fmt.Sprintf("state-parallel-%d", b), casesPerBlock, 8, func(i int, r *vlib.Rand) {
			ran.Store(true)
			kk := k.clone()
			ts := stateInstants(nil, r, a.got, 6, 1500)
			kk.checkUnder(ts, a.got)
			fc := &fmtChecker{k: kk, loc: z.loc, fixed: z.fixed}
			pr := []rune(canonical[i%2])
			df := dateutil.NewDateFormat(string(pr))
			for j := 0; j < 64; j++ {
				fc.roundTrip(df, pr, "full", 0x7f, ts[r.Intn(len(ts))])
			}
			kk.cnt["state_instants_checked_by_concurrent_callers"] += int64(len(ts))
			kk.flush()
			c.Eval(int64(len(ts)) - 1)
			c.DistinctEnum(1)
		})
		if ran.Load() {
			s.count("state_parallel_blocks", a, z, 1)
		}
		s.restore()
		k.flush()
	}
}

// syncMode: section "state-sync" (last in the worker: StopSyncTime leaves the package in
// sync-time mode with a clock that no longer moves). While the ticker runs only the helpers
// with an explicit instant are checked; after StopSyncTime the "*Now" helpers too.
func (s *stater) syncMode(nCases int) {
	c, k := s.c, s.k
	c.Cases("state-sync", nCases, func(i int, r *vlib.Rand) {
		corr, setter, z := s.stateAt(7*i+3, i, c.Seed)
		defer s.restore()
		dateutil.StartSyncTime()
		if !dateutil.IsSyncTime() {
			c.Inconclusive(fmt.Sprintf("state-sync#%d", i), "StartSyncTime did not switch the mode on")
			return
		}
		time.Local = z.loc
		a := applyCorrection(corr, setter, r)
		before := k.cnt["state_instants_checked"]
		s.slice(r, a, z, 10, 1200, 2, false)
		k.cnt["state_sync_instants_checked_while_the_ticker_runs"] += k.cnt["state_instants_checked"] - before
		dateutil.StopSyncTime()
		before = k.cnt["state_instants_checked"]
		a = applyCorrection(corr, setter, r)
		s.slice(r, a, z, 10, 1200, 2, true)
		k.cnt["state_sync_instants_checked_after_StopSyncTime"] += k.cnt["state_instants_checked"] - before
		s.count("state_sync_cases", a, z, 1)
		s.restore()
		k.flush()
	})
}
