// wC19 — the calendar helpers of util/dateutil agree with the standard calendar for
// 2000-01-01 … 2099-12-31 UTC, the unit functions are monotone step functions, and the
// pattern-based DateFormat is the inverse of its parser on the fields present.
//
// Oracle: time.UnixMilli(t).UTC() (standard library calendar), every field rendered by this
// file's own zero-padding code. golib is never asked what it thinks the answer is.
package main

import (
	"fmt"
	"sort"
	"strings"
	"time"

	"github.com/whatap/golib/util/dateutil"

	"verif/vlib"
)

const (
	msSec   = int64(1000)
	msMin   = 60 * msSec
	msFive  = 5 * msMin
	msHour  = 60 * msMin
	msDay   = 24 * msHour
	numDays = 36525 // 2000-01-01 … 2099-12-31
)

// baseMs is the first instant of the supported century, endMs the first instant after it.
var baseMs = time.Date(2000, time.January, 1, 0, 0, 0, 0, time.UTC).UnixMilli()
var endMs = time.Date(2100, time.January, 1, 0, 0, 0, 0, time.UTC).UnixMilli()

// ---- oracle ---------------------------------------------------------------------------

type fields struct {
	y, mo, d, hh, mi, ss, ms int
	wd                       time.Weekday
}

func oracle(t int64) fields {
	tm := time.UnixMilli(t).UTC()
	y, mo, d := tm.Date()
	hh, mi, ss := tm.Clock()
	return fields{y, int(mo), d, hh, mi, ss, tm.Nanosecond() / 1000000, tm.Weekday()}
}

// get returns the field with rank k (0=year … 6=millisecond).
func (f fields) get(k int) int {
	switch k {
	case 0:
		return f.y
	case 1:
		return f.mo
	case 2:
		return f.d
	case 3:
		return f.hh
	case 4:
		return f.mi
	case 5:
		return f.ss
	}
	return f.ms
}

// putN appends v in decimal, left-padded with zeros to width (own code, not golib's).
func putN(b []byte, v, width int) []byte {
	var tmp [20]byte
	i := len(tmp)
	if v == 0 {
		i--
		tmp[i] = '0'
	}
	for v > 0 {
		i--
		tmp[i] = byte('0' + v%10)
		v /= 10
	}
	for n := len(tmp) - i; n < width; n++ {
		b = append(b, '0')
	}
	return append(b, tmp[i:]...)
}

func daysIn(y, mo int) int { return time.Date(y, time.Month(mo)+1, 0, 0, 0, 0, 0, time.UTC).Day() }

// The helper documents its weekday labels as a Monday-first list ("20000101:Saturday" is
// entry 5). A label is identified by the first two letters of the English day name (they are
// unique among the seven days), which tolerates the spelling "Thr" without copying the list.
var isoIndexByPrefix = map[string]int{"Mo": 0, "Tu": 1, "We": 2, "Th": 3, "Fr": 4, "Sa": 5, "Su": 6}

func isoIndex(wd time.Weekday) int { return (int(wd) + 6) % 7 } // Monday=0 … Sunday=6

func allDigits(s string) bool {
	if s == "" {
		return false
	}
	for i := 0; i < len(s); i++ {
		if s[i] < '0' || s[i] > '9' {
			return false
		}
	}
	return true
}

func atoiDigits(s string) int {
	v := 0
	for i := 0; i < len(s); i++ {
		v = v*10 + int(s[i]-'0')
	}
	return v
}

// ---- the instant checker --------------------------------------------------------------

type checker struct {
	c        *vlib.Ctx
	buf      []byte
	cnt      map[string]int64
	failed   map[string]bool
	unit0    [3]int64 // value of each unit function at the base instant
	haveLast bool
	lastT    int64
	lastU    [3]int64
	sets     map[string]bool
}

var unitNames = [3]string{"GetDateUnit", "GetFiveMinUnit", "GetMinUnit"}
var unitSteps = [3]int64{msDay, msFive, msMin}

func unitCall(k int, t int64) int64 {
	switch k {
	case 0:
		return dateutil.GetDateUnit(t)
	case 1:
		return dateutil.GetFiveMinUnit(t)
	}
	return dateutil.GetMinUnit(t)
}

func newChecker(c *vlib.Ctx) *checker {
	k := &checker{c: c, cnt: map[string]int64{}, failed: map[string]bool{}, sets: map[string]bool{}}
	for i := 0; i < 3; i++ {
		k.unit0[i] = unitCall(i, baseMs)
		k.setAdd("unit_value_at_2000-01-01", fmt.Sprintf("%s=%d", unitNames[i], k.unit0[i]))
	}
	return k
}

func (k *checker) setAdd(set, member string) {
	key := set + "\x00" + member
	if !k.sets[key] {
		k.sets[key] = true
		k.c.SetAdd(set, member)
	}
}

// fail forwards to vlib; the message and detail are only built the first time a key is seen
// in this process (a wrong helper fails at millions of instants).
func (k *checker) fail(key string, mk func() (string, interface{})) {
	if k.failed[key] {
		k.c.Fail(key, "", nil)
		return
	}
	k.failed[key] = true
	what, detail := mk()
	k.c.Fail(key, what, detail)
}

func (k *checker) flush() {
	for n, v := range k.cnt {
		if v != 0 {
			k.c.Count(n, v)
			k.cnt[n] = 0
		}
	}
}

func (k *checker) resetOrder() { k.haveLast = false }

func isoTime(t int64) string { return time.UnixMilli(t).UTC().Format("2006-01-02T15:04:05.000Z") }

func (k *checker) strFail(helper, kind string, t int64, exp, got string) {
	k.fail(helper+":"+kind, func() (string, interface{}) {
		return fmt.Sprintf("%s(%d) [%s] returned %q, the standard calendar gives %q", helper, t, isoTime(t), got, exp),
			map[string]interface{}{"helper": helper, "t_ms": t, "utc": isoTime(t), "expected": exp, "got": got}
	})
}

// check runs every exported helper on t and compares with the standard library calendar.
func (k *checker) check(t int64) {
	o := oracle(t)
	b := k.buf[:0]
	// layout: [0:8] date, then the other strings are assembled from it
	b = putN(b, o.y, 4)
	b = putN(b, o.mo, 2)
	b = putN(b, o.d, 2)
	date := b[0:8]

	// YYYYMMDD
	gotDate := dateutil.YYYYMMDD(t)
	if gotDate != string(date) {
		k.strFail("YYYYMMDD", "differs", t, string(date), gotDate)
	}

	// DateTime "yyyymmdd HH:MM:SS" and TimeStamp "yyyymmdd HH:MM:SS.mmm"
	b = append(b, date...)
	b = append(b, ' ')
	b = putN(b, o.hh, 2)
	b = append(b, ':')
	b = putN(b, o.mi, 2)
	b = append(b, ':')
	b = putN(b, o.ss, 2)
	dt := b[8:25]
	b = append(b, '.')
	b = putN(b, o.ms, 3)
	ts := b[8:29]
	if got := dateutil.DateTime(t); got != string(dt) {
		k.strFail("DateTime", "differs", t, string(dt), got)
	}
	if got := dateutil.TimeStamp(t); got != string(ts) {
		kind := "differs"
		// everything up to and including the '.' is right and the rest is the right number
		// of milliseconds written with the wrong number of digits
		if len(got) > 18 && got[:18] == string(ts[:18]) && allDigits(got[18:]) && len(got[18:]) != 3 &&
			len(got[18:]) < 9 && atoiDigits(got[18:]) == o.ms {
			kind = "millis-width"
			k.cnt["timestamp_millis_not_3_digits"]++
		}
		k.strFail("TimeStamp", kind, t, string(ts), got)
	} else {
		k.cnt["timestamp_exact"]++
	}

	// Ymdhms "yyyymmddHHMMSS", HHMMSS, HHMM
	n0 := len(b)
	b = append(b, date...)
	b = putN(b, o.hh, 2)
	b = putN(b, o.mi, 2)
	b = putN(b, o.ss, 2)
	compact := b[n0:]
	if got := dateutil.Ymdhms(t); got != string(compact) {
		k.strFail("Ymdhms", "differs", t, string(compact), got)
	}
	if got := dateutil.HHMMSS(t); got != string(compact[8:14]) {
		k.strFail("HHMMSS", "differs", t, string(compact[8:14]), got)
	}
	if got := dateutil.HHMM(t); got != string(compact[8:12]) {
		k.strFail("HHMM", "differs", t, string(compact[8:12]), got)
	}

	// WeekDay: compared as a day index
	wl := dateutil.WeekDay(t)
	wi := -1
	if len(wl) == 3 {
		if v, ok := isoIndexByPrefix[wl[:2]]; ok {
			wi = v
		}
	}
	if wi != isoIndex(o.wd) {
		k.fail("WeekDay:differs", func() (string, interface{}) {
			return fmt.Sprintf("WeekDay(%d) [%s] returned %q (day index %d, Monday=0), the standard calendar says %s (index %d)",
					t, isoTime(t), wl, wi, o.wd, isoIndex(o.wd)),
				map[string]interface{}{"t_ms": t, "utc": isoTime(t), "got_label": wl, "got_index": wi, "expected": o.wd.String(), "expected_index": isoIndex(o.wd)}
		})
	} else {
		k.setAdd("weekday_labels", fmt.Sprintf("%s=%s", wl, o.wd))
	}

	// unit functions: value(t) - value(base) == floor((t-base)/step); never decreasing
	var u [3]int64
	for i := 0; i < 3; i++ {
		u[i] = unitCall(i, t)
		exp := k.unit0[i] + (t-baseMs)/unitSteps[i]
		if u[i] != exp {
			i := i
			k.fail(unitNames[i]+":not-step-function", func() (string, interface{}) {
				return fmt.Sprintf("%s(%d) [%s] = %d; a step function with step %d ms that is %d at 2000-01-01 must be %d here (offset in step %d ms)",
						unitNames[i], t, isoTime(t), u[i], unitSteps[i], k.unit0[i], exp, (t-baseMs)%unitSteps[i]),
					map[string]interface{}{"helper": unitNames[i], "t_ms": t, "utc": isoTime(t), "got": u[i], "expected": exp, "step_ms": unitSteps[i], "value_at_base": k.unit0[i]}
			})
		}
		if k.haveLast && t >= k.lastT {
			if u[i] < k.lastU[i] {
				i := i
				lt, lu := k.lastT, k.lastU[i]
				k.fail(unitNames[i]+":not-monotone", func() (string, interface{}) {
					return fmt.Sprintf("%s decreases: %d at %d [%s] but %d at the later %d [%s]", unitNames[i], lu, lt, isoTime(lt), u[i], t, isoTime(t)),
						map[string]interface{}{"helper": unitNames[i], "t1_ms": lt, "v1": lu, "t2_ms": t, "v2": u[i]}
				})
			}
			if u[i] != k.lastU[i] {
				k.cnt["unit_changes_seen_"+unitNames[i]]++
				if t-k.lastT == 1 {
					k.cnt["unit_changes_seen_across_1ms_"+unitNames[i]]++
				}
			}
		}
	}
	k.haveLast, k.lastT, k.lastU = true, t, u
	for i := 0; i < 3; i++ {
		if ph := (t - baseMs) % unitSteps[i]; ph <= 1 || ph == unitSteps[i]-1 {
			k.cnt["instants_at_step_boundary_pm_1ms_"+unitNames[i]]++
		}
	}

	// GetYmdTime(YYYYMMDD(t)) == start of that UTC day
	dayStart := time.Date(o.y, time.Month(o.mo), o.d, 0, 0, 0, 0, time.UTC).UnixMilli()
	if len(gotDate) == 8 && allDigits(gotDate) {
		var back int64
		if p := vlib.Catch(func() { back = dateutil.GetYmdTime(gotDate) }); p != nil {
			k.fail("GetYmdTime:panic", func() (string, interface{}) {
				return fmt.Sprintf("GetYmdTime(%q) panicked: %v", gotDate, p), map[string]interface{}{"arg": gotDate, "t_ms": t, "panic": fmt.Sprint(p)}
			})
		} else if back != dayStart && gotDate == string(date) {
			k.fail("GetYmdTime:differs", func() (string, interface{}) {
				return fmt.Sprintf("GetYmdTime(YYYYMMDD(%d)=%q) = %d [%s], start of that day is %d [%s]", t, gotDate, back, isoTime(back), dayStart, isoTime(dayStart)),
					map[string]interface{}{"t_ms": t, "date": gotDate, "got": back, "expected": dayStart}
			})
		}
	}

	if o.ms < 100 {
		k.cnt["instants_with_millis_below_100"]++
	}
	if o.mo == 2 && o.d == 29 {
		k.cnt["instants_on_feb_29"]++
	}
	k.cnt["instants_checked"]++
	k.cnt["helper_calls"] += 11
	k.buf = b
}

// ---- DateFormat -----------------------------------------------------------------------

const fieldLetters = "ymdHMSs" // rank 0..6, highest order first
var fieldWidth = [7]int{4, 2, 2, 2, 2, 2, 3}

func rankOf(r rune) int { return strings.IndexRune(fieldLetters, r) }

// separators: anything that is not one of the seven field letters (ASCII punctuation, other
// letters, digits, multi-byte runes).
var separators = []rune("-/:. T_,|Z#@()[]'+*hxDY=;년월일시분초é€07")

// refFormat is the reference rendering of a pattern: field letters become zero-padded
// decimal fields of fixed width, every other rune is copied.
func refFormat(pat []rune, f fields) string {
	var b []byte
	for _, ch := range pat {
		if k := rankOf(ch); k >= 0 {
			b = putN(b, f.get(k), fieldWidth[k])
		} else {
			b = append(b, string(ch)...)
		}
	}
	return string(b)
}

func presentMask(pat []rune) (m uint8) {
	for _, ch := range pat {
		if k := rankOf(ch); k >= 0 {
			m |= 1 << uint(k)
		}
	}
	return
}

// classOf: "full" (all seven), "prefix" (the k highest-order fields, k<7: every absent field
// is of lower order than every present one), "time-only" (no date field at all: the defaulted
// date is today's, always a valid date, and cannot disturb the time fields), "" otherwise.
func classOf(m uint8) string {
	switch {
	case m == 0x7f:
		return "full"
	case m != 0 && m&(m+1) == 0:
		return "prefix"
	case m != 0 && m&0x07 == 0:
		return "time-only"
	}
	return ""
}

func genPattern(r *vlib.Rand, mask uint8) []rune {
	var fs []rune
	for k := 0; k < 7; k++ {
		if mask&(1<<uint(k)) != 0 {
			fs = append(fs, rune(fieldLetters[k]))
		}
	}
	if r.Chance(1, 2) {
		r.Shuffle(len(fs), func(i, j int) { fs[i], fs[j] = fs[j], fs[i] })
	}
	if r.Chance(1, 8) { // a field letter used twice
		fs = append(fs, fs[r.Intn(len(fs))])
		if r.Bool() {
			r.Shuffle(len(fs), func(i, j int) { fs[i], fs[j] = fs[j], fs[i] })
		}
	}
	sep := func(max int) []rune {
		n := r.Intn(max + 1)
		out := make([]rune, n)
		for i := range out {
			if r.Chance(3, 4) {
				out[i] = separators[r.Intn(10)] // the usual punctuation
			} else {
				out[i] = separators[r.Intn(len(separators))]
			}
		}
		return out
	}
	var pat []rune
	if r.Chance(1, 4) {
		pat = append(pat, sep(2)...)
	}
	dense := r.Chance(1, 4) // no separators at all between fields
	for i, f := range fs {
		if i > 0 && !dense {
			pat = append(pat, sep(2)...)
		}
		pat = append(pat, f)
	}
	if r.Chance(1, 4) {
		pat = append(pat, sep(2)...)
	}
	return pat
}

// fmtChecker round-trips patterns. loc is the process's local zone at the time of the call
// (nil = UTC): Parse builds the instant in that zone, so the instant is formatted there too.
// The calendar oracle stays in UTC: the local wall clock of an instant x is oracle(x+off(x)),
// with off(x) the zone offset the standard library's zone database gives for x.
type fmtChecker struct {
	k     *checker
	loc   *time.Location
	fixed bool // loc has one offset over the whole century (no transitions)
}

// wallMs returns x shifted by loc's offset at x: the UTC instant whose UTC fields are the local
// wall-clock fields of x.
func (fc *fmtChecker) wallMs(x int64) int64 {
	if fc.loc == nil {
		return x
	}
	_, off := time.UnixMilli(x).In(fc.loc).Zone()
	return x + int64(off)*1000
}

// roundTrip formats t with df (pattern pat), parses the text back with the same pattern and
// checks what the class allows. Returns the formatted text.
func (fc *fmtChecker) roundTrip(df *dateutil.DateFormat, pat []rune, class string, mask uint8, t int64) string {
	k := fc.k
	o := oracle(t)
	tm := time.UnixMilli(t).UTC()
	if fc.loc != nil {
		// an explicit time.Time carries its own location: FormatTime of the UTC value must not
		// depend on the process's zone
		if text, exp := df.FormatTime(tm), refFormat(pat, o); text != exp {
			k.fail("DateFormat:format-differs", func() (string, interface{}) {
				return fmt.Sprintf("pattern %q with local zone %s: FormatTime(%s) = %q, field-by-field rendering is %q", string(pat), fc.loc, isoTime(t), text, exp),
					map[string]interface{}{"pattern": string(pat), "t_ms": t, "utc": isoTime(t), "got": text, "expected": exp, "zone": fc.loc.String()}
			})
			return text
		}
		k.cnt["state_format_of_utc_time_under_other_zone"]++
		tm = time.UnixMilli(t).In(fc.loc)
		o = oracle(fc.wallMs(t))
		if class != "full" && !fc.fixed {
			// a defaulted lower-order field can fall into a zone transition and renormalise
			// the fields present; only the formatting is checked
			if text, exp := df.FormatTime(tm), refFormat(pat, o); text != exp {
				k.fail("DateFormat:format-differs", func() (string, interface{}) {
					return fmt.Sprintf("pattern %q in zone %s: FormatTime(%s) = %q, field-by-field rendering of the local wall clock is %q", string(pat), fc.loc, isoTime(t), text, exp),
						map[string]interface{}{"pattern": string(pat), "t_ms": t, "utc": isoTime(t), "got": text, "expected": exp, "zone": fc.loc.String()}
				})
			}
			k.cnt["state_partial_pattern_format_only_in_zone_with_transitions"]++
			return ""
		}
	}
	text := df.FormatTime(tm)
	if exp := refFormat(pat, o); text != exp {
		k.fail("DateFormat:format-differs", func() (string, interface{}) {
			return fmt.Sprintf("pattern %q: FormatTime(%s) = %q, field-by-field rendering is %q", string(pat), isoTime(t), text, exp),
				map[string]interface{}{"pattern": string(pat), "t_ms": t, "utc": isoTime(t), "got": text, "expected": exp}
		})
		return text
	}
	p, err := df.Parse(text)
	k.cnt["format_parse_round_trips"]++
	k.cnt["format_parse_round_trips_"+class]++
	if err != nil {
		k.fail("DateFormat:parse-error/"+class, func() (string, interface{}) {
			return fmt.Sprintf("pattern %q: Parse(%q) (its own Format output for %s) failed: %v", string(pat), text, isoTime(t), err),
				map[string]interface{}{"pattern": string(pat), "t_ms": t, "text": text, "error": err.Error()}
		})
		return text
	}
	bad := ""
	if class == "full" {
		if p != t {
			// in a zone with transitions a wall-clock time can name two instants (clocks set
			// back): either is a correct parse, the wall clock itself must be the same
			if fc.loc != nil && !fc.fixed && fc.wallMs(p) == fc.wallMs(t) {
				k.cnt["state_parse_chose_other_instant_of_repeated_wall_clock"]++
			} else {
				bad = fmt.Sprintf("parsed instant %d [%s] != %d", p, isoTime(p), t)
			}
		}
	} else {
		if p < baseMs-400*msDay || p > endMs+400*msDay {
			bad = fmt.Sprintf("parsed instant %d is outside any plausible range", p)
		} else {
			po := oracle(fc.wallMs(p))
			for r := 0; r < 7 && bad == ""; r++ {
				if mask&(1<<uint(r)) == 0 {
					continue
				}
				ok := po.get(r) == o.get(r)
				// month present, day absent: the defaulted day (today's day of month, up to 31)
				// may not exist in a shorter month and then legitimately rolls into the next
				// one. Accept exactly that, so that the verdict does not depend on the date
				// of the run.
				if !ok && r == 1 && mask&0x04 == 0 {
					dl := daysIn(o.y, o.mo)
					ok = dl < 31 && po.mo == o.mo+1 && po.d <= 31-dl
					if ok {
						k.cnt["format_month_rolled_by_defaulted_day"]++
					}
				}
				if !ok {
					bad = fmt.Sprintf("field %q was %d, after Parse it is %d (parsed instant %d [%s])", fieldLetters[r], o.get(r), po.get(r), p, isoTime(p))
				}
			}
		}
	}
	if bad != "" {
		k.fail("DateFormat:parse-not-inverse/"+class, func() (string, interface{}) {
			return fmt.Sprintf("pattern %q: Format(%s) = %q, Parse of that: %s", string(pat), isoTime(t), text, bad),
				map[string]interface{}{"pattern": string(pat), "class": class, "t_ms": t, "utc": isoTime(t), "text": text, "parsed_ms": p, "parsed_utc": isoTime(p), "zone": time.Local.String()}
		})
	}
	return text
}

// ---- instants -------------------------------------------------------------------------

var fixedOffsets = []int64{0, 1, 5, 45, 12*msHour - 1, 12 * msHour, msDay - 1}

// dayInstants returns the sorted, duplicate-free instants checked for one day.
func dayInstants(dst []int64, dayStart int64, minutes bool) []int64 {
	dst = dst[:0]
	if !minutes {
		for _, off := range fixedOffsets {
			dst = append(dst, dayStart+off)
		}
		return dst
	}
	// every minute boundary b of the day: b, b+1 and (next boundary)-1; plus the fixed
	// instants that are not of that form (.005 and .045)
	for m := int64(0); m < 1440; m++ {
		b := dayStart + m*msMin
		dst = append(dst, b, b+1)
		if m == 0 {
			dst = append(dst, b+5, b+45)
		}
		dst = append(dst, b+msMin-1)
	}
	return dst
}

// sweptInQuick: the stratified subset of days whose minute boundaries are swept in the quick
// tier: one seed-chosen day in every month of the century, plus the days around every
// February/March and December/January change.
func sweptInQuick(seed uint64, o fields) bool {
	if (o.mo == 2 && o.d >= 28) || (o.mo == 3 && o.d == 1) || (o.mo == 12 && o.d == 31) || (o.mo == 1 && o.d == 1) {
		return true
	}
	pick := int(vlib.Mix(seed^uint64(o.y*16+o.mo)*0x9e3779b97f4a7c15)%uint64(daysIn(o.y, o.mo))) + 1
	return o.d == pick
}

func randomInstant(r *vlib.Rand) int64 {
	span := uint64(endMs - baseMs)
	t := baseMs + int64(r.U64()%span)
	switch r.Intn(10) {
	case 0, 1: // around a day boundary
		t = t - (t-baseMs)%msDay + int64(r.Intn(4001)) - 2000
	case 2: // around a five-minute boundary
		t = t - (t-baseMs)%msFive + int64(r.Intn(5)) - 2
	case 3: // milliseconds at the padding edges
		e := []int64{0, 1, 9, 10, 11, 99, 100, 101, 999}
		t = t - (t-baseMs)%msSec + e[r.Intn(len(e))]
	case 4: // milliseconds below 100
		t = t - (t-baseMs)%msSec + int64(r.Intn(100))
	}
	if t < baseMs {
		t = baseMs
	}
	if t >= endMs {
		t = endMs - 1
	}
	return t
}

var canonical = []string{"ymdHMSs", "y-m-d H:M:S.s", "y/m/d", "ymd", "H:M:S.s", "y-m-dTH:M"}

func main() {
	// Parse builds the instant in the process's local zone and the property is stated in
	// UTC: the worker runs with local time = UTC (config.json also sets TZ=UTC).
	time.Local = time.UTC
	c := vlib.Start("C19")
	if _, off := time.Now().Zone(); off != 0 {
		c.Inconclusive("setup", "local time zone is not UTC")
		c.Finish()
		return
	}
	// the enumeration itself: day i starts at base + i*86400000 and the last day is 2099-12-31
	for _, i := range []int{0, 59, 60, 365, 366, 36524} {
		if time.Date(2000, 1, 1+i, 0, 0, 0, 0, time.UTC).UnixMilli() != baseMs+int64(i)*msDay {
			panic("day enumeration is not uniform")
		}
	}
	if endMs-baseMs != numDays*msDay || isoTime(endMs-1) != "2099-12-31T23:59:59.999Z" {
		panic("century bounds")
	}

	k := newChecker(c)
	fc := &fmtChecker{k: k}
	full := c.Only == ""

	// ---- every day of the century ------------------------------------------------------
	type canon struct {
		pat   []rune
		class string
		mask  uint8
		df    *dateutil.DateFormat
	}
	var canons []canon
	for _, p := range canonical {
		pr := []rune(p)
		m := presentMask(pr)
		canons = append(canons, canon{pr, classOf(m), m, dateutil.NewDateFormat(p)})
	}
	var inst []int64
	daySamples := 0
	k.resetOrder()
	c.Cases("day", numDays, func(i int, r *vlib.Rand) {
		dayStart := baseMs + int64(i)*msDay
		o := oracle(dayStart)
		minutes := c.Thorough() || sweptInQuick(c.Seed, o)
		inst = dayInstants(inst, dayStart, minutes)
		for _, t := range inst {
			k.check(t)
		}
		c.Eval(int64(len(inst)) - 1) // Cases itself adds one
		c.DistinctEnum(int64(len(inst)))
		k.cnt["days_enumerated"]++
		k.setAdd("month_lengths_seen", fmt.Sprintf("%02d:%d", o.mo, daysIn(o.y, o.mo)))
		if minutes {
			k.cnt["days_with_every_minute_boundary"]++
			k.cnt["minute_boundaries_checked_pm_1ms"] += 1440
		}
		// GetYmdTime on the reference date string, independently of YYYYMMDD
		ds := string(putN(putN(putN(nil, o.y, 4), o.mo, 2), o.d, 2))
		var back int64
		if p := vlib.Catch(func() { back = dateutil.GetYmdTime(ds) }); p != nil || back != dayStart {
			k.fail("GetYmdTime:differs", func() (string, interface{}) {
				return fmt.Sprintf("GetYmdTime(%q) = %d (panic: %v), start of that day is %d", ds, back, p, dayStart),
					map[string]interface{}{"date": ds, "got": back, "expected": dayStart, "panic": fmt.Sprint(p)}
			})
		}
		// canonical patterns at the seven fixed instants
		for _, off := range fixedOffsets {
			for _, cn := range canons {
				fc.roundTrip(cn.df, cn.pat, cn.class, cn.mask, dayStart+off)
			}
		}
		if daySamples < 2 && c.WantSample() {
			daySamples++
			t := dayStart + 45
			c.Sample(map[string]interface{}{"section": "day", "t_ms": t, "utc": isoTime(t), "YYYYMMDD": dateutil.YYYYMMDD(t),
				"DateTime": dateutil.DateTime(t), "TimeStamp": dateutil.TimeStamp(t), "Ymdhms": dateutil.Ymdhms(t),
				"WeekDay": dateutil.WeekDay(t), "std_weekday": o.wd.String(), "HHMMSS": dateutil.HHMMSS(t), "HHMM": dateutil.HHMM(t),
				"GetDateUnit": dateutil.GetDateUnit(t), "GetFiveMinUnit": dateutil.GetFiveMinUnit(t), "GetMinUnit": dateutil.GetMinUnit(t),
				"GetYmdTime(YYYYMMDD)": dateutil.GetYmdTime(dateutil.YYYYMMDD(t)), "instants_this_day": len(inst)})
		}
		if i%256 == 0 {
			k.flush()
		}
	})
	k.flush()
	if full {
		c.Exhaustive("every day 2000-01-01..2099-12-31 (36525 days, sharded by day index) at 00:00:00.000/.001/.005/.045, 11:59:59.999, 12:00:00.000, 23:59:59.999")
		if c.Thorough() {
			c.Exhaustive("every minute boundary of every day of 2000-2099 at -1 ms, 0, +1 ms")
		}
	}

	// ---- random instants ---------------------------------------------------------------
	const block = 10000
	ts := make([]int64, block)
	c.Cases("rand", c.N(200000, 10000000)/block, func(i int, r *vlib.Rand) {
		for j := range ts {
			ts[j] = randomInstant(r)
		}
		sort.Slice(ts, func(a, b int) bool { return ts[a] < ts[b] })
		k.resetOrder()
		for _, t := range ts {
			k.check(t)
			c.Distinct(vlib.Mix(uint64(t)))
		}
		k.cnt["random_instants"] += block
		c.Eval(block - 1)
		if i < 3 && c.WantSample() {
			t := ts[block/2]
			c.Sample(map[string]interface{}{"section": "rand", "t_ms": t, "utc": isoTime(t), "TimeStamp": dateutil.TimeStamp(t),
				"Ymdhms": dateutil.Ymdhms(t), "WeekDay": dateutil.WeekDay(t), "GetMinUnit": dateutil.GetMinUnit(t)})
		}
		k.flush()
	})

	// ---- the same helper oracle from many goroutines at once -------------------------------
	// The helpers are pure functions of the instant: concurrent callers with different instants
	// must each get their own answer (a shared scratch buffer or cache would show only here).
	c.ParallelCases("helpers-parallel", c.N(8*16, 64*16), 8, func(i int, r *vlib.Rand) {
		kk := newChecker(c)
		const per = 4000
		for j := 0; j < per; j++ {
			kk.resetOrder()
			kk.check(randomInstant(r))
		}
		kk.cnt["instants_checked_by_concurrent_callers"] += per
		kk.flush()
		c.Eval(per - 1)
		c.DistinctEnum(1)
	})

	// ---- DateFormat: generated patterns -------------------------------------------------
	const perPattern = 64
	c.Cases("fmt", c.N(4000, 200000), func(i int, r *vlib.Rand) {
		var mask uint8
		switch r.Intn(10) {
		case 0, 1, 2, 3, 4: // full
			mask = 0x7f
		case 5, 6, 7: // the k highest-order fields
			mask = uint8(1)<<uint(r.Range(1, 6)) - 1
		default: // time fields only
			mask = uint8(r.Range(1, 15)) << 3
		}
		pat := genPattern(r, mask)
		class := classOf(mask)
		ps := string(pat)
		reuse := r.Bool()
		df := dateutil.NewDateFormat(ps)
		sampleText := ""
		var sampleT int64
		for j := 0; j < perPattern; j++ {
			t := randomInstant(r)
			if !reuse {
				df = dateutil.NewDateFormat(ps)
			}
			txt := fc.roundTrip(df, pat, class, mask, t)
			if j == 0 {
				sampleText, sampleT = txt, t
			}
			c.Distinct(vlib.HashStr(ps) ^ vlib.Mix(uint64(t)))
		}
		c.Eval(perPattern - 1)
		k.cnt["patterns_generated"]++
		k.cnt["patterns_"+class]++
		if reuse {
			k.cnt["patterns_with_one_DateFormat_object_reused"]++
		}
		k.setAdd("pattern_field_sets", func() string {
			s := ""
			for q := 0; q < 7; q++ {
				if mask&(1<<uint(q)) != 0 {
					s += string(fieldLetters[q])
				}
			}
			return class + ":" + s
		}())
		for _, ch := range pat {
			if rankOf(ch) < 0 {
				k.setAdd("literal_separators_used", string(ch))
			}
		}
		if i < 40 && i%8 == 0 && c.WantSample() {
			c.Sample(map[string]interface{}{"section": "fmt", "pattern": ps, "class": class, "t_ms": sampleT, "utc": isoTime(sampleT), "formatted": sampleText})
		}
		if i%64 == 0 {
			k.flush()
		}
	})
	k.flush()

	// ---- the same slices under non-default process-wide state (state.go) -----------------
	st := newStater(c, k)
	st.sequential(c.N(18*16, 18*16*8))
	st.parallel(c.N(3, 12), 4*16)
	st.syncMode(c.N(16, 64)) // last: leaves the package in sync-time mode
	k.flush()

	if c.Shard == 0 {
		c.Note("process-wide state: the correction set by SetDelta/SetServerTime, the local zone and the sync-time mode are varied in the state* sections; helpers with an explicit instant keep the UTC oracle, Now/TimeStampNow/YmdNow/GetDateUnitNow are bracketed by SystemNow()+correction read before and after the call; DateFormat is formatted and parsed in the local zone (oracle: UTC calendar of instant+offset, offset from the standard library's zone database), partial patterns only in zones without transitions")
		c.Note("weekday labels are compared as day indices (Monday=0, identified by the first two letters of the English name); the helper spells Thursday \"Thr\" — recorded in weekday_labels, not a calendar disagreement")
		c.Note("partial patterns: Parse documents that absent fields default to the current time, so only the fields present are compared, and only for field sets whose defaults cannot disturb them (the k highest-order fields; time fields only). The property's 'truncated to the fields present' reading is not demanded for absent fields")
	}
	if full {
		c.Floor("days_enumerated", 200, c.Counter("days_enumerated"))
		c.Floor("instants_checked", 2000, c.Counter("instants_checked"))
		c.Floor("instants_with_millis_below_100", 500, c.Counter("instants_with_millis_below_100"))
		c.Floor("format_parse_round_trips", 2000, c.Counter("format_parse_round_trips"))
		c.Floor("unit_changes_seen_across_1ms_GetMinUnit", 1000, c.Counter("unit_changes_seen_across_1ms_GetMinUnit"))
		// process-wide state (per shard: 18 cases of about 1600 instants, 2 per correction value)
		for _, cr := range corrections {
			c.Floor("state_instants_correction_"+cr.label, 300, c.Counter("state_instants_correction_"+cr.label))
		}
		for _, sn := range setterNames {
			c.Floor("state_instants_setter_"+sn, 1400, c.Counter("state_instants_setter_"+sn))
		}
		for _, zn := range zoneNames {
			c.Floor("state_instants_zone_"+zn, 150, c.Counter("state_instants_zone_"+zn))
		}
		c.Floor("state_instants_with_nonzero_correction", 2800, c.Counter("state_instants_with_nonzero_correction"))
		c.Floor("state_instants_where_the_correction_crosses_a_step_edge_GetDateUnit", 500, c.Counter("state_instants_where_the_correction_crosses_a_step_edge_GetDateUnit"))
		c.Floor("state_format_parse_round_trips", 300, c.Counter("state_format_parse_round_trips"))
		c.Floor("state_now_helper_calls_bracketed", 50, c.Counter("state_now_helper_calls_bracketed"))
		c.Floor("state_instants_checked_by_concurrent_callers", 2000, c.Counter("state_instants_checked_by_concurrent_callers"))
		c.Floor("state_sync_instants_checked_while_the_ticker_runs", 150, c.Counter("state_sync_instants_checked_while_the_ticker_runs"))
	}
	c.Finish()
}
