// driver: builds the worker of one property from /repo's current working tree, runs it in
// child processes (one per shard and build flavour), attributes process-fatal events through
// the journal, parses race-detector logs, applies known findings, writes the evidence file
// and prints VIOLATION / KNOWN-FINDING / INCONCLUSIVE lines.
//
//	driver C07 quick|thorough
//	driver C07 --replay <path>
package main

import (
	"bufio"
	"context"
	"encoding/binary"
	"encoding/json"
	"fmt"
	"os"
	"os/exec"
	"os/signal"
	"path/filepath"
	"regexp"
	"sort"
	"strconv"
	"strings"
	"sync"
	"syscall"
	"time"

	"verif/vlib"
)

type flavour struct {
	Name      string        `json:"name"`       // plain | race | checkptr
	BuildArgs []string      `json:"build_args"` // extra go build args (defaults from the name)
	Shards    int           `json:"shards"`
	Env       []string      `json:"env"`
	UlimitVKB int64         `json:"ulimit_v_kb"` // address-space limit for the child (0 = none)
	TimeoutQS int           `json:"timeout_quick_s"`
	TimeoutTS int           `json:"timeout_thorough_s"`
	TimeoutQ  time.Duration `json:"-"`
	TimeoutT  time.Duration `json:"-"`
}

type propCfg struct {
	Level       string    `json:"level"`
	Flavours    []flavour `json:"flavours"`
	Assumptions []string  `json:"assumptions"`
	Rule        string    `json:"rule"`
}

// loadCfg reads harness/cmd/w<PROP>/config.json (kept next to the worker it configures).
func loadCfg(prop string) (propCfg, error) {
	var c propCfg
	b, err := os.ReadFile(filepath.Join(root(), "harness", "cmd", "w"+prop, "config.json"))
	if err != nil {
		return c, err
	}
	if err := json.Unmarshal(b, &c); err != nil {
		return c, err
	}
	if c.Level == "" {
		c.Level = "exploration"
	}
	if len(c.Flavours) == 0 {
		c.Flavours = []flavour{{Name: "plain", Shards: 8}}
	}
	for i := range c.Flavours {
		f := &c.Flavours[i]
		if f.Shards <= 0 {
			f.Shards = 1
		}
		if f.TimeoutQS <= 0 {
			f.TimeoutQS = 600
		}
		if f.TimeoutTS <= 0 {
			f.TimeoutTS = 3600
		}
		f.TimeoutQ = time.Duration(f.TimeoutQS) * time.Second
		f.TimeoutT = time.Duration(f.TimeoutTS) * time.Second
		if f.BuildArgs == nil {
			switch f.Name {
			case "race":
				f.BuildArgs = []string{"-race"}
			case "checkptr":
				f.BuildArgs = []string{"-gcflags=all=-d=checkptr"}
			}
		}
	}
	return c, nil
}

func root() string { return vlib.VerifRoot() }

func goEnv() []string {
	env := os.Environ()
	env = append(env, "GOFLAGS=-mod=mod", "GOPROXY=off", "GOSUMDB=off", "GOTOOLCHAIN=local", "CGO_ENABLED=1")
	return env
}

// modfileArgs: development aid. VERIF_REPO=<dir> builds the worker against another copy of
// golib (a scratch worktree carrying a seeded change) without touching /repo; the registered
// checks never set it and always build from /repo.
func modfileArgs() []string {
	alt := os.Getenv("VERIF_REPO")
	if alt == "" {
		return nil
	}
	h := filepath.Join(root(), "harness")
	name := fmt.Sprintf("alt-%016x", vlib.HashStr(alt))
	mod := filepath.Join(root(), "work", "altmod", name+".mod")
	os.MkdirAll(filepath.Dir(mod), 0o755)
	b, _ := os.ReadFile(filepath.Join(h, "go.mod"))
	os.WriteFile(mod, []byte(strings.Replace(string(b), "=> /repo", "=> "+alt, 1)), 0o644)
	sum, _ := os.ReadFile(filepath.Join(h, "go.sum"))
	os.WriteFile(filepath.Join(root(), "work", "altmod", name+".sum"), sum, 0o644)
	return []string{"-modfile=" + mod}
}

func build(prop string, fl flavour, bin string) error {
	args := []string{"build", "-tags", "verif"}
	args = append(args, modfileArgs()...)
	args = append(args, fl.BuildArgs...)
	args = append(args, "-o", bin, "./cmd/w"+prop)
	cmd := exec.Command("go", args...)
	cmd.Dir = filepath.Join(root(), "harness")
	cmd.Env = goEnv()
	out, err := cmd.CombinedOutput()
	if err != nil {
		return fmt.Errorf("go %s: %v\n%s", strings.Join(args, " "), err, out)
	}
	return nil
}

type childOutcome struct {
	res      *vlib.Result
	fatal    bool
	timedOut bool
	stderr   string
	lastCase string
	lastKey  string
	userCPU  time.Duration
	exit     int
}

func runChild(bin string, prop, tier string, seed uint64, fl flavour, shard int, outDir string, skip []string, only string, timeout time.Duration) childOutcome {
	os.MkdirAll(outDir, 0o755)
	os.Remove(filepath.Join(outDir, "result.json"))
	os.Remove(filepath.Join(outDir, "journal"))
	args := []string{"-tier", tier, "-seed", strconv.FormatUint(seed, 10), "-out", outDir,
		"-shard", strconv.Itoa(shard), "-nshards", strconv.Itoa(fl.Shards), "-flavour", fl.Name}
	if len(skip) > 0 {
		args = append(args, "-skip", strings.Join(skip, ","))
	}
	if only != "" {
		args = append(args, "-only", only)
	}
	ctx, cancel := context.WithCancel(context.Background())
	defer cancel()
	var cmd *exec.Cmd
	if fl.UlimitVKB > 0 {
		sh := fmt.Sprintf("ulimit -v %d; exec \"$0\" \"$@\"", fl.UlimitVKB)
		cmd = exec.CommandContext(ctx, "sh", append([]string{"-c", sh, bin}, args...)...)
	} else {
		cmd = exec.CommandContext(ctx, bin, args...)
	}
	cmd.Dir = outDir
	env := append(os.Environ(), "VERIF_ROOT="+root())
	env = append(env, fl.Env...)
	if fl.Name == "race" {
		env = append(env, "GORACE=halt_on_error=0 history_size=3 log_path="+filepath.Join(outDir, "race"))
	}
	cmd.Env = env
	so, _ := os.Create(filepath.Join(outDir, "stdout"))
	se, _ := os.Create(filepath.Join(outDir, "stderr"))
	cmd.Stdout, cmd.Stderr = so, se
	cmd.SysProcAttr = &syscall.SysProcAttr{Setpgid: true}
	var oc childOutcome
	if err := cmd.Start(); err != nil {
		oc.fatal = true
		oc.stderr = err.Error()
		return oc
	}
	liveChildren.Store(cmd.Process.Pid, true)
	defer liveChildren.Delete(cmd.Process.Pid)
	done := make(chan error, 1)
	go func() { done <- cmd.Wait() }()
	var err error
	select {
	case err = <-done:
	case <-time.After(timeout):
		oc.timedOut = true
		syscall.Kill(-cmd.Process.Pid, syscall.SIGQUIT)
		select {
		case err = <-done:
		case <-time.After(20 * time.Second):
			syscall.Kill(-cmd.Process.Pid, syscall.SIGKILL)
			err = <-done
		}
	}
	so.Close()
	se.Close()
	if cmd.ProcessState != nil {
		oc.userCPU = cmd.ProcessState.UserTime()
		oc.exit = cmd.ProcessState.ExitCode()
	}
	_ = err
	if b, e := os.ReadFile(filepath.Join(outDir, "result.json")); e == nil {
		var r vlib.Result
		if json.Unmarshal(b, &r) == nil && r.Completed {
			oc.res = &r
		}
	}
	if oc.res == nil {
		oc.fatal = !oc.timedOut
		oc.stderr = tail(filepath.Join(outDir, "stderr"), 200)
		if j, e := os.ReadFile(filepath.Join(outDir, "journal")); e == nil {
			lines := strings.Split(strings.TrimRight(string(j), "\n"), "\n")
			if len(lines) > 0 {
				parts := strings.SplitN(lines[len(lines)-1], "\t", 2)
				oc.lastCase = parts[0]
				if len(parts) > 1 {
					oc.lastKey = parts[1]
				}
			}
		}
	}
	return oc
}

// liveChildren: process groups of the children currently running. When the driver itself is
// told to stop (a timeout wrapper, an interrupted sweep) it takes them with it, so that no worker
// keeps running — and loading the machine — without a driver to read its result.
var liveChildren sync.Map

func killChildrenOnSignal() {
	ch := make(chan os.Signal, 1)
	signal.Notify(ch, syscall.SIGTERM, syscall.SIGINT, syscall.SIGHUP)
	go func() {
		sg := <-ch
		liveChildren.Range(func(k, _ interface{}) bool {
			syscall.Kill(-k.(int), syscall.SIGKILL)
			return true
		})
		fmt.Fprintf(os.Stderr, "driver: stopped by %v, children killed; no verdict\n", sg)
		os.Exit(2)
	}()
}

func tail(path string, n int) string {
	b, err := os.ReadFile(path)
	if err != nil {
		return ""
	}
	lines := strings.Split(string(b), "\n")
	if len(lines) > 4000 {
		// keep the head (fatal message) and the tail
		lines = append(lines[:n], lines[len(lines)-n:]...)
	}
	if len(lines) > 2*n {
		lines = append(lines[:n], lines[len(lines)-n:]...)
	}
	return strings.Join(lines, "\n")
}

var fatalRe = regexp.MustCompile(`(?m)^(fatal error: [^\n]*|panic: [^\n]*|runtime: [^\n]*out of memory[^\n]*|SIGQUIT[^\n]*|signal: [^\n]*)`)

func fatalKind(stderr string, exit int) string {
	mm := fatalRe.FindString(stderr)
	if mm == "" {
		return fmt.Sprintf("exit-%d", exit)
	}
	// normalise numbers and addresses
	mm = regexp.MustCompile(`0x[0-9a-f]+|\d+`).ReplaceAllString(mm, "N")
	if len(mm) > 80 {
		mm = mm[:80]
	}
	return mm
}

// ---- race log parsing -------------------------------------------------------------

type raceReport struct {
	Key    string
	Sites  []string // "race-site:<innermost golib frame>" of each access
	Stacks string
}

var accessRe = regexp.MustCompile(`^(Read|Write|Previous read|Previous write|Atomic read|Atomic write|Previous atomic read|Previous atomic write) at 0x[0-9a-f]+ by (goroutine \d+|main goroutine):`)

func parseRaceLogs(dir string) (raw int, reports []raceReport) {
	files, _ := filepath.Glob(filepath.Join(dir, "race.*"))
	for _, f := range files {
		b, err := os.ReadFile(f)
		if err != nil {
			continue
		}
		blocks := strings.Split(string(b), "==================")
		for _, blk := range blocks {
			if !strings.Contains(blk, "WARNING: DATA RACE") {
				continue
			}
			raw++
			lines := strings.Split(blk, "\n")
			var stacks [][]string
			cur := -1
			for _, ln := range lines {
				if accessRe.MatchString(ln) {
					stacks = append(stacks, nil)
					cur = len(stacks) - 1
					continue
				}
				if strings.HasPrefix(ln, "Goroutine ") {
					cur = -1
					continue
				}
				if cur >= 0 {
					if strings.TrimSpace(ln) == "" {
						cur = -1
						continue
					}
					if strings.HasPrefix(ln, "  ") && !strings.HasPrefix(ln, "      ") {
						fn := strings.TrimSpace(ln)
						if i := strings.LastIndex(fn, "("); i > 0 && strings.HasSuffix(fn, ")") {
							fn = fn[:i]
						}
						stacks[cur] = append(stacks[cur], fn)
					}
				}
			}
			var inner []string
			for _, st := range stacks {
				pick := ""
				for _, fn := range st {
					if strings.Contains(fn, "github.com/whatap/golib/") {
						pick = strings.TrimPrefix(fn, "github.com/whatap/golib/")
						break
					}
				}
				if pick == "" && len(st) > 0 {
					pick = st[0]
				}
				inner = append(inner, pick)
			}
			sort.Strings(inner)
			key := "race:" + strings.Join(inner, "|")
			var sites []string
			for _, f := range inner {
				sites = append(sites, "race-site:"+f)
			}
			reports = append(reports, raceReport{Key: key, Sites: sites, Stacks: strings.TrimSpace(blk)})
		}
	}
	return
}

// ---- main -------------------------------------------------------------------------

type merged struct {
	mu           sync.Mutex
	evals        int64
	distinctEnum int64
	distinct     map[uint64]struct{}
	counters     map[string]int64
	sets         map[string]map[string]struct{}
	samples      []interface{}
	sampleSeen   map[string]bool
	violations   map[string]*vlib.Violation
	known        map[string]*vlib.KnownSeen
	inconclusive []vlib.Inconclusive
	floors       map[string]*vlib.Floor
	exhaustive   map[string]bool
	notes        []string
	children     int
	fatals       int
}

func (mg *merged) add(r *vlib.Result) {
	mg.mu.Lock()
	defer mg.mu.Unlock()
	mg.children++
	mg.evals += r.Evaluations
	mg.distinctEnum += r.DistinctN
	if b, err := os.ReadFile(r.DistinctFile); err == nil {
		for i := 0; i+8 <= len(b); i += 8 {
			mg.distinct[binary.LittleEndian.Uint64(b[i:])] = struct{}{}
		}
	}
	for k, v := range r.Counters {
		if strings.HasPrefix(k, "max_") {
			if v > mg.counters[k] {
				mg.counters[k] = v
			}
		} else {
			mg.counters[k] += v
		}
	}
	for s, l := range r.Sets {
		mm := mg.sets[s]
		if mm == nil {
			mm = map[string]struct{}{}
			mg.sets[s] = mm
		}
		for _, e := range l {
			mm[e] = struct{}{}
		}
	}
	for _, s := range r.Samples {
		js, _ := json.Marshal(s)
		if len(mg.samples) < 8 && !mg.sampleSeen[string(js)] {
			mg.sampleSeen[string(js)] = true
			mg.samples = append(mg.samples, s)
		}
	}
	for i := range r.Violations {
		v := r.Violations[i]
		if o := mg.violations[v.Key]; o != nil {
			o.Count += v.Count
		} else {
			mg.violations[v.Key] = &v
		}
	}
	for i := range r.Known {
		k := r.Known[i]
		if o := mg.known[k.Key]; o != nil {
			o.Count += k.Count
		} else {
			mg.known[k.Key] = &k
		}
	}
	mg.inconclusive = append(mg.inconclusive, r.Inconclusive...)
	for i := range r.Floors {
		f := r.Floors[i]
		if o := mg.floors[f.Name]; o != nil {
			o.Got += f.Got
			o.Min += f.Min
		} else {
			mg.floors[f.Name] = &f
		}
	}
	for _, e := range r.Exhaustive {
		mg.exhaustive[e] = true
	}
	mg.notes = append(mg.notes, r.Notes...)
}

func (mg *merged) fail(prop string, known map[string]vlib.KnownFinding, key, what string, detail interface{}, seed uint64) {
	mg.mu.Lock()
	defer mg.mu.Unlock()
	if k, ok := known[key]; ok {
		if o := mg.known[key]; o != nil {
			o.Count++
		} else {
			mg.known[key] = &vlib.KnownSeen{Key: key, What: k.What, Count: 1}
		}
		return
	}
	if o := mg.violations[key]; o != nil {
		o.Count++
		return
	}
	dir := filepath.Join(root(), "work", "replay")
	os.MkdirAll(dir, 0o755)
	p := filepath.Join(dir, fmt.Sprintf("%s-driver-s%d-%016x.json", prop, seed, vlib.HashStr(key)))
	b, _ := json.MarshalIndent(map[string]interface{}{"property": prop, "key": key, "what": what, "seed": seed, "detail": detail}, "", " ")
	os.WriteFile(p, b, 0o644)
	mg.violations[key] = &vlib.Violation{Key: key, What: what, Replay: p, Count: 1}
}

func main() {
	killChildrenOnSignal()
	if len(os.Args) < 3 {
		fmt.Fprintln(os.Stderr, "usage: driver <PROP> quick|thorough | driver <PROP> --replay <path>")
		os.Exit(3)
	}
	prop := os.Args[1]
	tier := os.Args[2]
	cfg, cerr := loadCfg(prop)
	if cerr != nil {
		fmt.Fprintf(os.Stderr, "no configuration for property %s: %v\n", prop, cerr)
		os.Exit(3)
	}
	seed := uint64(1)
	if s := os.Getenv("VERIF_SEED"); s != "" {
		if v, err := strconv.ParseUint(s, 10, 64); err == nil {
			seed = v
		} else if v, err := strconv.ParseInt(s, 10, 64); err == nil {
			seed = uint64(v)
		}
	}
	if t := os.Getenv("VERIF_TIER"); t == "quick" || t == "thorough" {
		if tier != "--replay" {
			tier = t
		}
	}
	start := time.Now()
	workDir := filepath.Join(root(), "work", prop+os.Getenv("VERIF_WORK_SUFFIX"))
	os.RemoveAll(workDir)
	os.MkdirAll(filepath.Join(workDir, "bin"), 0o755)
	known := vlib.LoadKnown(prop)

	if tier == "--replay" {
		replay(prop, cfg, os.Args[3], workDir)
		return
	}
	if tier != "quick" && tier != "thorough" {
		fmt.Fprintln(os.Stderr, "tier must be quick or thorough")
		os.Exit(3)
	}

	// build all flavours (sequentially: the go build cache is shared)
	bins := map[string]string{}
	for _, fl := range cfg.Flavours {
		bin := filepath.Join(workDir, "bin", "w"+prop+"."+fl.Name)
		if err := build(prop, fl, bin); err != nil {
			fmt.Fprintf(os.Stderr, "BUILD FAILED: %v\n", err)
			os.Exit(3)
		}
		bins[fl.Name] = bin
	}
	buildS := time.Since(start).Seconds()

	mg := &merged{sampleSeen: map[string]bool{}, distinct: map[uint64]struct{}{}, counters: map[string]int64{}, sets: map[string]map[string]struct{}{},
		violations: map[string]*vlib.Violation{}, known: map[string]*vlib.KnownSeen{}, floors: map[string]*vlib.Floor{}, exhaustive: map[string]bool{}}

	// run children: all shards of a flavour in parallel, flavours one after another
	for _, fl := range cfg.Flavours {
		timeout := fl.TimeoutQ
		if tier == "thorough" {
			timeout = fl.TimeoutT
		}
		var wg sync.WaitGroup
		for sh := 0; sh < fl.Shards; sh++ {
			wg.Add(1)
			go func(fl flavour, sh int) {
				defer wg.Done()
				outDir := filepath.Join(workDir, fmt.Sprintf("%s-%d", fl.Name, sh))
				var skip []string
				for attempt := 0; attempt < 8; attempt++ {
					oc := runChild(bins[fl.Name], prop, tier, seed, fl, sh, outDir, skip, "", timeout)
					mg.mu.Lock()
					mg.counters["child_user_cpu_ms"] += oc.userCPU.Milliseconds()
					mg.mu.Unlock()
					if fl.Name == "race" {
						raw, reps := parseRaceLogs(outDir)
						mg.mu.Lock()
						mg.counters["race_reports_raw"] += int64(raw)
						mg.mu.Unlock()
						for _, rp := range reps {
							// A known finding may name the racing call site itself (an accessor that
							// reads shared state without the lock): then every pair it takes part in
							// is that finding. Pairs not involving a listed site are reported by pair.
							siteKnown := false
							for _, sk := range rp.Sites {
								if _, ok := known[sk]; ok {
									mg.fail(prop, known, sk, "", nil, seed)
									siteKnown = true
									break
								}
							}
							if siteKnown {
								continue
							}
							mg.fail(prop, known, rp.Key, "data race reported by the Go race detector", map[string]interface{}{"stacks": rp.Stacks, "flavour": "race", "shard": sh}, seed)
						}
						// remove parsed logs so that a re-spawn does not count them twice
						files, _ := filepath.Glob(filepath.Join(outDir, "race.*"))
						for _, f := range files {
							os.Remove(f)
						}
					}
					if oc.res != nil {
						mg.add(oc.res)
						return
					}
					if oc.timedOut {
						mg.mu.Lock()
						mg.inconclusive = append(mg.inconclusive, vlib.Inconclusive{Case: fmt.Sprintf("%s/%d:%s", fl.Name, sh, oc.lastCase), Reason: "watchdog " + timeout.String()})
						mg.mu.Unlock()
						// keep the goroutine dump for inspection
						return
					}
					// process-fatal event: attribute to the journalled case and continue after it
					kind := fatalKind(oc.stderr, oc.exit)
					key := fmt.Sprintf("fatal:%s@%s", kind, oc.lastKey)
					mg.mu.Lock()
					mg.fatals++
					mg.mu.Unlock()
					mg.fail(prop, known, key, "process-fatal event in the child while executing the journalled case", map[string]interface{}{
						"case": oc.lastCase, "flavour": fl.Name, "shard": sh, "nshards": fl.Shards, "stderr": oc.stderr, "tier": tier}, seed)
					if oc.lastCase == "" {
						return
					}
					skip = append(skip, oc.lastCase)
				}
			}(fl, sh)
		}
		wg.Wait()
	}

	// ---- verdict -----------------------------------------------------------------
	exit := 0
	var vkeys []string
	for k := range mg.violations {
		vkeys = append(vkeys, k)
	}
	sort.Strings(vkeys)
	var kkeys []string
	for k := range mg.known {
		kkeys = append(kkeys, k)
	}
	sort.Strings(kkeys)
	for _, k := range kkeys {
		fmt.Printf("KNOWN-FINDING: property=%s %s — %s (seen %d×)\n", prop, k, mg.known[k].What, mg.known[k].Count)
	}
	for _, ic := range mg.inconclusive {
		fmt.Printf("INCONCLUSIVE property=%s case=%s reason=%s\n", prop, ic.Case, ic.Reason)
	}
	for _, k := range vkeys {
		v := mg.violations[k]
		fmt.Printf("VIOLATION property=%s replay=%s key=%q count=%d what=%q\n", prop, v.Replay, v.Key, v.Count, v.What)
		exit = 1
	}
	floorFail := false
	for _, f := range mg.floors {
		if f.Got < f.Min {
			floorFail = true
			fmt.Printf("INCONCLUSIVE property=%s reason=floor %s got=%d min=%d\n", prop, f.Name, f.Got, f.Min)
		}
	}
	if mg.children == 0 {
		floorFail = true
		fmt.Printf("INCONCLUSIVE property=%s reason=no child completed\n", prop)
	}
	if exit == 0 && floorFail {
		exit = 2
	}

	// ---- evidence ----------------------------------------------------------------
	cov := map[string]interface{}{}
	for k, v := range mg.counters {
		cov[k] = v
	}
	for s, mm := range mg.sets {
		l := make([]string, 0, len(mm))
		for e := range mm {
			l = append(l, e)
		}
		sort.Strings(l)
		cov[s+"_count"] = len(l)
		if len(l) > 400 {
			l = l[:400]
		}
		cov[s] = l
	}
	cov["evaluations"] = mg.evals
	cov["distinct_nontrivial"] = int64(len(mg.distinct)) + mg.distinctEnum
	cov["distinct_hashed_cases"] = len(mg.distinct)
	cov["distinct_enumerated_cases"] = mg.distinctEnum
	cov["rule"] = cfg.Rule
	samples := mg.samples
	if samples == nil {
		samples = []interface{}{}
	}
	cov["samples"] = samples
	var ex []string
	for e := range mg.exhaustive {
		ex = append(ex, e)
	}
	sort.Strings(ex)
	if len(ex) > 0 {
		cov["exhaustive_subspaces"] = ex
	}
	kf := []string{}
	for _, k := range kkeys {
		kf = append(kf, k)
	}
	cov["known_findings_seen"] = kf
	cov["inconclusive_cases"] = len(mg.inconclusive)
	cov["children_completed"] = mg.children
	cov["process_fatal_events"] = mg.fatals
	cov["build_s"] = buildS
	var fls []string
	for _, fl := range cfg.Flavours {
		fls = append(fls, fmt.Sprintf("%s×%d", fl.Name, fl.Shards))
	}
	cov["build_flavours"] = fls
	if len(mg.notes) > 0 {
		if len(mg.notes) > 40 {
			mg.notes = mg.notes[:40]
		}
		cov["notes"] = mg.notes
	}
	var fl []vlib.Floor
	for _, f := range mg.floors {
		fl = append(fl, *f)
	}
	sort.Slice(fl, func(i, j int) bool { return fl[i].Name < fl[j].Name })
	cov["floors"] = fl
	vl := []string{}
	for _, k := range vkeys {
		vl = append(vl, k)
	}
	cov["violation_keys"] = vl
	ev := map[string]interface{}{
		"property_id": prop, "tier": tier, "seed": int64(seed), "level": cfg.Level, "coverage": cov,
		"assumptions": cfg.Assumptions, "wall_s": time.Since(start).Seconds(), "violations": len(vkeys),
	}
	b, _ := json.MarshalIndent(ev, "", " ")
	evDir := filepath.Join(root(), "evidence")
	if os.Getenv("VERIF_REPO") != "" {
		evDir = filepath.Join(root(), "work", "altevidence"+os.Getenv("VERIF_WORK_SUFFIX"))
	}
	os.MkdirAll(evDir, 0o755)
	os.WriteFile(filepath.Join(evDir, prop+".json"), b, 0o644)

	fmt.Printf("SUMMARY property=%s tier=%s seed=%d evaluations=%d distinct_nontrivial=%d violations=%d known=%d inconclusive=%d wall=%.1fs exit=%d\n",
		prop, tier, seed, mg.evals, int64(len(mg.distinct))+mg.distinctEnum, len(vkeys), len(kkeys), len(mg.inconclusive), time.Since(start).Seconds(), exit)
	if exit == 0 {
		// scratch of a clean run is not needed (replay files of earlier runs are kept)
		os.RemoveAll(workDir)
	}
	os.Exit(exit)
}

func replay(prop string, cfg propCfg, path, workDir string) {
	b, err := os.ReadFile(path)
	if err != nil {
		fmt.Fprintln(os.Stderr, err)
		os.Exit(3)
	}
	var rep struct {
		Flavour string                 `json:"flavour"`
		Tier    string                 `json:"tier"`
		Seed    uint64                 `json:"seed"`
		Shard   int                    `json:"shard"`
		NShards int                    `json:"nshards"`
		Case    string                 `json:"case"`
		Key     string                 `json:"key"`
		Detail  map[string]interface{} `json:"detail"`
	}
	json.Unmarshal(b, &rep)
	if rep.Case == "" && rep.Detail != nil {
		if s, ok := rep.Detail["case"].(string); ok {
			rep.Case = s
		}
		if s, ok := rep.Detail["flavour"].(string); ok {
			rep.Flavour = s
		}
		if s, ok := rep.Detail["tier"].(string); ok {
			rep.Tier = s
		}
		if f, ok := rep.Detail["shard"].(float64); ok {
			rep.Shard = int(f)
		}
		if f, ok := rep.Detail["nshards"].(float64); ok {
			rep.NShards = int(f)
		}
	}
	if rep.Tier == "" {
		rep.Tier = "quick"
	}
	var fl *flavour
	for i := range cfg.Flavours {
		if cfg.Flavours[i].Name == rep.Flavour {
			fl = &cfg.Flavours[i]
		}
	}
	if fl == nil {
		fl = &cfg.Flavours[0]
	}
	f2 := *fl
	if rep.NShards > 0 {
		f2.Shards = rep.NShards
	}
	bin := filepath.Join(workDir, "bin", "w"+prop+"."+f2.Name)
	if err := build(prop, f2, bin); err != nil {
		fmt.Fprintln(os.Stderr, err)
		os.Exit(3)
	}
	reps := 1
	if f2.Name == "race" {
		reps = 20
	}
	hit := 0
	for i := 0; i < reps; i++ {
		oc := runChild(bin, prop, rep.Tier, rep.Seed, f2, rep.Shard, filepath.Join(workDir, "replay"), nil, rep.Case, f2.TimeoutT)
		reproduced := false
		if oc.res != nil {
			for _, v := range oc.res.Violations {
				fmt.Printf("REPLAY violation key=%q what=%q\n", v.Key, v.What)
				if v.Key == rep.Key {
					reproduced = true
				}
			}
			for _, k := range oc.res.Known {
				fmt.Printf("REPLAY known key=%q\n", k.Key)
			}
		} else {
			fmt.Printf("REPLAY child did not complete (fatal=%v timeout=%v): %s\n", oc.fatal, oc.timedOut, fatalKind(oc.stderr, oc.exit))
			reproduced = oc.fatal
		}
		if f2.Name == "race" {
			_, rr := parseRaceLogs(filepath.Join(workDir, "replay"))
			for _, r := range rr {
				fmt.Printf("REPLAY race key=%q\n", r.Key)
				if r.Key == rep.Key {
					reproduced = true
				}
			}
		}
		if reproduced {
			hit++
		}
	}
	fmt.Printf("REPLAY property=%s case=%s reproduced=%d/%d\n", prop, rep.Case, hit, reps)
	if hit > 0 {
		fmt.Printf("VIOLATION property=%s replay=%s\n", prop, path)
		os.Exit(1)
	}
	os.Exit(0)
}

var _ = bufio.NewReader
