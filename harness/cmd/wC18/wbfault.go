package main

// write-back-fault: SetValues when the write-back cannot go its ordinary way.
//
// The write-back and atomicity sections only ever let SetValues succeed: a writable directory,
// a short file name, the library's own parser, keys the writer stores. What the library does
// when the ordinary way is closed was never looked at, and that is exactly where a write-back
// is tempted to take a short cut ("the values still have to be stored": rewrite the live file
// in place) or to have told the getters already what it then fails to put into the file. The
// property makes no exception for those moments: at no instant may the file hold anything but
// the old or the new complete content, and the getters reflect the FILE.
//
// One case = one fault class, one large file (so that a truncate-then-write window is wide
// enough to be seen), one SetValues call watched by 2..4 goroutines that re-read the file:
//
//	control                  nothing in the way (optionally the file name given through
//	                         WHATAP_CONFIG, ordinary length)
//	conf-name-near-NAME_MAX  file name of 242..255 bytes given through WHATAP_CONFIG: the file
//	                         exists and loads, but no sibling "<name>.tmp<digits>" can be created
//	immutable-dir            the directory carries the immutable flag (what `chattr +i` sets)
//	                         during the call: the file can be rewritten, but nothing can be
//	                         created in, renamed into or removed from its directory. (Permission
//	                         bits would do the same for an ordinary user; the harness runs as
//	                         root, which ignores them.)
//	parser-write-error       a FileParser given with WithParser that wraps the default one and
//	                         whose Write reports "no space left on device" without touching
//	                         the file
//	parser-partial-keys      ... whose Write hands only part of the keys on to the default
//	                         writer (and reports success, or an error afterwards)
//	dropped-keys             the default writer, input containing new keys it does not store
//	                         (first character not a word character)
//
// Oracle. The harness never predicts whether the call succeeds: after the call the file must
// be byte for byte the old content (a clean failure — legitimate under an injected fault,
// counted) or a text whose reference parse is the merge. Everything the watchers saw must be
// one of these two. Then one poll, and every getter is compared with what the file holds NOW.
// No verdict depends on a clock; the watchers only report what they read.

import (
	"bytes"
	"fmt"
	"hash/crc32"
	"os"
	"path/filepath"
	"runtime"
	"sort"
	"strings"
	"sync"
	"sync/atomic"
	"syscall"
	"unsafe"

	"github.com/whatap/golib/config/conffile"

	"verif/vlib"
)

const (
	fcControl      = "control"
	fcLongName     = "conf-name-near-NAME_MAX"
	fcImmutableDir = "immutable-dir"
	fcWriteError   = "parser-write-error"
	fcPartialKeys  = "parser-partial-keys"
	fcDroppedKeys  = "dropped-keys"
)

// The two classes in which the library's own writer meets the obstacle carry most weight:
// they are the only ones where the code between "cannot write next to the file" and "return"
// runs at all.
var faultClasses = []string{
	fcControl, fcControl,
	fcLongName, fcLongName, fcLongName, fcLongName,
	fcImmutableDir, fcImmutableDir, fcImmutableDir, fcImmutableDir,
	fcWriteError, fcWriteError,
	fcPartialKeys, fcPartialKeys,
	fcDroppedKeys, fcDroppedKeys,
}

// ---- immutable directories -------------------------------------------------------------

// FS_IOC_GETFLAGS / FS_IOC_SETFLAGS with FS_IMMUTABLE_FL is all `chattr +i` does; issuing the
// ioctl directly saves two process starts per case. The request numbers encode sizeof(long)
// although the kernel transfers an int, hence the 8-byte buffer.
const (
	fsIocGetFlags = 0x80086601
	fsIocSetFlags = 0x40086602
	fsImmutableFl = 0x00000010
)

func setImmutable(dir string, on bool) error {
	f, err := os.Open(dir)
	if err != nil {
		return err
	}
	defer f.Close()
	var buf [2]uint32
	if _, _, e := syscall.Syscall(syscall.SYS_IOCTL, f.Fd(), fsIocGetFlags, uintptr(unsafe.Pointer(&buf[0]))); e != 0 {
		return e
	}
	if on {
		buf[0] |= fsImmutableFl
	} else {
		buf[0] &^= fsImmutableFl
	}
	if _, _, e := syscall.Syscall(syscall.SYS_IOCTL, f.Fd(), fsIocSetFlags, uintptr(unsafe.Pointer(&buf[0]))); e != 0 {
		return e
	}
	return nil
}

// lockDir makes dir immutable and CHECKS that this keeps files from being created in it here
// (the flag needs CAP_LINUX_IMMUTABLE and a file system that implements it). On any doubt the
// flag is taken back and false returned: the case then runs without the fault rather than
// under a fault that is not there.
func lockDir(dir string) bool {
	if setImmutable(dir, true) != nil {
		return false
	}
	probe := filepath.Join(dir, "verif-probe")
	if f, err := os.OpenFile(probe, os.O_CREATE|os.O_WRONLY, 0o644); err == nil {
		f.Close()
		setImmutable(dir, false)
		os.Remove(probe)
		return false
	}
	return true
}

var (
	immOnce   sync.Once
	immUsable bool
)

// immutableUsable is the probe at start: one scratch directory under the work base.
func immutableUsable() bool {
	immOnce.Do(func() {
		os.MkdirAll(tmpBase(), 0o755)
		d, err := os.MkdirTemp(tmpBase(), "wbf-immprobe-")
		if err != nil {
			return
		}
		immUsable = lockDir(d)
		setImmutable(d, false)
		os.RemoveAll(d)
	})
	return immUsable
}

// ---- the scripted parser ---------------------------------------------------------------

// faultParser is the default parser with a Write that fails the way a full disk does, or that
// stores only part of what it is given. Read is untouched: what the object loads is always
// what the library's own parser reads.
type faultParser struct {
	inner     *conffile.DefaultFileParser
	mode      string          // fcWriteError | fcPartialKeys
	drop      map[string]bool // fcPartialKeys: keys not handed on
	errAfter  bool            // fcPartialKeys: report an error after the partial write
	writes    int
	innerErrs []string
}

func (p *faultParser) Read(path string) (map[string]string, error) { return p.inner.Read(path) }

func (p *faultParser) Write(path string, m *map[string]string) error {
	p.writes++
	enospc := &os.PathError{Op: "write", Path: path, Err: syscall.ENOSPC}
	if p.mode == fcWriteError {
		return enospc
	}
	part := map[string]string{}
	for k, v := range *m {
		if !p.drop[k] {
			part[k] = v
		}
	}
	if err := p.inner.Write(path, &part); err != nil {
		p.innerErrs = append(p.innerErrs, err.Error())
		return err
	}
	if p.errAfter {
		return enospc
	}
	return nil
}

// ---- watchers of the file --------------------------------------------------------------

// fileWatch is the concurrent-reader sampler of the atomicity section as a reusable piece:
// n goroutines re-read one file in a tight loop and keep every content that is not the old
// one, to be judged once the final content is known. Between two full reads a reader makes
// cheap size probes; a size other than the old one is remembered (it is an observation of
// the file in its own right) and triggers a full read.
type fileWatch struct {
	path string
	old  []byte

	stop, inCall, started int32

	mu       sync.Mutex
	stash    map[uint64]*obsContent
	overflow int           // contents beyond the stash capacity (only the old and the final one are legitimate)
	sizes    map[int64]int // stat sizes other than the old one

	reads, readsInCall, probes, probesInCall, sawOld, missing, readErrs int64

	wg sync.WaitGroup
}

const watchStashCap = 24

// startFileWatch returns once every reader has completed one full read: from then on all of
// them are inside their loops.
func startFileWatch(path string, old []byte, nReaders int) *fileWatch {
	w := &fileWatch{path: path, old: old, stash: map[uint64]*obsContent{}, sizes: map[int64]int{}}
	for g := 0; g < nReaders; g++ {
		w.wg.Add(1)
		go w.reader()
	}
	for atomic.LoadInt32(&w.started) < int32(nReaders) {
		runtime.Gosched()
	}
	return w
}

func (w *fileWatch) reader() {
	defer w.wg.Done()
	first := true
	n := 0
	for atomic.LoadInt32(&w.stop) == 0 {
		a := atomic.LoadInt32(&w.inCall)
		n++
		if n%16 != 0 && !first {
			if st, err := os.Stat(w.path); err == nil {
				if st.Size() == int64(len(w.old)) {
					atomic.AddInt64(&w.probes, 1)
					if a == 1 || atomic.LoadInt32(&w.inCall) == 1 {
						atomic.AddInt64(&w.probesInCall, 1)
					}
					continue
				}
				w.mu.Lock()
				if len(w.sizes) < 64 || w.sizes[st.Size()] > 0 {
					w.sizes[st.Size()]++
				} else {
					w.sizes[-1]++ // more distinct sizes than any legitimate run can show
				}
				w.mu.Unlock()
			}
		}
		b, err := os.ReadFile(w.path)
		z := atomic.LoadInt32(&w.inCall)
		atomic.AddInt64(&w.reads, 1)
		if a == 1 || z == 1 {
			atomic.AddInt64(&w.readsInCall, 1)
		}
		if first {
			first = false
			atomic.AddInt32(&w.started, 1)
		}
		if err != nil {
			atomic.AddInt64(&w.readErrs, 1)
			if os.IsNotExist(err) {
				atomic.AddInt64(&w.missing, 1)
			}
			continue
		}
		if bytes.Equal(b, w.old) {
			atomic.AddInt64(&w.sawOld, 1)
			continue
		}
		h := uint64(crc32.ChecksumIEEE(b))<<32 | uint64(uint32(len(b)))
		w.mu.Lock()
		if o := w.stash[h]; o != nil {
			o.count++
		} else if len(w.stash) < watchStashCap {
			w.stash[h] = &obsContent{data: b, count: 1}
		} else {
			w.overflow++
		}
		w.mu.Unlock()
	}
}

func (w *fileWatch) enter() { atomic.StoreInt32(&w.inCall, 1) }
func (w *fileWatch) leave() { atomic.StoreInt32(&w.inCall, 0) }
func (w *fileWatch) finish() {
	atomic.StoreInt32(&w.stop, 1)
	w.wg.Wait()
}

// judge sorts what the readers saw against the final content. torn = number of observations
// that were neither the old nor the final content; kinds describes them.
func (w *fileWatch) judge(final []byte) (kinds []string, torn int, sawFinal int64) {
	for _, o := range w.stash {
		if bytes.Equal(o.data, final) {
			sawFinal += int64(o.count)
			continue
		}
		torn += o.count
		switch {
		case len(o.data) == 0:
			kinds = append(kinds, fmt.Sprintf("empty file (%d×)", o.count))
		case bytes.HasPrefix(final, o.data):
			kinds = append(kinds, fmt.Sprintf("first %d of %d bytes of the final content (%d×)", len(o.data), len(final), o.count))
		default:
			kinds = append(kinds, fmt.Sprintf("%d bytes that are neither the old (%d) nor the final (%d) content (%d×)", len(o.data), len(w.old), len(final), o.count))
		}
	}
	if w.overflow > 0 {
		torn += w.overflow
		kinds = append(kinds, fmt.Sprintf("more than %d different contents (%d further reads)", watchStashCap, w.overflow))
	}
	for sz, n := range w.sizes {
		if sz == int64(len(final)) {
			continue
		}
		torn += n
		if sz < 0 {
			kinds = append(kinds, fmt.Sprintf("more than 64 different file sizes (%d further probes)", n))
		} else {
			kinds = append(kinds, fmt.Sprintf("file size %d reported by stat (%d×)", sz, n))
		}
	}
	if w.missing > 0 {
		torn += int(w.missing)
		kinds = append(kinds, fmt.Sprintf("file absent (%d×)", w.missing))
	}
	sort.Strings(kinds)
	if len(kinds) > 12 {
		kinds = append(kinds[:12], fmt.Sprintf("… %d more kinds", len(kinds)-12))
	}
	return
}

// ---- the case --------------------------------------------------------------------------

type wfCase struct {
	Class       string            `json:"fault_class"`
	NameBytes   int               `json:"conf_file_name_bytes"`
	ViaEnv      bool              `json:"name_given_through_WHATAP_CONFIG"`
	Readers     int               `json:"reader_goroutines"`
	Input       map[string]string `json:"set_values"`
	Dropped     []string          `json:"keys_the_scripted_parser_does_not_hand_on,omitempty"`
	ErrAfter    bool              `json:"scripted_parser_reports_error_after_partial_write,omitempty"`
	OldBytes    int               `json:"file_bytes_before"`
	NewBytes    int               `json:"file_bytes_after"`
	Outcome     string            `json:"file_after_the_call"`
	Observed    []string          `json:"observed_by_readers,omitempty"`
	ReadsInCall int64             `json:"reads_and_probes_overlapping_the_call"`
	OldHead     string            `json:"file_before_head"`
	NewHead     string            `json:"file_after_head"`
}

// confNameOfLen: a file name of exactly n bytes ending in ".conf".
func confNameOfLen(r *vlib.Rand, n int) string {
	b := make([]byte, n-len(".conf"))
	for k := range b {
		b[k] = "abcdefghijklmnopqrstuvwxyz0123456789_-"[r.Intn(38)]
	}
	b[0] = 'w' // never a leading '-' or '.'
	return string(b) + ".conf"
}

func wbFaultCase(c *vlib.Ctx, i int, r *vlib.Rand) {
	class := faultClasses[r.Intn(len(faultClasses))]
	if class == fcImmutableDir && !immutableUsable() {
		c.Count("wbfault_immutable_dir_not_usable_here", 1)
		class = fcControl
	}
	dir := tmpHome("wbf")
	defer os.RemoveAll(dir) // registered first, runs last: after the immutable flag is gone
	pfx := fmt.Sprintf("f%d_", i)

	// ---- the file name ----
	// GetConfFile reads WHATAP_CONFIG on every call, so the variable stays for the whole case;
	// sections run one case at a time on one goroutine and the readers never look at it.
	name, viaEnv := confName, false
	switch {
	case class == fcLongName:
		// ".tmp" + the up to ten digits os.CreateTemp appends: from 242 bytes on the sibling
		// name may, from 252 on it must exceed NAME_MAX (255)
		name, viaEnv = confNameOfLen(r, r.Range(242, 255)), true
	case r.Chance(1, 4):
		name, viaEnv = confNameOfLen(r, r.Range(6, 200)), true
	}
	if viaEnv {
		os.Setenv("WHATAP_CONFIG", name)
		defer os.Unsetenv("WHATAP_CONFIG")
	}
	path := filepath.Join(dir, name)

	// ---- the file before: tens to hundreds of KB, lines below 4096 bytes (longer ones are a
	// recorded finding of the writer), comments and blank lines in between ----
	nLines, lineLen := r.Range(12, 70), r.Range(600, 3400)
	if r.Chance(1, 10) {
		nLines = r.Range(90, 160) // a few of half a megabyte; more only costs (the writer is quadratic in the line count)
	}
	oldText, keys := bigFile(r, pfx, nLines, lineLen)
	old := []byte(oldText)
	if err := os.WriteFile(path, old, 0o644); err != nil {
		panic(err)
	}
	_, oldMap := refParse(oldText)

	// ---- the object ----
	var fp *faultParser
	var opts []conffile.FileConfigOption
	if class == fcWriteError || class == fcPartialKeys {
		fp = &faultParser{inner: conffile.NewDefaultFileParser(), mode: class, drop: map[string]bool{}}
		opts = append(opts, conffile.WithParser(fp))
	}
	conf := newConf(dir, opts...)
	defer conf.VerifStop()
	det := wfCase{Class: class, NameBytes: len(name), ViaEnv: viaEnv, OldBytes: len(old), OldHead: clipStr(oldText, 600)}
	if conf.GetConfFile() != path {
		panic(fmt.Sprintf("harness: GetConfFile() = %q, the case uses %q", conf.GetConfFile(), path))
	}
	if got, want := conf.GetValue(keys[0]), refTrim(oldMap[keys[0]]); got != want {
		c.Fail("FileConfig:value-not-visible/initial-load/"+class, fmt.Sprintf("file %q (%d-byte name) holds %s=%s, after construction GetValue gives %s", clipStr(name, 40), len(name), keys[0], quoteClip(want, 40), quoteClip(got, 40)), det)
		return
	}

	// ---- the input: existing keys with new values, new keys; all plain, none empty ----
	input := map[string]string{}
	nv := 0
	val := func() string {
		nv++
		return fmt.Sprintf("set%d-%s", nv, word(r)) // differs from every value of the old file
	}
	for n := r.Range(1, 3); n > 0; n-- {
		input[keys[r.Intn(len(keys))]] = val()
	}
	for n := r.Range(0, 2); n > 0; n-- {
		input[fmt.Sprintf("%snew%d_%s", pfx, n, word(r))] = val()
	}
	mayBeDropped := map[string]bool{} // new keys the default writer is known not to store
	if class == fcDroppedKeys {
		for n := r.Range(1, 2); n > 0; n-- {
			k := fmt.Sprintf("%s%sopt%d_%s", []string{"-", ".", "@"}[r.Intn(3)], pfx, n, word(r))
			input[k] = val()
			mayBeDropped[k] = true
		}
	}
	ikeys := make([]string, 0, len(input))
	for k := range input {
		ikeys = append(ikeys, k)
	}
	sort.Strings(ikeys)
	if class == fcPartialKeys {
		// at least one key is withheld; sometimes all of them
		fp.errAfter = r.Chance(1, 3)
		for _, k := range ikeys {
			if r.Chance(1, 2) {
				fp.drop[k] = true
			}
		}
		if len(fp.drop) == 0 {
			fp.drop[ikeys[r.Intn(len(ikeys))]] = true
		}
		for _, k := range ikeys {
			if fp.drop[k] {
				det.Dropped = append(det.Dropped, k)
			}
		}
		det.ErrAfter = fp.errAfter
	}
	det.Input = clipMap(input)
	faulted := class == fcLongName || class == fcImmutableDir || class == fcWriteError || class == fcPartialKeys

	// ---- the fault that lives in the file system ----
	if class == fcImmutableDir {
		if !lockDir(dir) {
			c.Count("wbfault_immutable_dir_not_usable_here", 1)
			class, faulted = fcControl, false
			det.Class = class
		} else {
			defer setImmutable(dir, false) // also when anything below panics
		}
	}
	c.Count("wbfault_cases/"+class, 1)
	c.SetAdd("wbfault_classes", class)

	// ---- the call, watched ----
	nReaders := r.Range(2, 4)
	det.Readers = nReaders
	in2 := map[string]string{}
	for k, v := range input {
		in2[k] = v
	}
	w := startFileWatch(path, old, nReaders)
	w.enter()
	p := vlib.Catch(func() { conf.SetValues(&in2) })
	w.leave()
	w.finish()
	if class == fcImmutableDir {
		setImmutable(dir, false)
	}
	if p != nil {
		c.Fail("FileConfig.SetValues:panic/"+class, fmt.Sprintf("SetValues panicked: %v", p), det)
		return
	}
	c.Count("wbfault_reads", w.reads)
	c.Count("wbfault_size_probes", w.probes)
	c.Count("wbfault_reads_overlapping_the_call", w.readsInCall)
	c.Count("wbfault_size_probes_overlapping_the_call", w.probesInCall)
	c.Count("wbfault_reads_old_content", w.sawOld)
	c.Max("max_wbfault_file_bytes", int64(len(old)))
	det.ReadsInCall = w.readsInCall + w.probesInCall

	// ---- the file after ----
	nb, err := os.ReadFile(path)
	if err != nil {
		c.Fail("FileConfig.SetValues:file-missing-after-write/"+class, err.Error(), det)
		return
	}
	newText := string(nb)
	_, newMap := refParse(newText)
	det.NewBytes, det.NewHead = len(nb), clipStr(newText, 600)

	// what a complete write-back has to store: the input minus what the scripted parser withheld
	written := map[string]string{}
	for k, v := range input {
		if fp != nil && fp.drop[k] {
			continue
		}
		written[k] = v
	}
	mergeProblem := ""
	if !bytes.Equal(nb, old) {
		all := map[string]bool{}
		for k := range oldMap {
			all[k] = true
		}
		for k := range newMap {
			all[k] = true
		}
		for k := range written {
			all[k] = true
		}
		akeys := make([]string, 0, len(all))
		for k := range all {
			akeys = append(akeys, k)
		}
		sort.Strings(akeys)
		for _, k := range akeys {
			got, in := newMap[k]
			wv, isWritten := written[k]
			ov, wasOld := oldMap[k]
			switch {
			case isWritten && mayBeDropped[k]:
				// recorded finding value-not-roundtripped/new-key-nonword-start: absent is what
				// the pinned writer does; present with the right value is fine as well
				if in && got != wv {
					mergeProblem = fmt.Sprintf("key %s was written as %s and reads back as %s", quoteClip(k, 60), quoteClip(wv, 40), quoteClip(got, 40))
				}
			case isWritten:
				if !in || got != wv {
					mergeProblem = fmt.Sprintf("key %s was written as %s and reads back as %s (present=%v)", quoteClip(k, 60), quoteClip(wv, 40), quoteClip(got, 40), in)
				}
			case wasOld:
				if !in || got != ov {
					mergeProblem = fmt.Sprintf("key %s was not written; it held %s and now holds %s (present=%v)", quoteClip(k, 60), quoteClip(ov, 40), quoteClip(got, 40), in)
				}
			default:
				mergeProblem = fmt.Sprintf("key %s is in the file; it was neither there before nor written", quoteClip(k, 60))
			}
			if mergeProblem != "" {
				break
			}
		}
		if mergeProblem == "" {
			if a, b := orderSkeleton(oldText, newMap, nil), orderSkeleton(newText, nil, oldMap); !equalStrs(a, b) {
				mergeProblem = fmt.Sprintf("comment lines / order of surviving keys before: %q after: %q", clipStrs(a), clipStrs(b))
			}
		}
	}
	switch {
	case bytes.Equal(nb, old):
		det.Outcome = "old content, byte for byte"
		c.Count("wbfault_file_left_as_it_was", 1)
		if faulted {
			c.Count("wbfault_clean_failures", 1)
			c.Count("wbfault_clean_failures/"+class, 1)
		} else {
			// nothing stood in the way and at least one existing key was given a value it
			// did not have: the values were not merged into the file at all
			c.Fail("FileConfig.SetValues:nothing-written/"+class, fmt.Sprintf("SetValues of %d keys with nothing in its way left the %d-byte file exactly as it was", len(input), len(old)), det)
		}
	case mergeProblem == "":
		det.Outcome = "merge"
		c.Count("wbfault_file_is_the_merge", 1)
		c.Count("wbfault_file_is_the_merge/"+class, 1)
	default:
		det.Outcome = "neither: " + mergeProblem
		c.Fail("FileConfig.SetValues:file-neither-old-nor-merge/"+class, fmt.Sprintf("after SetValues under fault class %s the file (%d bytes, before: %d) is neither the old content nor the merge: %s", class, len(nb), len(old), mergeProblem), det)
	}

	// ---- what the readers saw ----
	kinds, torn, sawFinal := w.judge(nb)
	c.Count("wbfault_reads_final_content", sawFinal)
	if torn > 0 {
		det.Observed = kinds
		c.Count("wbfault_torn_observations", int64(torn))
		c.Fail("FileConfig.SetValues:torn-file-visible/"+class, fmt.Sprintf("while SetValues ran on a %d-byte file under fault class %s, %d concurrent readers saw: %s", len(old), class, nReaders, strings.Join(kinds, "; ")), det)
	}

	// ---- the getters against the file as it is NOW ----
	// One poll: the file has stopped changing. Judged are (i) keys the file holds with a
	// non-blank value — the getter gives that value — and (ii) keys that were never in the
	// file and never loaded and are not in it now — the getter gives the default. A key that
	// WAS loaded and is gone or blank now keeps its previous value on the pinned tree (recorded
	// findings deleted-key-keeps-previous / empty-value-keeps-previous): counted, not judged.
	conf.VerifReloadNow()
	gk := map[string]bool{}
	for k := range oldMap {
		gk[k] = true
	}
	for k := range input {
		gk[k] = true
	}
	gkeys := make([]string, 0, len(gk))
	for k := range gk {
		gkeys = append(gkeys, k)
	}
	sort.Strings(gkeys)
	const dflt = "<default>"
	for _, k := range gkeys {
		fv, in := newMap[k]
		_, wasOld := oldMap[k]
		_, isInput := input[k]
		how := "untouched key"
		if isInput {
			how = "key of the input"
			if fp != nil && fp.drop[k] {
				how = "key of the input that the parser did not store"
			} else if mayBeDropped[k] {
				how = "key of the input that the writer does not store"
			}
		}
		switch {
		case in && refTrim(fv) != "":
			c.Count("wbfault_getter_checks", 1)
			c.Count("wbfault_getter_checks/key-in-file", 1)
			if isInput {
				c.Count("wbfault_getter_checks/input-key-in-file", 1)
			}
			if got := conf.GetValue(k); got != refTrim(fv) {
				c.Fail("FileConfig:getter-differs-from-file/after-write-back/"+class, fmt.Sprintf("after SetValues (file afterwards: %s) and a poll, GetValue(%q) = %s but the file holds %s (%s)", det.Outcome, k, quoteClip(got, 60), quoteClip(refTrim(fv), 60), how), det)
				return
			}
		case !in && !wasOld:
			c.Count("wbfault_getter_checks", 1)
			c.Count("wbfault_getter_checks/key-never-in-file", 1)
			if got, gd := conf.GetValue(k), conf.GetValueDef(k, dflt); got != "" || gd != dflt {
				c.Fail("FileConfig:getter-differs-from-file/after-write-back/"+class, fmt.Sprintf("after SetValues (file afterwards: %s) and a poll, GetValue(%q) = %s and GetValueDef(…, %q) = %s, but the key is not in the file and never was (%s)", det.Outcome, k, quoteClip(got, 60), dflt, quoteClip(gd, 60), how), det)
				return
			}
		default:
			c.Count("wbfault_getter_checks_skipped_key_gone_after_load", 1)
		}
	}
	c.Count("wbfault_writebacks", 1)
	c.DistinctStr(fmt.Sprintf("wbf|%s|%d|%08x|%v|%v", class, len(name), crc32.ChecksumIEEE(old), input, det.Dropped))
	if c.WantSample() && i%17 == 3 {
		det.OldHead, det.NewHead = clipStr(det.OldHead, 200), clipStr(det.NewHead, 200)
		c.Sample(map[string]interface{}{"section": "write-back-fault", "case": det})
	}
}
