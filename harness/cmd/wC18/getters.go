package main

import (
	"fmt"
	"math"
	"sort"
	"strconv"

	"github.com/whatap/golib/config"

	"verif/vlib"
)

// checkGetters calls every typed getter of conf on key and compares with the independent
// reading of val (the value the file holds for key; present=false: the key is not in the
// file and was never loaded). Returns the number of comparisons made.
func checkGetters(c *vlib.Ctx, conf config.Config, key, val string, present bool, r *vlib.Rand, ctxInfo map[string]interface{}) int {
	n := 0
	tv := refTrim(val)
	state := func(rd reading) string {
		if !present {
			return "absent"
		}
		if tv == "" {
			return "empty"
		}
		return rd.String()
	}
	fail := func(getter, class, what string, exp, got interface{}, extra map[string]interface{}) {
		d := map[string]interface{}{"key": key, "file_value": clipStr(val, 300), "present": present, "expected": exp, "got": got, "getter": getter}
		for k, v := range ctxInfo {
			d[k] = v
		}
		for k, v := range extra {
			d[k] = v
		}
		c.Fail(fmt.Sprintf("FileConfig.%s:differs-from-independent-parse/%s", getter, class), what, d)
	}

	// GetValue
	n++
	c.Count("getter_checks_GetValue", 1)
	if got := conf.GetValue(key); got != tv {
		fail("GetValue", state(readValid), fmt.Sprintf("GetValue(%q) = %s, the file holds %s", key, quoteClip(got, 80), quoteClip(tv, 80)), tv, got, nil)
	}

	// GetValueDef
	for _, def := range []string{"", "dflt-" + word(r)} {
		n++
		c.Count("getter_checks_GetValueDef", 1)
		exp := tv
		if exp == "" {
			exp = def
		}
		if got := conf.GetValueDef(key, def); got != exp {
			fail("GetValueDef", state(readValid), fmt.Sprintf("GetValueDef(%q,%q) = %s, expected %s", key, def, quoteClip(got, 80), quoteClip(exp, 80)), exp, got, map[string]interface{}{"default": def})
		}
	}

	// GetBoolean
	bv, brd := refBool(val)
	for _, def := range []bool{false, true} {
		n++
		c.Count("getter_checks_GetBoolean", 1)
		got := conf.GetBoolean(key, def)
		ok := false
		switch {
		case tv == "" || brd == readMalformed:
			ok = got == def
		case brd == readValid:
			ok = got == bv
		default:
			ok = got == bv || got == def
		}
		if !ok {
			fail("GetBoolean", state(brd), fmt.Sprintf("GetBoolean(%q,%v) = %v for value %s (%s)", key, def, got, quoteClip(tv, 40), state(brd)), map[string]interface{}{"parsed": bv, "reading": brd.String(), "default": def}, got, nil)
		}
	}

	// GetInt
	{
		iv, ird := refInt(val, 32)
		def := int(r.I32())
		n++
		c.Count("getter_checks_GetInt", 1)
		got := conf.GetInt(key, def)
		ok := false
		switch {
		case tv == "" || ird == readMalformed:
			ok = got == int32(def)
		case ird == readValid:
			ok = got == int32(iv)
		default:
			ok = got == int32(iv) || got == int32(def)
		}
		if !ok {
			fail("GetInt", state(ird), fmt.Sprintf("GetInt(%q,%d) = %d for value %s (%s)", key, def, got, quoteClip(tv, 40), state(ird)), map[string]interface{}{"parsed": iv, "reading": ird.String(), "default": def}, got, nil)
		}
	}

	// GetLong
	{
		lv, lrd := refInt(val, 64)
		def := r.I64()
		n++
		c.Count("getter_checks_GetLong", 1)
		got := conf.GetLong(key, def)
		ok := false
		switch {
		case tv == "" || lrd == readMalformed:
			ok = got == def
		case lrd == readValid:
			ok = got == lv
		default:
			ok = got == lv || got == def
		}
		if !ok {
			fail("GetLong", state(lrd), fmt.Sprintf("GetLong(%q,%d) = %d for value %s (%s)", key, def, got, quoteClip(tv, 40), state(lrd)), map[string]interface{}{"parsed": strconv.FormatInt(lv, 10), "reading": lrd.String(), "default": strconv.FormatInt(def, 10)}, strconv.FormatInt(got, 10), nil)
		}
	}

	// GetFloat
	{
		fv, frd := refFloat32(val)
		def := r.F32NoNaN()
		n++
		c.Count("getter_checks_GetFloat", 1)
		got := conf.GetFloat(key, def)
		same := func(a, b float32) bool { return a == b || math.Float32bits(a) == math.Float32bits(b) }
		ok := false
		switch {
		case tv == "" || frd == readMalformed:
			ok = same(got, def)
		case frd == readValid:
			ok = same(got, fv)
		default:
			ok = true // spelling accepted by some parsers only (inf, nan, hex, +x, out of range)
		}
		if !ok {
			fail("GetFloat", state(frd), fmt.Sprintf("GetFloat(%q,%v) = %v for value %s (%s)", key, def, got, quoteClip(tv, 40), state(frd)), map[string]interface{}{"parsed_bits": math.Float32bits(fv), "parsed": fmt.Sprint(fv), "reading": frd.String(), "default": fmt.Sprint(def)}, fmt.Sprint(got), nil)
		}
	}

	// list getters
	deli := []string{",", ";", ",;", "|", ","}[r.Intn(5)]
	defList, _ := intList(r, false)
	if r.Chance(1, 4) {
		defList = ""
	}
	src := tv
	srcIsDefault := false
	if src == "" {
		src = defList
		srcIsDefault = true
	}
	toks := refTokens(src, deli)
	defToks := refTokens(defList, deli)

	// GetIntSet
	{
		allValid := true
		valid := map[int32]bool{}
		for _, t := range toks {
			v, rd := refInt(t, 32)
			switch rd {
			case readValid:
				valid[int32(v)] = true
			case readEither:
				allValid = false // "+5": member or not
			default:
				allValid = false
			}
		}
		defSet := map[int32]bool{}
		for _, t := range defToks {
			if v, rd := refInt(t, 32); rd == readValid {
				defSet[int32(v)] = true
			}
		}
		class := "valid-list"
		switch {
		case srcIsDefault:
			class = "absent-uses-default-list"
		case !allValid:
			class = "list-with-malformed-token"
		}
		n++
		c.Count("getter_checks_GetIntSet", 1)
		got := conf.GetIntSet(key, defList, deli)
		gs := map[int32]bool{}
		for _, x := range got {
			gs[x] = true
		}
		ok := false
		if allValid {
			ok = sameSet(gs, valid)
		} else {
			// malformed tokens: either they are skipped, or the whole value falls back
			ok = subsetWithAll(gs, valid, toks) || sameSet(gs, defSet)
		}
		if !ok {
			fail("GetIntSet", class, fmt.Sprintf("GetIntSet(%q,%q,%q) = %v for %s; integers in it: %v", key, defList, deli, clipInts(got), quoteClip(src, 60), setList(valid)), setList(valid), clipInts(got), map[string]interface{}{"default": defList, "deli": deli, "source": clipStr(src, 200)})
		}
	}

	// GetStringArray: compared modulo blank tokens
	{
		class := "value"
		if srcIsDefault {
			class = "absent-uses-default-list"
		}
		n++
		c.Count("getter_checks_GetStringArray", 1)
		got := conf.GetStringArray(key, defList, deli)
		var g2 []string
		for _, t := range got {
			if refTrim(t) != "" {
				g2 = append(g2, t)
			}
		}
		ok := len(g2) == len(toks)
		for i := 0; ok && i < len(toks); i++ {
			ok = g2[i] == toks[i]
		}
		if !ok {
			fail("GetStringArray", class, fmt.Sprintf("GetStringArray(%q,%q,%q) = %d tokens, expected %d", key, defList, deli, len(g2), len(toks)), clipStrs(toks), clipStrs(got), map[string]interface{}{"default": defList, "deli": deli})
		}
	}

	// GetStringHashSet (CRC-32 of each trimmed token)
	{
		class := "value"
		if srcIsDefault {
			class = "absent-uses-default-list"
		}
		exp := map[int32]bool{}
		for _, t := range toks {
			exp[refCRC32(t)] = true
		}
		n++
		c.Count("getter_checks_GetStringHashSet", 1)
		got := conf.GetStringHashSet(key, defList, deli)
		gs := map[int32]bool{}
		for _, x := range got {
			gs[x] = true
		}
		delete(gs, refCRC32("")) // a blank token may or may not be hashed
		delete(exp, refCRC32(""))
		if !sameSet(gs, exp) {
			fail("GetStringHashSet", class, fmt.Sprintf("GetStringHashSet(%q,…,%q) differs from the CRC-32 of the tokens of %s", key, deli, quoteClip(src, 60)), setList(exp), clipInts(got), map[string]interface{}{"default": defList, "deli": deli})
		}
	}

	// GetStringHashCodeSet (31-polynomial hash; decided for ASCII tokens only)
	if isASCII(src) {
		class := "value"
		if srcIsDefault {
			class = "absent-uses-default-list"
		}
		exp := map[int32]bool{}
		for _, t := range toks {
			exp[refJavaHash(t)] = true
		}
		n++
		c.Count("getter_checks_GetStringHashCodeSet", 1)
		got := conf.GetStringHashCodeSet(key, defList, deli)
		gs := map[int32]bool{}
		for _, x := range got {
			gs[x] = true
		}
		delete(gs, 0)
		delete(exp, 0)
		if !sameSet(gs, exp) {
			fail("GetStringHashCodeSet", class, fmt.Sprintf("GetStringHashCodeSet(%q,…,%q) differs from the 31-hash of the tokens of %s", key, deli, quoteClip(src, 60)), setList(exp), clipInts(got), map[string]interface{}{"default": defList, "deli": deli})
		}
	}
	return n
}

func sameSet(a, b map[int32]bool) bool {
	if len(a) != len(b) {
		return false
	}
	for k := range a {
		if !b[k] {
			return false
		}
	}
	return true
}

// subsetWithAll: got contains every certainly-valid integer and nothing that is not the
// reading of some token ("+5" may be in or out).
func subsetWithAll(got, valid map[int32]bool, toks []string) bool {
	for k := range valid {
		if !got[k] {
			return false
		}
	}
	maybe := map[int32]bool{}
	for _, t := range toks {
		if v, rd := refInt(t, 32); rd != readMalformed {
			maybe[int32(v)] = true
		} else if v64, rd64 := refInt(t, 64); rd64 != readMalformed {
			// an integer outside the 32-bit range: skipped, or kept after narrowing
			maybe[int32(v64)] = true
		}
	}
	for k := range got {
		if !maybe[k] {
			return false
		}
	}
	return true
}

func setList(m map[int32]bool) []int32 {
	l := make([]int32, 0, len(m))
	for k := range m {
		l = append(l, k)
	}
	sort.Slice(l, func(i, j int) bool { return l[i] < l[j] })
	if len(l) > 20 {
		l = l[:20]
	}
	return l
}

func clipInts(l []int32) []int32 {
	if len(l) > 20 {
		return l[:20]
	}
	return l
}

func clipStrs(l []string) []string {
	out := make([]string, 0, len(l))
	for i, s := range l {
		if i >= 12 {
			break
		}
		out = append(out, clipStr(s, 60))
	}
	return out
}
