package main

// Independent reference for the ".properties" syntax and for the typed readings of a value.
// Written from the Java java.util.Properties.load description (natural lines, logical lines,
// key / separator / element, escapes); it shares no code with golib or with the properties
// library golib uses. Only '\n' line ends are produced by the generators of this worker.

import (
	"hash/crc32"
	"math"
	"math/big"
	"regexp"
	"strings"
)

type refLineKind int

const (
	lineBlank refLineKind = iota
	lineComment
	lineKV
)

// refLine is one LOGICAL line of the file (a key/value may span several natural lines).
type refLine struct {
	Kind refLineKind
	Raw  string // natural line(s) text without the final '\n'
	Key  string
	Val  string
}

func isPropWS(c byte) bool { return c == ' ' || c == '\t' || c == '\f' }

// refParseLines splits text into logical lines and decodes the key/value ones.
func refParseLines(text string) []refLine {
	var out []refLine
	nat := strings.Split(text, "\n")
	// a final "\n" yields one empty trailing element that is not a line
	if len(nat) > 0 && nat[len(nat)-1] == "" {
		nat = nat[:len(nat)-1]
	}
	for i := 0; i < len(nat); i++ {
		ln := nat[i]
		j := 0
		for j < len(ln) && isPropWS(ln[j]) {
			j++
		}
		if j == len(ln) {
			out = append(out, refLine{Kind: lineBlank, Raw: ln})
			continue
		}
		if ln[j] == '#' || ln[j] == '!' {
			out = append(out, refLine{Kind: lineComment, Raw: ln})
			continue
		}
		raw := ln
		logical := ln[j:]
		for endsWithOddBackslashes(logical) && i+1 < len(nat) {
			logical = logical[:len(logical)-1]
			i++
			nx := nat[i]
			raw += "\n" + nx
			k := 0
			for k < len(nx) && isPropWS(nx[k]) {
				k++
			}
			logical += nx[k:]
		}
		if endsWithOddBackslashes(logical) {
			// backslash followed by end of input: dropped
			logical = logical[:len(logical)-1]
		}
		k, v := refSplitKV(logical)
		out = append(out, refLine{Kind: lineKV, Raw: raw, Key: k, Val: v})
	}
	return out
}

func endsWithOddBackslashes(s string) bool {
	n := 0
	for i := len(s) - 1; i >= 0 && s[i] == '\\'; i-- {
		n++
	}
	return n%2 == 1
}

func refSplitKV(s string) (string, string) {
	i := 0
	for i < len(s) {
		c := s[i]
		if c == '\\' {
			i += 2
			continue
		}
		if c == '=' || c == ':' || isPropWS(c) {
			break
		}
		i++
	}
	if i > len(s) {
		i = len(s)
	}
	rawKey := s[:i]
	for i < len(s) && isPropWS(s[i]) {
		i++
	}
	if i < len(s) && (s[i] == '=' || s[i] == ':') {
		i++
		for i < len(s) && isPropWS(s[i]) {
			i++
		}
	}
	return refUnescape(rawKey), refUnescape(s[i:])
}

func refUnescape(s string) string {
	if !strings.Contains(s, "\\") {
		return s
	}
	var b strings.Builder
	for i := 0; i < len(s); i++ {
		c := s[i]
		if c != '\\' {
			b.WriteByte(c)
			continue
		}
		i++
		if i >= len(s) {
			break
		}
		switch s[i] {
		case 't':
			b.WriteByte('\t')
		case 'n':
			b.WriteByte('\n')
		case 'r':
			b.WriteByte('\r')
		case 'f':
			b.WriteByte('\f')
		case 'u':
			v, ok := 0, i+4 <= len(s)-1
			for k := 1; k <= 4 && ok; k++ {
				d := hexVal(s[i+k])
				if d < 0 {
					ok = false
				}
				v = v*16 + d
			}
			if ok {
				b.WriteRune(rune(v))
				i += 4
			} else {
				b.WriteByte('u')
			}
		default:
			b.WriteByte(s[i])
		}
	}
	return b.String()
}

func hexVal(c byte) int {
	switch {
	case c >= '0' && c <= '9':
		return int(c - '0')
	case c >= 'a' && c <= 'f':
		return int(c-'a') + 10
	case c >= 'A' && c <= 'F':
		return int(c-'A') + 10
	}
	return -1
}

// refParse returns the keys in order of first appearance and the final key→value map.
func refParse(text string) ([]string, map[string]string) {
	m := map[string]string{}
	var keys []string
	for _, l := range refParseLines(text) {
		if l.Kind != lineKV {
			continue
		}
		if _, ok := m[l.Key]; !ok {
			keys = append(keys, l.Key)
		}
		m[l.Key] = l.Val
	}
	return keys, m
}

// refEncodeValue renders a value as element text that the syntax decodes back to it.
// unicodeEscapes: write non-ASCII BMP runes as \uXXXX instead of raw UTF-8.
func refEncodeValue(v string, unicodeEscapes bool) string {
	var b strings.Builder
	for i, r := range v {
		switch {
		case r == '\\':
			b.WriteString("\\\\")
		case r == '\n':
			b.WriteString("\\n")
		case r == '\r':
			b.WriteString("\\r")
		case r == '\t':
			b.WriteString("\\t")
		case r == '\f':
			b.WriteString("\\f")
		case r == ' ' && i == 0:
			b.WriteString("\\ ")
		case r > 126 && r < 0x10000 && unicodeEscapes:
			const hx = "0123456789abcdef"
			b.WriteString("\\u")
			b.WriteByte(hx[(r>>12)&15])
			b.WriteByte(hx[(r>>8)&15])
			b.WriteByte(hx[(r>>4)&15])
			b.WriteByte(hx[r&15])
		default:
			b.WriteRune(r)
		}
	}
	return b.String()
}

func refEncodeKey(k string) string {
	var b strings.Builder
	for _, r := range k {
		switch r {
		case '\\', ' ', '=', ':', '#', '!':
			b.WriteByte('\\')
			b.WriteRune(r)
		case '\t':
			b.WriteString("\\t")
		default:
			b.WriteRune(r)
		}
	}
	return b.String()
}

// ---- typed readings -----------------------------------------------------------------

// A reading is what a typed getter may legitimately return for one value text.
type reading int

const (
	readValid     reading = iota // the text is unambiguously a value of the type
	readMalformed                // the text is unambiguously NOT a value of the type: default
	readEither                   // spelling that some parsers accept and some do not: value or default
)

func (r reading) String() string {
	switch r {
	case readValid:
		return "valid"
	case readMalformed:
		return "malformed"
	}
	return "lenient-spelling"
}

var (
	reInt      = regexp.MustCompile(`^-?[0-9]+$`)
	rePlusInt  = regexp.MustCompile(`^\+[0-9]+$`)
	reFloat    = regexp.MustCompile(`^-?([0-9]+\.?[0-9]*|\.[0-9]+)([eE][-+]?[0-9]{1,3})?$`)
	reFloatish = regexp.MustCompile(`(?i)^[-+]?(inf|infinity|nan|0x[0-9a-f.]+(p[-+]?[0-9]+)?|[0-9_.]+([e][-+]?[0-9_]+)?)$`)
)

func refTrim(s string) string { return strings.TrimSpace(s) }

func refBool(v string) (bool, reading) {
	t := refTrim(v)
	switch t {
	case "true":
		return true, readValid
	case "false":
		return false, readValid
	}
	switch strings.ToLower(t) {
	case "true", "t", "1", "yes", "y", "on":
		return true, readEither
	case "false", "f", "0", "no", "n", "off":
		return false, readEither
	}
	return false, readMalformed
}

func refInt(v string, bits int) (int64, reading) {
	t := refTrim(v)
	rd := readValid
	if rePlusInt.MatchString(t) {
		rd = readEither
		t = t[1:]
	} else if !reInt.MatchString(t) {
		return 0, readMalformed
	}
	n, ok := new(big.Int).SetString(t, 10)
	if !ok {
		return 0, readMalformed
	}
	lo := new(big.Int).Lsh(big.NewInt(-1), uint(bits-1))
	hi := new(big.Int).Sub(new(big.Int).Lsh(big.NewInt(1), uint(bits-1)), big.NewInt(1))
	if n.Cmp(lo) < 0 || n.Cmp(hi) > 0 {
		return 0, readMalformed // not a value of the type: default
	}
	return n.Int64(), rd
}

func refFloat32(v string) (float32, reading) {
	t := refTrim(v)
	if !reFloat.MatchString(t) {
		if reFloatish.MatchString(t) {
			return 0, readEither
		}
		return 0, readMalformed
	}
	r, ok := new(big.Rat).SetString(t)
	if !ok {
		return 0, readEither
	}
	f, _ := r.Float32()
	if math.IsInf(float64(f), 0) {
		return f, readEither // out of range: infinity or default
	}
	return f, readValid
}

// refTokens splits on any of the delimiter characters; empty pieces are dropped and each
// piece is trimmed (pieces that are blank after trimming are dropped too: the comparison
// of lists is made modulo blank tokens on both sides).
func refTokens(s, deli string) []string {
	var out []string
	if deli == "" {
		if t := refTrim(s); t != "" {
			out = append(out, t)
		}
		return out
	}
	for _, p := range strings.FieldsFunc(s, func(c rune) bool { return strings.ContainsRune(deli, c) }) {
		if t := refTrim(p); t != "" {
			out = append(out, t)
		}
	}
	return out
}

func refCRC32(s string) int32 { return int32(crc32.ChecksumIEEE([]byte(s))) }

// refJavaHash is String.hashCode for ASCII text (wrapping 32-bit arithmetic).
func refJavaHash(s string) int32 {
	var h int32
	for i := 0; i < len(s); i++ {
		h = 31*h + int32(s[i])
	}
	return h
}

func isASCII(s string) bool {
	for i := 0; i < len(s); i++ {
		if s[i] >= 0x80 {
			return false
		}
	}
	return true
}
