// wC18 — file configuration tracks the file, notifies observers and writes back safely.
//
// Sections (see DESIGN.md §4 C18):
//
//	tracking              random edit histories with pinned modification times, reload points
//	                      (polls) between and after the edits; visibility of every key=value,
//	                      every typed getter against an independent reading, observers
//	real-poll             one case through the untouched 3 s polling goroutine
//	concurrency           getters in 1..8 goroutines next to edit+reload loops (grandchild
//	                      process; race detector in the race flavour; fatal errors keyed)
//	snapshot              String()/ToString()/GetKeys() next to reloads of files whose many
//	                      keys all carry one generation token: one call shows one state
//	write-back            SetValues on files with comments / blank lines / ordered keys
//	write-back-divergent  SetValues while the file and the loaded state disagree (external
//	                      edits not loaded yet, keys deleted earlier, defaults after a missing
//	                      file, in-memory overrides); oracle against the file
//	write-back-fault      SetValues when the write-back cannot go its ordinary way (no room for
//	                      a sibling file: name near NAME_MAX through WHATAP_CONFIG, immutable
//	                      directory; a parser whose Write fails or stores part of the keys; keys
//	                      the writer drops), watched by concurrent readers of a large file:
//	                      file old or merge at every instant, getters against the file after
//	observer-histories    registration histories on one ConfigObserver (new names, re-used names,
//	                      one object under two names, before the first load / between polls /
//	                      between an edit and its poll): every currently registered observer
//	                      is run by the poll that loads a change
//	edit-during-reload    a second save lands right before / right after the library's Read
//	                      inside one poll (own FileParser through WithParser), then quiet polls
//	atomicity-sampler     concurrent re-reads of a large file during SetValues
//	atomicity-crashpoints (thorough) SIGKILL at every file syscall of the write-back (strace)
//	hostile-syntax        files on which the properties library reports an error
package main

import (
	"os"
	"time"

	"github.com/magiconair/properties"

	"verif/vlib"
)

func main() {
	// grandchild modes (no vlib flags)
	if len(os.Args) > 1 {
		switch os.Args[1] {
		case "child-stress":
			clearEnv()
			childStress(os.Args[2:])
			return
		case "child-snap":
			clearEnv()
			childSnap(os.Args[2:])
			return
		case "child-write":
			clearEnv()
			childWrite(os.Args[2:])
			return
		case "child-hostile":
			clearEnv()
			childHostile(os.Args[2:])
			return
		}
	}
	clearEnv()
	// Containment for the in-process sections only: the properties library's default error
	// handler is log.Fatal (process exit). No in-process section feeds it a file it rejects;
	// should a changed tree write one, the panic is caught per case instead of ending the
	// shard. The default handler is what the hostile-syntax grandchildren run with.
	properties.ErrorHandler = properties.PanicHandler

	c := vlib.Start("C18")
	race := c.Flavour == "race"

	if race {
		timed(c, "tracking", func() { c.Cases("tracking", c.N(160, 1500), func(i int, r *vlib.Rand) { trackCase(c, i, r) }) })
	} else {
		timed(c, "tracking", func() { c.Cases("tracking", c.N(2400, 40000), func(i int, r *vlib.Rand) { trackCase(c, i, r) }) })
	}
	timed(c, "write-back", func() { c.Cases("write-back", c.N(pick(race, 200, 2400), pick(race, 1500, 40000)), func(i int, r *vlib.Rand) { writebackCase(c, i, r) }) })
	timed(c, "write-back-divergent", func() {
		c.Cases("write-back-divergent", c.N(pick(race, 150, 1600), pick(race, 1000, 24000)), func(i int, r *vlib.Rand) { divergentCase(c, i, r) })
	})
	timed(c, "write-back-fault", func() {
		c.Cases("write-back-fault", c.N(pick(race, 60, 800), pick(race, 500, 8000)), func(i int, r *vlib.Rand) { wbFaultCase(c, i, r) })
	})
	timed(c, "edit-during-reload", func() {
		c.Cases("edit-during-reload", c.N(pick(race, 150, 1600), pick(race, 1000, 24000)), func(i int, r *vlib.Rand) { midReloadCase(c, i, r) })
	})
	timed(c, "observer-histories", func() {
		c.Cases("observer-histories", c.N(pick(race, 150, 1600), pick(race, 1000, 24000)), func(i int, r *vlib.Rand) { obsHistCase(c, i, r) })
	})
	timed(c, "atomicity-sampler", func() { c.Cases("atomicity-sampler", c.N(pick(race, 2, 8), pick(race, 4, 32)), func(i int, r *vlib.Rand) { samplerCase(c, i, r) }) })
	timed(c, "concurrency", func() { c.Cases("concurrency", c.N(pick(race, 8, 24), pick(race, 32, 160)), func(i int, r *vlib.Rand) { stressCase(c, i, r) }) })
	timed(c, "snapshot", func() { c.Cases("snapshot", c.N(pick(race, 8, 24), pick(race, 16, 96)), func(i int, r *vlib.Rand) { snapCase(c, i, r) }) })
	if !race {
		timed(c, "hostile-syntax", func() { c.Cases("hostile-syntax", 6, func(i int, r *vlib.Rand) { hostileCase(c, i, r) }) })
		if c.Thorough() {
			timed(c, "atomicity-crashpoints", func() { c.Cases("atomicity-crashpoints", 24, func(i int, r *vlib.Rand) { crashCase(c, i, r) }) })
		}
	}
	c.Cases("mtime-probe", 1, func(i int, r *vlib.Rand) { mtimeProbe(c, i, r) })
	timed(c, "real-poll", func() { c.Cases("real-poll", 1, func(i int, r *vlib.Rand) { realPollCase(c, i, r) }) })

	// observation floors (per shard; the driver sums them)
	if !race {
		n := int64(c.N(2400, 40000) / c.NShards)
		c.Floor("histories", n/10, c.Counter("histories"))
		c.Floor("getter_comparisons", n, c.Counter("getter_comparisons"))
		c.Floor("writebacks", int64(c.N(2400, 40000)/c.NShards)/10, c.Counter("writebacks"))
		c.Floor("reload_points_changed_within_same_second", n/100, c.Counter("reload_points_changed_within_same_second"))
		c.Floor("sampler_observations_overlapping_the_call", 20, c.Counter("sampler_size_probes_overlapping_the_call")+c.Counter("sampler_reads_overlapping_the_call"))
		c.Floor("stress_runs", 1, c.Counter("stress_runs"))
		c.Floor("reload_points_changed_with_older_mtime", n/30, c.Counter("reload_points_changed_with_older_mtime"))
		c.Floor("final_edits_with_older_mtime", n/60, c.Counter("final_edits_with_older_mtime"))
		c.Floor("reload_points_changed_with_equal_mtime", n/100, c.Counter("reload_points_changed_with_equal_mtime"))
		nd := int64(c.N(1600, 24000) / c.NShards)
		c.Floor("writebacks_with_file_and_loaded_state_disagreeing", nd/10, c.Counter("writebacks_with_file_and_loaded_state_disagreeing"))
		c.Floor("divergent_untouched_key_checks_on_disagreeing_keys", nd/10, c.Counter("divergent_untouched_key_checks_on_disagreeing_keys"))
		c.Floor("divergent_deleted_key_stays_deleted_checks", nd/20, c.Counter("divergent_deleted_key_stays_deleted_checks"))
		c.Floor("mid_reload_actions_after-read", nd/20, c.Counter("mid_reload_actions_after-read"))
		c.Floor("mid_reload_actions_before-read", nd/40, c.Counter("mid_reload_actions_before-read"))
		c.Floor("observer_history_expectations", nd/2, c.Counter("observer_history_expectations"))
		c.Floor("observer_history_expectations/re-registered-name", nd/10, c.Counter("observer_history_expectations/re-registered-name"))
		nf := int64(c.N(800, 8000) / c.NShards)
		c.Floor("wbfault_writebacks", nf/10, c.Counter("wbfault_writebacks"))
		c.Floor("wbfault_clean_failures", nf/20, c.Counter("wbfault_clean_failures"))
		c.Floor("wbfault_cases/conf-name-near-NAME_MAX", nf/50, c.Counter("wbfault_cases/conf-name-near-NAME_MAX"))
		if immutableUsable() {
			// only where the flag works at all (root or CAP_LINUX_IMMUTABLE, ext4/xfs/btrfs/tmpfs)
			c.Floor("wbfault_cases/immutable-dir", nf/50, c.Counter("wbfault_cases/immutable-dir"))
		} else {
			c.Note("write-back-fault: the immutable flag cannot be set or does not keep files from being created here; fault class immutable-dir was not exercised")
		}
		c.Floor("wbfault_observations_overlapping_the_call", nf*20, c.Counter("wbfault_reads_overlapping_the_call")+c.Counter("wbfault_size_probes_overlapping_the_call"))
		c.Floor("wbfault_getter_checks", nf*5, c.Counter("wbfault_getter_checks"))
		c.Floor("wbfault_getter_checks/key-never-in-file", nf/20, c.Counter("wbfault_getter_checks/key-never-in-file"))
		c.Floor("snapshot_calls", 50, c.Counter("snapshot_calls"))
		c.Floor("snapshot_calls_overlapping_a_reload", 10, c.Counter("snapshot_calls_overlapping_a_reload"))
	}
	cleanTmp(c)
	c.Finish()
}

// timed adds the wall time a section took to the evidence counters (information only).
func timed(c *vlib.Ctx, name string, fn func()) {
	t := time.Now()
	fn()
	c.Count("section_ms_"+name, time.Since(t).Milliseconds())
}

func pick(race bool, a, b int) int {
	if race {
		return a
	}
	return b
}

// clearEnv removes the variables that would redirect GetConfFile away from <home>/whatap.conf.
func clearEnv() {
	for _, k := range []string{"WHATAP_HOME", "WHATAP_CONFIG_HOME", "WHATAP_CONFIG"} {
		os.Unsetenv(k)
	}
}
