package main

import (
	"fmt"
	"os"
	"path/filepath"
	"sort"
	"time"

	"github.com/whatap/golib/config"
	"github.com/whatap/golib/config/conffile"

	"verif/vlib"
)

// edit-during-reload: an external save lands WHILE a poll is loading the file.
//
// The tracking section places every edit between two polls. Here the object is built with the
// public WithParser option and a wrapper around DefaultFileParser that runs a scripted action
// right BEFORE or right AFTER the library's Read of the file — i.e. between the poll's look at
// the file's metadata and its parse, or between its parse and whatever it does next. The
// action is a second save (other content; a later / an older / the same modification time,
// in place or by renaming a prepared file over; also content of exactly the same size), or the
// file being moved away for the duration of the read. Then polling continues (two quiet
// polls) and the file no longer changes: everything in the final file must be visible and
// the observers must have been notified of the final state. All modification times are
// pinned with os.Chtimes; no wall clock takes part in a verdict.

type scriptedParser struct {
	inner  *conffile.DefaultFileParser
	before func()
	after  func()
	reads  int
}

func (p *scriptedParser) Read(path string) (map[string]string, error) {
	p.reads++
	if f := p.before; f != nil {
		p.before = nil
		f()
	}
	m, err := p.inner.Read(path)
	if f := p.after; f != nil {
		p.after = nil
		f()
	}
	return m, err
}

func (p *scriptedParser) Write(path string, m *map[string]string) error {
	return p.inner.Write(path, m)
}

const (
	mrLater         = "later-mtime"
	mrLaterSameSize = "later-mtime-same-size"
	mrOlder         = "older-mtime"
	mrEqualSize     = "equal-mtime-other-size-in-place"
	mrEqualReplaced = "equal-mtime-replaced-file"
	mrMovedAway     = "file-moved-away-for-the-read-and-back"
)

type mrStep struct {
	What    string `json:"what"`
	MtimeMs int64  `json:"mtime_unix_ms,omitempty"`
	Method  string `json:"method,omitempty"`
	Content string `json:"content,omitempty"`
}

func midReloadCase(c *vlib.Ctx, i int, r *vlib.Rand) {
	dir := tmpHome("mid")
	defer os.RemoveAll(dir)
	path := filepath.Join(dir, confName)
	pfx := fmt.Sprintf("m%d_", i)
	nkeys, nvals := 0, 0
	val := func() string {
		nvals++
		if r.Chance(1, 3) {
			return fmt.Sprintf("%d%d", r.Range(1, 99999), nvals)
		}
		return plainFileValue(r) + fmt.Sprintf("~%d", nvals)
	}
	fm := &fileModel{}
	addKV := func(f *fileModel, at int) {
		nkeys++
		k := fmt.Sprintf("%s%d.%s", pfx, nkeys, word(r))
		v := val()
		it := item{Kind: itKV, Key: k, Val: v, Text: k + "=" + v}
		if at < 0 || at >= len(f.Items) {
			f.Items = append(f.Items, it)
		} else {
			f.Items = append(f.Items[:at], append([]item{it}, f.Items[at:]...)...)
		}
	}
	for n := r.Range(2, 8); n > 0; n-- {
		if r.Chance(1, 5) {
			fm.Items = append(fm.Items, item{Kind: itComment, Text: "# " + plainText(r, 0, 30)})
		} else {
			addKV(fm, -1)
		}
	}
	eqKey := pfx + "eq.digit"
	fm.Items = append(fm.Items, item{Kind: itKV, Key: eqKey, Val: "5", Text: eqKey + "=5"})

	// an edit that always changes something visible
	edit := func() string {
		kk := fm.keys()
		op := ""
		switch x := r.Intn(10); {
		case x < 4:
			op = "change"
			k := kk[r.Intn(len(kk))]
			for k == eqKey && len(kk) > 1 {
				k = kk[r.Intn(len(kk))]
			}
			if k == eqKey {
				addKV(fm, -1)
				return "add"
			}
			idx := fm.find(k)
			v := val()
			fm.Items[idx].Val, fm.Items[idx].Text = v, k+"="+v
		case x < 7:
			op = "add"
			addKV(fm, r.Intn(len(fm.Items)+1))
		case x < 8 && len(kk) > 2:
			op = "delete+add"
			k := kk[r.Intn(len(kk))]
			if k != eqKey {
				idx := fm.find(k)
				fm.Items = append(fm.Items[:idx], fm.Items[idx+1:]...)
			}
			addKV(fm, -1)
		default:
			op = "rewrite"
			old := fm.clone()
			nf := &fileModel{}
			r.Shuffle(len(old.Items), func(a, b int) { old.Items[a], old.Items[b] = old.Items[b], old.Items[a] })
			for _, it := range old.Items {
				if it.Key == eqKey || r.Chance(2, 3) {
					nf.Items = append(nf.Items, it)
				}
			}
			fm = nf
			for n := r.Range(1, 3); n > 0; n-- {
				addKV(fm, r.Intn(len(fm.Items)+1))
			}
		}
		return op
	}
	flipDigit := func() {
		idx := fm.find(eqKey)
		d := string(rune('0' + (int(fm.Items[idx].Val[0]-'0')+r.Range(1, 9))%10))
		fm.Items[idx].Val, fm.Items[idx].Text = d, eqKey+"="+d
	}

	// pinned, pairwise different modification times (except where a variant says "equal")
	used := map[int64]bool{}
	clock := time.Unix(1_620_000_000+int64(i%100000)*100, int64(r.Range(0, 999))*1e6)
	later := func() time.Time {
		for {
			if r.Chance(1, 2) {
				clock = clock.Add(time.Duration(r.Range(1, 400)) * time.Millisecond)
			} else {
				clock = clock.Add(time.Duration(r.Range(1000, 4000)) * time.Millisecond)
			}
			if !used[clock.UnixNano()] {
				used[clock.UnixNano()] = true
				return clock
			}
		}
	}
	older := func(than time.Time) time.Time {
		for {
			var d time.Duration
			switch r.Intn(3) {
			case 0:
				d = time.Duration(r.Range(1, 900)) * time.Millisecond
			case 1:
				d = time.Duration(r.Range(1, 50)) * time.Second
			default:
				d = time.Duration(r.Range(1, 72)) * time.Hour
			}
			t := than.Add(-d)
			if !used[t.UnixNano()] {
				used[t.UnixNano()] = true
				return t
			}
		}
	}
	method := func() string {
		if r.Chance(1, 2) {
			return emReplace
		}
		return emInPlace
	}

	sp := &scriptedParser{inner: conffile.NewDefaultFileParser()}
	co := config.NewConfigObserver()
	nObs := r.Range(1, 2)
	observers := make([]*recObserver, nObs)
	for k := range observers {
		observers[k] = &recObserver{}
		co.Add(fmt.Sprintf("obs-%d", k), observers[k])
	}
	allKeys := map[string]bool{}
	setObsKeys := func() {
		for _, k := range fm.keys() {
			allKeys[k] = true
		}
		l := make([]string, 0, len(allKeys))
		for k := range allKeys {
			l = append(l, k)
		}
		sort.Strings(l)
		for _, o := range observers {
			o.setKeys(l)
		}
	}

	var steps []mrStep
	t0 := later()
	writeFileAt(path, fm.text(), t0)
	steps = append(steps, mrStep{"initial file, then the object is created", t0.UnixMilli(), emInPlace, clipStr(fm.text(), 1500)})
	setObsKeys()
	conf := newConf(dir, conffile.WithParser(sp), conffile.WithConfigObserver(co))
	defer conf.VerifStop()

	rounds := r.Range(1, 3)
	lastMode, lastVariant := "", ""
	readFailed := false
	for round := 1; round <= rounds; round++ {
		// ---- an ordinary external save, seen by the poll that follows ----
		op := edit()
		t1 := later()
		m1 := method()
		c1 := fm.text()
		placeFile(path, c1, t1, m1)
		steps = append(steps, mrStep{"external save (" + op + ")", t1.UnixMilli(), m1, clipStr(c1, 1500)})

		// ---- what happens during that poll ----
		mode := []string{"none", "before-read", "after-read", "after-read"}[r.Intn(4)]
		if round == rounds && mode == "none" {
			mode = []string{"before-read", "after-read"}[r.Intn(2)]
		}
		if mode == "none" {
			setObsKeys()
			conf.VerifReloadNow()
			steps = append(steps, mrStep{What: "poll (nothing happens during it)"})
			continue
		}
		variant := []string{mrLater, mrLater, mrLater, mrLaterSameSize, mrLaterSameSize, mrOlder, mrEqualSize, mrEqualReplaced}[r.Intn(8)]
		if round == rounds && r.Chance(1, 8) {
			variant = mrMovedAway
		}
		ran := false
		if variant != mrMovedAway {
			c.SetAdd("mid_reload_variants", mode+"/"+variant)
		} else {
			c.SetAdd("mid_reload_variants", "around-read/"+variant)
			// the file is not there for the duration of the read (an editor or a deployment
			// step that moves the file aside and back); same file, same content afterwards
			away := path + ".away"
			sp.before = func() {
				if err := os.Rename(path, away); err != nil {
					panic(err)
				}
			}
			sp.after = func() {
				ran = true
				if err := os.Rename(away, path); err != nil {
					panic(err)
				}
			}
			setObsKeys()
			conf.VerifReloadNow()
			if !ran {
				sp.before, sp.after = nil, nil
				if _, err := os.Stat(away); err == nil {
					os.Rename(away, path)
				}
				c.Count("mid_reload_actions_not_reached", 1)
			} else {
				readFailed = true
				c.Count("mid_reload_reads_that_found_no_file", 1)
			}
			steps = append(steps, mrStep{What: "poll; the file is moved aside right before the library's Read and moved back right after it (same file, same content, same modification time)"})
			lastMode, lastVariant = "around-read", variant
			continue
		}
		// the second save
		var t2 time.Time
		m2 := method()
		op2 := ""
		switch variant {
		case mrLater:
			op2 = edit()
			t2 = later()
		case mrLaterSameSize:
			flipDigit()
			op2 = "change-one-digit"
			t2 = later()
		case mrOlder:
			op2 = edit()
			t2 = older(t1)
		case mrEqualSize:
			addKV(fm, -1) // longer than the first save
			op2 = "add"
			t2, m2 = t1, emInPlace
		case mrEqualReplaced:
			op2 = edit()
			t2, m2 = t1, emReplace
		}
		c2 := fm.text()
		act := func() {
			ran = true
			placeFile(path, c2, t2, m2)
		}
		if mode == "before-read" {
			sp.before = act
		} else {
			sp.after = act
		}
		setObsKeys()
		conf.VerifReloadNow()
		if !ran {
			// the poll did not read the file at all (cannot happen while a changed
			// modification time makes it read): the save still takes place, as an ordinary one
			sp.before, sp.after = nil, nil
			act()
			c.Count("mid_reload_actions_not_reached", 1)
		} else {
			c.Count("mid_reload_actions_"+mode, 1)
		}
		steps = append(steps, mrStep{"poll; second external save (" + op2 + ", " + variant + ") lands right " + mode + " of the library's Read", t2.UnixMilli(), m2, clipStr(c2, 1500)})
		lastMode, lastVariant = mode, variant
	}

	// ---- the file has stopped changing; polling continues ----
	setObsKeys()
	conf.VerifReloadNow()
	conf.VerifReloadNow()
	steps = append(steps, mrStep{What: "two quiet polls"})
	c.Count("mid_reload_quiet_poll_pairs", 1)

	bb, err := os.ReadFile(path)
	if err != nil {
		panic(err)
	}
	final := string(bb)
	_, cur := refParse(final)
	class := "edit-during-reload"
	if readFailed {
		class = "read-failed-during-reload"
	}
	detail := func() map[string]interface{} {
		return map[string]interface{}{"steps": steps, "final_file": clipStr(final, 2000), "last_action": lastMode + "/" + lastVariant, "parser_reads": sp.reads}
	}
	fkeys := make([]string, 0, len(cur))
	for k := range cur {
		fkeys = append(fkeys, k)
	}
	sort.Strings(fkeys)
	for _, k := range fkeys {
		exp := refTrim(cur[k])
		if exp == "" {
			continue
		}
		c.Count("mid_reload_visibility_checks", 1)
		if got := conf.GetValue(k); got != exp {
			d := detail()
			d["key"], d["expected"], d["got"] = k, clipStr(exp, 300), clipStr(got, 300)
			c.Fail("FileConfig:value-not-visible/"+class, fmt.Sprintf("the last save landed %s of a poll's Read (%s); two further polls later GetValue(%q) = %s, the file holds %s", lastMode, lastVariant, k, quoteClip(got, 60), quoteClip(exp, 60)), d)
			break
		}
	}
	// observers: the most recent notification shows the final state
	for n, o := range observers {
		calls, seen := o.snapshot()
		c.Count("mid_reload_observer_checks", 1)
		bad, badGot := "", ""
		for _, k := range fkeys {
			exp := refTrim(cur[k])
			if exp == "" {
				continue
			}
			if got, ok := seen[k]; !ok || got != exp {
				bad, badGot = k, got
				break
			}
		}
		if bad != "" {
			d := detail()
			d["observer"], d["notifications"], d["key"], d["expected"], d["observer_saw_last"] = n, calls, bad, clipStr(refTrim(cur[bad]), 300), clipStr(badGot, 300)
			c.Fail("FileConfig:observer-not-notified/"+class, fmt.Sprintf("the last save landed %s of a poll's Read (%s); two further polls later observer %d has been called %d times and never since the final content was loaded: its last call saw %s=%s, the file holds %s", lastMode, lastVariant, n, calls, bad, quoteClip(badGot, 60), quoteClip(refTrim(cur[bad]), 60)), d)
			break
		}
	}
	// typed getters on the final state
	nchecks := 0
	for _, k := range fkeys {
		if conf.GetValue(k) == refTrim(cur[k]) {
			nchecks += checkGetters(c, conf, k, cur[k], true, r, map[string]interface{}{"section": "edit-during-reload", "file": clipStr(final, 1500)})
		}
	}
	c.Count("getter_comparisons", int64(nchecks))
	c.Count("mid_reload_histories", 1)
	c.DistinctStr(fmt.Sprintf("mid|%v", steps))
	if c.WantSample() && i%17 == 6 {
		c.Sample(map[string]interface{}{"section": "edit-during-reload", "steps": steps, "final_file": clipStr(final, 1500)})
	}
}
