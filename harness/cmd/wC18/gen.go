package main

import (
	"fmt"
	"strconv"
	"strings"

	"verif/vlib"
)

// ---- value generator ----------------------------------------------------------------

type genVal struct {
	Val   string
	Class string
}

var (
	plainAlpha   = "abcdefghijklmnopqrstuvwxyzABCDEFGHIJKLMNOPQRSTUVWXYZ0123456789_-./,;@%+*()[]<>|~^&'\"?$ "
	specialAlpha = "=:#!"
	uniRunes     = []rune("한국어テスト日本語éüß€Ωж中文")
)

func plainText(r *vlib.Rand, lo, hi int) string {
	n := r.Range(lo, hi)
	b := make([]byte, n)
	for i := range b {
		b[i] = plainAlpha[r.Intn(len(plainAlpha))]
	}
	s := strings.TrimSpace(string(b))
	if s == "" {
		s = "x"
	}
	return noDollarBrace(s)
}

func word(r *vlib.Rand) string {
	n := r.Range(1, 8)
	b := make([]byte, n)
	for i := range b {
		b[i] = "abcdefghijklmnopqrstuvwxyz0123456789_"[r.Intn(37)]
	}
	return string(b)
}

func uniText(r *vlib.Rand) string {
	n := r.Range(1, 10)
	out := make([]rune, n)
	for i := range out {
		if r.Chance(1, 4) {
			out[i] = rune('a' + r.Intn(26))
		} else {
			out[i] = uniRunes[r.Intn(len(uniRunes))]
		}
	}
	return string(out)
}

func fmtFloat(r *vlib.Rand) string {
	switch r.Intn(8) {
	case 0:
		return []string{".5", "5.", "1e5", "-0.25", "1E-3", "0.0", "-.75", "1.e2", "007.50", "3.4028235e38", "1e-50", "1.17549435e-38"}[r.Intn(12)]
	case 1:
		return strconv.FormatFloat(float64(r.F32NoNaN()), 'e', r.Range(0, 8), 32)
	case 2:
		return strconv.Itoa(int(r.I16()))
	default:
		f := float64(r.I32()) / float64([]int{1, 2, 8, 10, 100, 1000}[r.Intn(6)])
		s := strconv.FormatFloat(f, 'f', r.Range(0, 6), 64)
		return s
	}
}

func intList(r *vlib.Rand, bad bool) (string, string) {
	deli := []string{",", ";", ",", "|"}[r.Intn(4)]
	n := r.Range(1, 7)
	parts := make([]string, n)
	for i := range parts {
		parts[i] = strconv.Itoa(int(r.I32()))
		if r.Chance(1, 3) {
			parts[i] = " " + parts[i]
		}
		if r.Chance(1, 4) {
			parts[i] += " "
		}
	}
	if bad {
		k := r.Intn(n)
		parts[k] = []string{"x", "1.5", "12a", "0x1f", "1 2", "--3"}[r.Intn(6)]
	}
	return strings.TrimSpace(strings.Join(parts, deli)), deli
}

func strList(r *vlib.Rand) string {
	deli := []string{",", ";", ","}[r.Intn(3)]
	n := r.Range(1, 6)
	parts := make([]string, n)
	for i := range parts {
		if r.Chance(1, 5) {
			parts[i] = uniText(r)
		} else {
			parts[i] = word(r)
		}
		if r.Chance(1, 3) {
			parts[i] = " " + parts[i] + " "
		}
	}
	return strings.TrimSpace(strings.Join(parts, deli))
}

// genValue draws a value text of a random class. The class is only a label for coverage
// and finding keys: what a getter must return is always decided by the ref* readings.
func genValue(r *vlib.Rand) genVal {
	switch r.Intn(20) {
	case 0:
		return genVal{[]string{"true", "false"}[r.Intn(2)], "bool"}
	case 1:
		return genVal{[]string{"TRUE", "1", "T", "yes", "on", "False", "0", "off", "N", "tRuE"}[r.Intn(10)], "bool-lenient-spelling"}
	case 2, 3:
		return genVal{strconv.Itoa(int(r.I32())), "int32"}
	case 4:
		return genVal{strconv.FormatInt(r.I64(), 10), "int64"}
	case 5:
		return genVal{[]string{"12a", "1.5x", "0x10", "--1", "1 2", "1,000", "9223372036854775808", "-9223372036854775809", "2147483648", "-2147483649", "99999999999999999999999", "+5", "+2147483647"}[r.Intn(13)], "int-malformed-or-edge"}
	case 6, 7:
		return genVal{fmtFloat(r), "float"}
	case 8:
		return genVal{[]string{"1.2.3", "abc", "1,5", "1e", "e5", "1e39", "-3.5e38", "NaN", "Inf", "+1.5", "0x1p-2", "1_0"}[r.Intn(12)], "float-malformed-or-edge"}
	case 9, 10:
		s, _ := intList(r, false)
		return genVal{s, "int-list"}
	case 11:
		s, _ := intList(r, true)
		return genVal{s, "int-list-malformed-token"}
	case 12, 13:
		return genVal{strList(r), "string-list"}
	case 14:
		// '=', ':', '#', '!' inside the value
		s := plainText(r, 1, 12) + string(specialAlpha[r.Intn(4)]) + plainText(r, 1, 12)
		if r.Chance(1, 3) {
			s = string(specialAlpha[r.Intn(4)]) + s
		}
		return genVal{s, "text-separator-chars"}
	case 15:
		// characters that need an escape in the file: tab, newline, backslash, leading blank
		parts := []string{"\t", "\n", "\\", "\\\\", "\r", "\f", " "}
		s := ""
		if r.Chance(1, 3) {
			s = " "
		}
		for k := r.Range(1, 4); k > 0; k-- {
			s += plainText(r, 0, 6) + parts[r.Intn(len(parts))]
		}
		s += word(r)
		return genVal{noDollarBrace(s), "text-escapes"}
	case 16:
		return genVal{uniText(r), "text-unicode"}
	case 17:
		if r.Chance(1, 4) {
			return genVal{plainText(r, 4200, 9000), "text-long"}
		}
		return genVal{plainText(r, 1, 40) + strings.Repeat(" ", r.Range(1, 3)), "text-trailing-blanks"}
	default:
		return genVal{plainText(r, 1, 40), "text-plain"}
	}
}

// ---- file model ---------------------------------------------------------------------

type itemKind int

const (
	itBlank itemKind = iota
	itComment
	itKV
)

type item struct {
	Kind itemKind
	Text string // comment text / rendered key-value line(s)
	Key  string
	Val  string
}

type fileModel struct {
	Items []item
}

func (f *fileModel) text() string {
	var b strings.Builder
	for _, it := range f.Items {
		b.WriteString(it.Text)
		b.WriteByte('\n')
	}
	return b.String()
}

func (f *fileModel) keys() []string {
	var k []string
	for _, it := range f.Items {
		if it.Kind == itKV {
			k = append(k, it.Key)
		}
	}
	return k
}

func (f *fileModel) find(key string) int {
	for i, it := range f.Items {
		if it.Kind == itKV && it.Key == key {
			return i
		}
	}
	return -1
}

func (f *fileModel) clone() *fileModel {
	return &fileModel{Items: append([]item(nil), f.Items...)}
}

// renderKV writes one key/value in a random but valid spelling (separator, blanks, escapes,
// optional continuation line). The spelling is verified against the reference parser; if a
// fancy spelling does not decode to (key, val) the canonical one is used.
func renderKV(r *vlib.Rand, key, val string, fancy bool) string {
	canon := refEncodeKey(key) + "=" + refEncodeValue(val, false)
	if !fancy {
		return canon
	}
	sep := []string{"=", " = ", ":", " : ", " ", "\t", "= ", " =", "=\t"}[r.Intn(9)]
	ev := refEncodeValue(val, r.Chance(1, 3))
	if r.Chance(1, 6) && len(ev) > 3 {
		// continuation line: split at a position that is not inside an escape
		p := r.Range(1, len(ev)-1)
		if ev[p-1] != '\\' && !strings.ContainsRune(" \t\f", rune(ev[p])) && !inUnicodeEscape(ev, p) && ev[p] < 0x80 && ev[p-1] < 0x80 {
			ev = ev[:p] + "\\\n" + strings.Repeat(" ", r.Intn(4)) + ev[p:]
		}
	}
	lead := ""
	if r.Chance(1, 6) {
		lead = []string{" ", "\t", "  "}[r.Intn(3)]
	}
	s := lead + refEncodeKey(key) + sep + ev
	ls := refParseLines(s + "\n")
	if len(ls) == 1 && ls[0].Kind == lineKV && ls[0].Key == key && ls[0].Val == val {
		return s
	}
	return canon
}

func inUnicodeEscape(s string, p int) bool {
	for k := 1; k <= 5 && p-k >= 0; k++ {
		if s[p-k] == '\\' && p-k+1 < len(s) && s[p-k+1] == 'u' {
			return true
		}
	}
	return false
}

func commentLine(r *vlib.Rand) string {
	lead := []string{"#", "# ", "!", "#\t", " # "}[r.Intn(5)]
	return lead + plainText(r, 0, 30)
}

// newKey returns a key unique in the case (prefix pfx guards against environment
// variables: an absent key falls back to os.Getenv in golib).
func newKey(r *vlib.Rand, pfx string, n *int, exotic bool) string {
	*n++
	if exotic && r.Chance(1, 10) {
		return fmt.Sprintf("%s%d %s", pfx, *n, []string{"a=b", "x:y", "sp ace", "한글", "h#sh"}[r.Intn(5)])
	}
	return fmt.Sprintf("%s%d.%s", pfx, *n, word(r))
}
