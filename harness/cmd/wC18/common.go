package main

import (
	"context"
	"fmt"
	"os"
	"path/filepath"
	"strings"
	"sync"
	"syscall"
	"time"

	"github.com/whatap/golib/config"
	"github.com/whatap/golib/config/conffile"

	"verif/vlib"
)

const confName = "whatap.conf"

// tmpBase is where every temporary home directory of this worker lives.
func tmpBase() string {
	return filepath.Join(vlib.VerifRoot(), "work", "C18-tmp")
}

// Where a home directory lives is an input dimension of every section (added after seeded
// change C18r6-2: the write-back's scratch file moved to the system temp directory, so the
// final rename fails whenever the configuration file and the temp directory are on different
// file systems). The k-th home of a process takes placement k mod n:
//
//	work/tmp-same-fs        under <verif>/work, TMPDIR untouched (usually the same file system)
//	shm/tmp-other-fs        under /dev/shm (tmpfs), TMPDIR untouched
//	work/TMPDIR-other-fs    under <verif>/work, TMPDIR pointing into /dev/shm
//	work/TMPDIR-missing     under <verif>/work, TMPDIR naming a directory that does not exist
//
// Placements whose precondition does not hold on this machine (no writable /dev/shm, or
// /dev/shm on the same device as the work directory) are left out; what was used is counted
// in the evidence (homes_by_placement/...). TMPDIR is process-wide: it is switched when a home
// is created and stays until the next one; on a library that keeps its files next to the
// configuration file (as the pinned tree does) no value of it can matter.
type placement struct{ name, base, tmpdir string }

var (
	placeOnce sync.Once
	places    []placement
	homeSeq   int64
	homeMu    sync.Mutex
	origTmp   string
	hadTmp    bool
	placeCnt  = map[string]int64{}
)

func shmBase() string { return fmt.Sprintf("/dev/shm/verif-C18-%d", os.Getpid()) }

func devOf(p string) (uint64, bool) {
	var st syscall.Stat_t
	if syscall.Stat(p, &st) != nil {
		return 0, false
	}
	return uint64(st.Dev), true
}

func initPlaces() {
	origTmp, hadTmp = os.LookupEnv("TMPDIR")
	os.MkdirAll(tmpBase(), 0o755)
	places = []placement{{"work/tmp-same-fs", tmpBase(), ""}}
	wd, ok1 := devOf(tmpBase())
	if os.MkdirAll(shmBase()+"/tmpdir", 0o755) == nil {
		sd, ok2 := devOf(shmBase())
		if ok1 && ok2 && sd != wd {
			places = append(places,
				placement{"shm/tmp-other-fs", shmBase(), ""},
				placement{"work/TMPDIR-other-fs", tmpBase(), shmBase() + "/tmpdir"})
		}
	}
	places = append(places, placement{"work/TMPDIR-missing", tmpBase(), "/nonexistent-verif-tmpdir/x"})
}

func tmpHome(tag string) string {
	placeOnce.Do(initPlaces)
	homeMu.Lock()
	pl := places[int(homeSeq)%len(places)]
	homeSeq++
	placeCnt[pl.name]++
	if pl.tmpdir != "" {
		os.Setenv("TMPDIR", pl.tmpdir)
	} else if hadTmp {
		os.Setenv("TMPDIR", origTmp)
	} else {
		os.Unsetenv("TMPDIR")
	}
	homeMu.Unlock()
	os.MkdirAll(pl.base, 0o755) // another shard may have removed the empty shared base
	d, err := os.MkdirTemp(pl.base, tag+"-")
	if err != nil {
		os.MkdirAll(tmpBase(), 0o755)
		d, err = os.MkdirTemp(tmpBase(), tag+"-")
		if err != nil {
			panic(err)
		}
	}
	return d
}

// cleanTmp removes the base directories (the shared one only when no other shard still uses
// it) and reports how many homes each placement received.
func cleanTmp(c *vlib.Ctx) {
	homeMu.Lock()
	for k, v := range placeCnt {
		c.Count("homes_by_placement/"+k, v)
	}
	homeMu.Unlock()
	os.RemoveAll(shmBase())
	os.Remove(tmpBase())
}

// newConf creates a private FileConfig on <dir>/whatap.conf.
//
// The context handed over is already cancelled: the polling goroutine that newFileConfig
// starts then returns from its first select without ever calling reload, so every reload of
// this instance is one that the harness makes through VerifReloadNow from ONE goroutine —
// the same single-reloader discipline the production object has (constructor, then only the
// polling goroutine). Calling VerifReloadNow next to a live polling goroutine would make
// the harness itself race on last_check/last_file_time.
func newConf(dir string, opts ...conffile.FileConfigOption) *conffile.FileConfig {
	ctx, cancel := context.WithCancel(context.Background())
	cancel()
	all := []conffile.FileConfigOption{conffile.WithContext(ctx, cancel), conffile.WithHomePath(dir)}
	all = append(all, opts...)
	return conffile.VerifNew(all...)
}

// writeFileAt plays an external editor: it replaces the file content and pins the
// modification time, so that "two edits 40 ms apart inside one second" is a property of the
// case and not of the wall clock.
func writeFileAt(path, content string, mtime time.Time) {
	if err := os.WriteFile(path, []byte(content), 0o644); err != nil {
		panic(err)
	}
	if err := os.Chtimes(path, mtime, mtime); err != nil {
		panic(err)
	}
}

// recObserver records every notification and the values visible at that moment.
type recObserver struct {
	mu    sync.Mutex
	calls int
	keys  []string // keys to look at when notified (set by the case before each reload)
	seen  []map[string]string
	ch    chan struct{}
}

func (o *recObserver) ApplyConfig(conf config.Config) {
	o.mu.Lock()
	keys := append([]string(nil), o.keys...)
	o.mu.Unlock()
	m := map[string]string{}
	for _, k := range keys {
		m[k] = conf.GetValue(k)
	}
	o.mu.Lock()
	o.calls++
	o.seen = append(o.seen, m)
	o.mu.Unlock()
	if o.ch != nil {
		select {
		case o.ch <- struct{}{}:
		default:
		}
	}
}

func (o *recObserver) setKeys(keys []string) {
	o.mu.Lock()
	o.keys = append([]string(nil), keys...)
	o.mu.Unlock()
}

func (o *recObserver) snapshot() (int, map[string]string) {
	o.mu.Lock()
	defer o.mu.Unlock()
	if len(o.seen) == 0 {
		return o.calls, nil
	}
	return o.calls, o.seen[len(o.seen)-1]
}

func clipStr(s string, n int) string {
	if len(s) > n {
		return fmt.Sprintf("%s…(%d bytes)", s[:n], len(s))
	}
	return s
}

func quoteClip(s string, n int) string { return fmt.Sprintf("%q", clipStr(s, n)) }

func noDollarBrace(s string) string { return strings.ReplaceAll(s, "${", "$(") }
