package main

import (
	"context"
	"fmt"
	"os"
	"path/filepath"
	"strings"
	"sync"
	"time"

	"github.com/whatap/golib/config"
	"github.com/whatap/golib/config/conffile"

	"verif/vlib"
)

const confName = "whatap.conf"

// tmpBase is where every temporary home directory of this worker lives.
func tmpBase() string {
	return filepath.Join(vlib.VerifRoot(), "work", "C18-tmp")
}

func tmpHome(tag string) string {
	os.MkdirAll(tmpBase(), 0o755)
	d, err := os.MkdirTemp(tmpBase(), tag+"-")
	if err != nil {
		d, err = os.MkdirTemp("", "wC18-"+tag+"-")
		if err != nil {
			panic(err)
		}
	}
	return d
}

// cleanTmp removes the base directory when no other shard is still using it.
func cleanTmp() { os.Remove(tmpBase()) }

// newConf creates a private FileConfig on <dir>/whatap.conf.
//
// The context handed over is already cancelled: the polling goroutine that newFileConfig
// starts then returns from its first select without ever calling reload, so every reload of
// this instance is one that the harness makes through VerifReloadNow from ONE goroutine —
// the same single-reloader discipline the production object has (constructor, then only the
// polling goroutine). Calling VerifReloadNow next to a live polling goroutine would make
// the harness itself race on last_check/last_file_time.
func newConf(dir string, opts ...conffile.FileConfigOption) *conffile.FileConfig {
	ctx, cancel := context.WithCancel(context.Background())
	cancel()
	all := []conffile.FileConfigOption{conffile.WithContext(ctx, cancel), conffile.WithHomePath(dir)}
	all = append(all, opts...)
	return conffile.VerifNew(all...)
}

// writeFileAt plays an external editor: it replaces the file content and pins the
// modification time, so that "two edits 40 ms apart inside one second" is a property of the
// case and not of the wall clock.
func writeFileAt(path, content string, mtime time.Time) {
	if err := os.WriteFile(path, []byte(content), 0o644); err != nil {
		panic(err)
	}
	if err := os.Chtimes(path, mtime, mtime); err != nil {
		panic(err)
	}
}

// recObserver records every notification and the values visible at that moment.
type recObserver struct {
	mu    sync.Mutex
	calls int
	keys  []string // keys to look at when notified (set by the case before each reload)
	seen  []map[string]string
	ch    chan struct{}
}

func (o *recObserver) ApplyConfig(conf config.Config) {
	o.mu.Lock()
	keys := append([]string(nil), o.keys...)
	o.mu.Unlock()
	m := map[string]string{}
	for _, k := range keys {
		m[k] = conf.GetValue(k)
	}
	o.mu.Lock()
	o.calls++
	o.seen = append(o.seen, m)
	o.mu.Unlock()
	if o.ch != nil {
		select {
		case o.ch <- struct{}{}:
		default:
		}
	}
}

func (o *recObserver) setKeys(keys []string) {
	o.mu.Lock()
	o.keys = append([]string(nil), keys...)
	o.mu.Unlock()
}

func (o *recObserver) snapshot() (int, map[string]string) {
	o.mu.Lock()
	defer o.mu.Unlock()
	if len(o.seen) == 0 {
		return o.calls, nil
	}
	return o.calls, o.seen[len(o.seen)-1]
}

func clipStr(s string, n int) string {
	if len(s) > n {
		return fmt.Sprintf("%s…(%d bytes)", s[:n], len(s))
	}
	return s
}

func quoteClip(s string, n int) string { return fmt.Sprintf("%q", clipStr(s, n)) }

func noDollarBrace(s string) string { return strings.ReplaceAll(s, "${", "$(") }
