package main

// Concurrency monitor. The stress itself runs in a grandchild process (this binary
// re-executed with "child-stress …"): with the pinned tree the Go runtime ends the process
// with "fatal error: concurrent map read and map write" within milliseconds, which no
// monitor inside that process survives. The parent (a normal shard child) journals the case,
// starts the grandchild, and classifies its end: a completed run reports its own counters
// and torn reads as JSON; a process-fatal end is keyed from the first fatal line of stderr.
// Race-detector reports of the grandchild land in the shard's GORACE log_path (inherited
// environment) and are picked up by the driver like any other.

import (
	"bytes"
	"context"
	"encoding/json"
	"fmt"
	"os"
	"os/exec"
	"path/filepath"
	"regexp"
	"runtime"
	"strconv"
	"strings"
	"sync"
	"sync/atomic"
	"time"

	"github.com/whatap/golib/config"
	"github.com/whatap/golib/config/conffile"

	"verif/vlib"
)

type stressResult struct {
	Reads             int64            `json:"reads"`
	ReadsDuringReload int64            `json:"reads_during_reload"`
	Reloads           int64            `json:"reloads"`
	PerGetter         map[string]int64 `json:"per_getter"`
	Torn              []string         `json:"torn"`
	TornCount         int64            `json:"torn_count"`
	Backwards         []string         `json:"backwards"`
	BackwardsCount    int64            `json:"backwards_count"`
	FinalMissing      []string         `json:"final_missing"`
	ObserverCalls     int64            `json:"observer_calls"`
	Procs             int              `json:"gomaxprocs"`
	DistinctVersions  int64            `json:"distinct_versions_read"`
}

var fatalLineRe = regexp.MustCompile(`(?m)^(fatal error: [^\n]*|panic: [^\n]*|SIGQUIT[^\n]*)`)
var numRe = regexp.MustCompile(`0x[0-9a-f]+|\d+`)

func fatalKindOf(stderr string, exit int) string {
	// two threads may throw at once and interleave their first lines ("fatal error: fatal
	// error: concurrent map …"): key on the runtime's message itself when it is a known one
	best, at := "", -1
	for _, msg := range []string{"concurrent map read and map write", "concurrent map iteration and map write", "concurrent map writes"} {
		if p := strings.Index(stderr, msg); p >= 0 && (at < 0 || p < at) {
			best, at = msg, p
		}
	}
	if at >= 0 {
		return "fatal error: " + best
	}
	mm := fatalLineRe.FindString(stderr)
	if mm == "" {
		return fmt.Sprintf("exit-%d", exit)
	}
	mm = numRe.ReplaceAllString(mm, "N")
	if len(mm) > 80 {
		mm = mm[:80]
	}
	return mm
}

func stressCase(c *vlib.Ctx, i int, r *vlib.Rand) {
	readers := 1 + i%8
	procs := []int{1, 2, 4, 16}[r.Intn(4)]
	iters := c.N(200, 800)
	if c.Flavour == "race" {
		iters = c.N(80, 300)
	}
	seed := r.U64()
	dir := tmpHome("stress")
	defer os.RemoveAll(dir)

	ctx, cancel := context.WithTimeout(context.Background(), 180*time.Second)
	defer cancel()
	cmd := exec.CommandContext(ctx, os.Args[0], "child-stress", strconv.FormatUint(seed, 10), strconv.Itoa(readers), strconv.Itoa(iters), dir)
	cmd.Env = append(stressEnv(), "GOMAXPROCS="+strconv.Itoa(procs))
	var so, se bytes.Buffer
	cmd.Stdout, cmd.Stderr = &so, &se
	err := cmd.Run()
	params := map[string]interface{}{"seed": strconv.FormatUint(seed, 10), "readers": readers, "iterations": iters, "gomaxprocs": procs,
		"rerun": fmt.Sprintf("GOMAXPROCS=%d <worker> child-stress %d %d %d <empty dir>", procs, seed, readers, iters)}
	c.Count("stress_runs", 1)
	c.SetAdd("stress_shapes", fmt.Sprintf("readers=%d,procs=%d", readers, procs))
	if ctx.Err() != nil {
		c.Inconclusive(fmt.Sprintf("concurrency#%d", i), "stress grandchild exceeded the 180 s watchdog")
		return
	}
	var res stressResult
	exit := -1
	if cmd.ProcessState != nil {
		exit = cmd.ProcessState.ExitCode()
	}
	// exit 66 is the race detector's "races were reported" status of a run that completed
	if (err == nil || exit == 66) && json.Unmarshal(so.Bytes(), &res) == nil && res.Reloads > 0 {
		c.Count("stress_runs_completed", 1)
		c.Count("stress_reads", res.Reads)
		c.Count("stress_reads_during_reload", res.ReadsDuringReload)
		c.Count("stress_reloads", res.Reloads)
		c.Count("stress_observer_calls", res.ObserverCalls)
		c.Count("stress_distinct_versions_read", res.DistinctVersions)
		c.Max("max_stress_readers", int64(readers))
		for g, n := range res.PerGetter {
			c.Count("stress_calls_"+g, n)
		}
		if res.TornCount > 0 {
			params["torn"] = res.Torn
			c.Fail("FileConfig:torn-read", fmt.Sprintf("%d reads returned something the key never held, e.g. %s", res.TornCount, first(res.Torn)), params)
		}
		if res.BackwardsCount > 0 {
			params["backwards"] = res.Backwards
			c.Fail("FileConfig:value-went-backwards", fmt.Sprintf("%d reads returned an older value after a newer one had been read by the same goroutine, e.g. %s", res.BackwardsCount, first(res.Backwards)), params)
		}
		if len(res.FinalMissing) > 0 {
			params["final"] = res.FinalMissing
			c.Fail("FileConfig:value-not-visible/after-concurrent-reads", "after the stress the last file content is not what the getters return: "+first(res.FinalMissing), params)
		}
		c.DistinctStr(fmt.Sprintf("stress|%d|%d|%d|%d", seed, readers, iters, procs))
		if c.WantSample() && i%5 == 0 {
			c.Sample(map[string]interface{}{"section": "concurrency", "params": params, "result": res})
		}
		return
	}
	// the grandchild did not finish
	stderr := se.String()
	kind := fatalKindOf(stderr, exit)
	c.Count("stress_runs_process_fatal", 1)
	if len(stderr) > 6000 {
		stderr = stderr[:3000] + "\n…\n" + stderr[len(stderr)-3000:]
	}
	params["stderr"] = stderr
	params["exit"] = exit
	c.Fail("fatal:"+kind+"@concurrency", "the process running getters next to reloads was ended by the runtime: "+kind, params)
}

// stressEnv: the inherited environment, with a deeper race-detector history for the
// grandchild (fewer "failed to restore the stack" reports, which would lose the golib frame
// the driver keys a race on).
func stressEnv() []string {
	var env []string
	for _, e := range os.Environ() {
		if strings.HasPrefix(e, "GORACE=") {
			e = strings.Replace(e, "history_size=3", "history_size=7", 1)
		}
		env = append(env, e)
	}
	return env
}

func first(l []string) string {
	if len(l) == 0 {
		return ""
	}
	return l[0]
}

// ---- grandchild --------------------------------------------------------------------

const (
	skStr = iota
	skInt
	skLong
	skBool
	skFloat
	skList
	skIntList
	nKinds
)

func stressValue(kind, ver int) string {
	switch kind {
	case skStr:
		return fmt.Sprintf("s%d-%s", ver, strings.Repeat(string(rune('a'+ver%26)), 1+ver%47))
	case skInt:
		return strconv.Itoa(ver*7 + 3)
	case skLong:
		return strconv.FormatInt(int64(ver)*1_000_000_007+5, 10)
	case skBool:
		return []string{"false", "true"}[ver%2]
	case skFloat:
		return strconv.FormatFloat(float64(ver)*0.5+0.25, 'f', 2, 64)
	case skList:
		return fmt.Sprintf("a%d, b%d ,c%d", ver, ver, ver)
	default:
		return fmt.Sprintf("%d,%d,%d", ver, ver+1, ver+2)
	}
}

// versionOf inverts stressValue (−1: not a value of that key kind).
func versionOf(kind int, v string) int {
	switch kind {
	case skStr:
		if !strings.HasPrefix(v, "s") {
			return -1
		}
		p := strings.IndexByte(v, '-')
		if p < 2 {
			return -1
		}
		n, err := strconv.Atoi(v[1:p])
		if err != nil || n < 0 || stressValue(skStr, n) != v {
			return -1
		}
		return n
	case skList:
		p := strings.IndexByte(v, ',')
		if p < 2 || v[0] != 'a' {
			return -1
		}
		n, err := strconv.Atoi(v[1:p])
		if err != nil || n < 0 || stressValue(skList, n) != v {
			return -1
		}
		return n
	case skIntList:
		p := strings.IndexByte(v, ',')
		if p < 1 {
			return -1
		}
		n, err := strconv.Atoi(v[:p])
		if err != nil || n < 0 || stressValue(skIntList, n) != v {
			return -1
		}
		return n
	}
	return -1
}

func childStress(args []string) {
	if len(args) < 4 {
		fmt.Fprintln(os.Stderr, "usage: child-stress seed readers iters dir")
		os.Exit(3)
	}
	seed, _ := strconv.ParseUint(args[0], 10, 64)
	readers, _ := strconv.Atoi(args[1])
	iters, _ := strconv.Atoi(args[2])
	dir := args[3]
	path := filepath.Join(dir, confName)
	r := vlib.NewRand(seed)

	const nk = 14
	keys := make([]string, nk)
	kinds := make([]int, nk)
	for k := range keys {
		kinds[k] = k % nKinds
		keys[k] = fmt.Sprintf("st_%d_%d", seed%1000, k)
	}
	// schedule[it][k]: version of key k in the file written at iteration it (precomputed:
	// readers use it read-only)
	schedule := make([][]int, iters+1)
	had := make([][]bool, nk)
	cur := make([]int, nk)
	for k := range had {
		had[k] = make([]bool, iters+1)
		had[k][0] = true
	}
	schedule[0] = append([]int(nil), cur...)
	for it := 1; it <= iters; it++ {
		for k := 0; k < nk; k++ {
			if r.Chance(1, 2) {
				cur[k] = it
				had[k][it] = true
			}
		}
		schedule[it] = append([]int(nil), cur...)
	}
	render := func(vers []int) string {
		var b strings.Builder
		b.WriteString("# stress file\n")
		for f := 0; f < 150; f++ { // ballast: makes the merge phase of a reload longer
			fmt.Fprintf(&b, "st_fill_%d=%d\n", f, vers[f%len(vers)])
		}
		for k := range keys {
			fmt.Fprintf(&b, "%s=%s\n", keys[k], stressValue(kinds[k], vers[k]))
		}
		return b.String()
	}
	base := time.Unix(1_700_000_000, 0)
	writeFileAt(path, render(schedule[0]), base)

	var obsCalls int64
	co := config.NewConfigObserver()
	co.Add("stress-observer", observerFunc(func(cf config.Config) {
		atomic.AddInt64(&obsCalls, 1)
		for k := range keys {
			cf.GetValue(keys[k])
		}
	}))
	fc := newConf(dir, conffile.WithConfigObserver(co))
	// readers call through the interface held in a package variable: the calls cannot be
	// inlined into the harness, so race reports keep the golib frame they are keyed on
	stressConf = fc
	conf := stressConf

	var res stressResult
	res.PerGetter = map[string]int64{}
	res.Procs = runtime.GOMAXPROCS(0)
	var mu sync.Mutex
	var done, inReload int32
	var reads, during, tornN, backN int64
	addTorn := func(s string) {
		atomic.AddInt64(&tornN, 1)
		mu.Lock()
		if len(res.Torn) < 10 {
			res.Torn = append(res.Torn, s)
		}
		mu.Unlock()
	}
	seenVer := make([][]int32, nk) // seenVer[k][ver] set when some reader saw it
	for k := range seenVer {
		seenVer[k] = make([]int32, iters+1)
	}

	var wg sync.WaitGroup
	var started int32
	for g := 0; g < readers; g++ {
		wg.Add(1)
		go func(g int) {
			defer wg.Done()
			rr := vlib.NewRand(seed ^ uint64(g+1)*0x9e3779b97f4a7c15)
			per := map[string]int64{}
			last := make([]int, nk)
			var myReads, myDuring int64
			atomic.AddInt32(&started, 1)
			check := func(k int, getter string, ver int, raw string) {
				if ver < 0 || ver > iters || !had[k][ver] {
					addTorn(fmt.Sprintf("%s(%s) returned %s which the key never held", getter, keys[k], quoteClip(raw, 80)))
					return
				}
				atomic.StoreInt32(&seenVer[k][ver], 1)
				if ver < last[k] {
					atomic.AddInt64(&backN, 1)
					mu.Lock()
					if len(res.Backwards) < 10 {
						res.Backwards = append(res.Backwards, fmt.Sprintf("%s(%s): version %d after version %d", getter, keys[k], ver, last[k]))
					}
					mu.Unlock()
				}
				last[k] = ver
			}
			for atomic.LoadInt32(&done) == 0 {
				k := rr.Intn(nk)
				key := keys[k]
				a := atomic.LoadInt32(&inReload)
				op := rr.Intn(26) // scalar getters twice as often as the two that walk the whole map
				if op < 24 {
					op /= 2
				} else {
					op -= 12
				}
				switch op {
				case 0, 1:
					per["GetValue"]++
					v := conf.GetValue(key)
					switch kinds[k] {
					case skStr, skList, skIntList:
						check(k, "GetValue", versionOf(kinds[k], v), v)
					case skInt:
						n, err := strconv.Atoi(v)
						if err != nil || (n-3)%7 != 0 {
							addTorn(fmt.Sprintf("GetValue(%s) returned %s", key, quoteClip(v, 80)))
						} else {
							check(k, "GetValue", (n-3)/7, v)
						}
					default:
						if v == "" {
							addTorn(fmt.Sprintf("GetValue(%s) returned \"\" although the key is in every version of the file", key))
						}
					}
				case 2:
					per["GetValueDef"]++
					v := conf.GetValueDef(key, "DEF")
					if v == "DEF" || v == "" {
						addTorn(fmt.Sprintf("GetValueDef(%s) returned %q although the key is in every version of the file", key, v))
					}
				case 3:
					per["GetInt"]++
					n := conf.GetInt(key, -1)
					if kinds[k] == skInt {
						if n < 0 || (n-3)%7 != 0 {
							addTorn(fmt.Sprintf("GetInt(%s) returned %d", key, n))
						} else {
							check(k, "GetInt", int(n-3)/7, strconv.Itoa(int(n)))
						}
					}
				case 4:
					per["GetLong"]++
					n := conf.GetLong(key, -1)
					if kinds[k] == skLong {
						if n < 0 || (n-5)%1_000_000_007 != 0 {
							addTorn(fmt.Sprintf("GetLong(%s) returned %d", key, n))
						} else {
							check(k, "GetLong", int((n-5)/1_000_000_007), strconv.FormatInt(n, 10))
						}
					}
				case 5:
					per["GetBoolean"]++
					t, f := conf.GetBoolean(key, true), conf.GetBoolean(key, false)
					_ = t
					_ = f
				case 6:
					per["GetFloat"]++
					x := conf.GetFloat(key, -1)
					if kinds[k] == skFloat {
						v := (float64(x) - 0.25) * 2
						if x < 0 || v != float64(int(v)) {
							addTorn(fmt.Sprintf("GetFloat(%s) returned %v", key, x))
						} else {
							check(k, "GetFloat", int(v), fmt.Sprint(x))
						}
					}
				case 7:
					per["GetIntSet"]++
					conf.GetIntSet(key, "1,2", ",")
				case 8:
					per["GetStringArray"]++
					l := conf.GetStringArray(key, "", ",")
					if kinds[k] == skList {
						ok := len(l) == 3 && len(l[0]) > 1 && l[0][0] == 'a'
						ver := -1
						if ok {
							ver, _ = strconv.Atoi(l[0][1:])
							ok = l[1] == fmt.Sprintf("b%d", ver) && l[2] == fmt.Sprintf("c%d", ver)
						}
						if !ok {
							addTorn(fmt.Sprintf("GetStringArray(%s) returned %q", key, l))
						} else {
							check(k, "GetStringArray", ver, strings.Join(l, ","))
						}
					}
				case 9:
					per["GetStringHashSet"]++
					conf.GetStringHashSet(key, "", ",")
				case 10:
					per["GetStringHashCodeSet"]++
					conf.GetStringHashCodeSet(key, "", ",")
				case 11:
					per["GetKeys"]++
					if n := len(conf.GetKeys()); n < nk {
						addTorn(fmt.Sprintf("GetKeys returned %d keys, the file always holds %d", n, nk))
					}
				default:
					per["String"]++
					s := conf.String()
					cnt := 0
					for _, ln := range strings.Split(s, "\n") {
						p := strings.IndexByte(ln, '=')
						if p <= 0 {
							continue
						}
						for kk := range keys {
							if keys[kk] == ln[:p] {
								cnt++
								if kinds[kk] == skStr || kinds[kk] == skList || kinds[kk] == skIntList {
									v := strings.TrimSpace(strings.TrimRight(ln[p+1:], "\r"))
									if ver := versionOf(kinds[kk], v); ver < 0 || ver > iters || !had[kk][ver] {
										addTorn(fmt.Sprintf("String() lists %s=%s which the key never held", keys[kk], quoteClip(v, 80)))
									}
								}
							}
						}
					}
					if cnt < nk {
						addTorn(fmt.Sprintf("String() lists %d of the %d keys", cnt, nk))
					}
				}
				myReads++
				if a != 0 || atomic.LoadInt32(&inReload) != 0 {
					myDuring++
				}
				if myReads%8 == 0 {
					runtime.Gosched() // with GOMAXPROCS=1 the reloader needs the processor back after each file syscall
				}
			}
			atomic.AddInt64(&reads, myReads)
			atomic.AddInt64(&during, myDuring)
			mu.Lock()
			for k, v := range per {
				res.PerGetter[k] += v
			}
			mu.Unlock()
		}(g)
	}
	for atomic.LoadInt32(&started) < int32(readers) {
		runtime.Gosched()
	}

	// the single reloader: external edit, then the poll
	for it := 1; it <= iters; it++ {
		writeFileAt(path, render(schedule[it]), base.Add(time.Duration(it)*time.Second))
		atomic.StoreInt32(&inReload, 1)
		fc.VerifReloadNow()
		atomic.StoreInt32(&inReload, 0)
		res.Reloads++
		if it%8 == 0 {
			runtime.Gosched()
		}
	}
	atomic.StoreInt32(&done, 1)
	wg.Wait()

	for k := range keys {
		exp := stressValue(kinds[k], schedule[iters][k])
		if got := conf.GetValue(keys[k]); got != exp {
			res.FinalMissing = append(res.FinalMissing, fmt.Sprintf("%s: GetValue=%s file=%s", keys[k], quoteClip(got, 60), quoteClip(exp, 60)))
		}
	}
	for k := range seenVer {
		for _, s := range seenVer[k] {
			res.DistinctVersions += int64(s)
		}
	}
	res.Reads, res.ReadsDuringReload = reads, during
	res.TornCount, res.BackwardsCount = tornN, backN
	res.ObserverCalls = atomic.LoadInt64(&obsCalls)
	b, _ := json.Marshal(&res)
	os.Stdout.Write(b)
}

var stressConf config.Config

type observerFunc func(config.Config)

func (f observerFunc) ApplyConfig(c config.Config) { f(c) }
