package main

// Atomicity of the write-back: at no instant may the file hold anything but the complete
// old or the complete new content.
//
//   - sampler (both tiers): reader goroutines re-read the file in a tight loop while SetValues
//     rewrites a large file; every content observed must be the old or the new one.
//   - crash points (thorough tier): the write-back runs in a grandchild under strace which
//     delivers SIGKILL on entering the N-th invocation of one syscall, for every invocation
//     counted in a dry run; after each kill the file must be the old or the new content.

import (
	"bytes"
	"context"
	"fmt"
	"hash/crc32"
	"os"
	"os/exec"
	"path/filepath"
	"regexp"
	"runtime"
	"sort"
	"strconv"
	"strings"
	"sync"
	"sync/atomic"
	"time"

	"github.com/whatap/golib/config/conffile"

	"verif/vlib"
)

func bigFile(r *vlib.Rand, pfx string, nLines, lineLen int) (string, []string) {
	var b strings.Builder
	var keys []string
	b.WriteString("# large file for the atomicity sampler\n")
	for n := 0; n < nLines; n++ {
		k := fmt.Sprintf("%s%04d", pfx, n)
		keys = append(keys, k)
		b.WriteString(k)
		b.WriteByte('=')
		seg := word(r)
		for b2 := 0; b2 < lineLen; b2 += len(seg) + 1 {
			b.WriteString(seg)
			b.WriteByte('.')
		}
		b.WriteByte('\n')
		if n%50 == 17 {
			b.WriteString("# section " + strconv.Itoa(n) + "\n\n")
		}
	}
	return b.String(), keys
}

type obsContent struct {
	data  []byte
	count int
}

func samplerCase(c *vlib.Ctx, i int, r *vlib.Rand) {
	dir := tmpHome("atom")
	defer os.RemoveAll(dir)
	path := filepath.Join(dir, confName)
	pfx := fmt.Sprintf("a%d_", i)
	text, keys := bigFile(r, pfx, r.Range(150, 400), r.Range(1500, 3500))
	if err := os.WriteFile(path, []byte(text), 0o644); err != nil {
		panic(err)
	}
	conf := newConf(dir)
	defer conf.VerifStop()
	rounds := c.N(5, 16)
	nReaders := 2
	for round := 0; round < rounds; round++ {
		old, err := os.ReadFile(path)
		if err != nil {
			panic(err)
		}
		in := map[string]string{}
		for n := r.Range(1, 3); n > 0; n-- {
			in[keys[r.Intn(len(keys))]] = "round" + strconv.Itoa(round) + "-" + word(r)
		}
		if r.Chance(1, 2) {
			in[fmt.Sprintf("%snew%d", pfx, round)] = word(r)
		}

		var stop, inCall int32
		var started int32
		var mu sync.Mutex
		stash := map[uint64]*obsContent{}
		var readsTotal, readsInCall, readErrs, sawOld, probes, probesInCall int64
		var missing int64
		var wg sync.WaitGroup
		for g := 0; g < nReaders; g++ {
			wg.Add(1)
			go func() {
				defer wg.Done()
				first := true
				n := 0
				for atomic.LoadInt32(&stop) == 0 {
					a := atomic.LoadInt32(&inCall)
					n++
					if n%16 != 0 && !first {
						// cheap probe: only a size different from the old one triggers a full read
						if st, err := os.Stat(path); err == nil && st.Size() == int64(len(old)) {
							atomic.AddInt64(&probes, 1)
							if a == 1 || atomic.LoadInt32(&inCall) == 1 {
								atomic.AddInt64(&probesInCall, 1)
							}
							continue
						}
					}
					b, err := os.ReadFile(path)
					z := atomic.LoadInt32(&inCall)
					atomic.AddInt64(&readsTotal, 1)
					if a == 1 || z == 1 {
						atomic.AddInt64(&readsInCall, 1)
					}
					if first {
						first = false
						atomic.AddInt32(&started, 1)
					}
					if err != nil {
						atomic.AddInt64(&readErrs, 1)
						if os.IsNotExist(err) {
							atomic.AddInt64(&missing, 1)
						}
						continue
					}
					if bytes.Equal(b, old) {
						atomic.AddInt64(&sawOld, 1)
						continue
					}
					h := uint64(crc32.ChecksumIEEE(b))<<32 | uint64(uint32(len(b)))
					mu.Lock()
					if o := stash[h]; o != nil {
						o.count++
					} else if len(stash) < 24 {
						stash[h] = &obsContent{data: b, count: 1}
					} else {
						stash[0] = &obsContent{data: nil, count: 1} // overflow marker
					}
					mu.Unlock()
				}
			}()
		}
		for atomic.LoadInt32(&started) < int32(nReaders) {
			runtime.Gosched()
		}
		atomic.StoreInt32(&inCall, 1)
		p := vlib.Catch(func() { conf.SetValues(&in) })
		atomic.StoreInt32(&inCall, 0)
		atomic.StoreInt32(&stop, 1)
		wg.Wait()
		if p != nil {
			c.Fail("FileConfig.SetValues:panic/large-file", fmt.Sprintf("SetValues panicked: %v", p), nil)
			return
		}
		newb, err := os.ReadFile(path)
		if err != nil {
			c.Fail("FileConfig.SetValues:file-missing-after-write", err.Error(), nil)
			return
		}
		c.Count("sampler_writebacks", 1)
		c.Count("sampler_reads", readsTotal)
		c.Count("sampler_reads_overlapping_the_call", readsInCall)
		c.Count("sampler_size_probes", probes)
		c.Count("sampler_size_probes_overlapping_the_call", probesInCall)
		c.Count("sampler_reads_old_content", sawOld)
		c.Max("max_sampler_file_bytes", int64(len(newb)))
		var kinds []string
		inter := 0
		interObs := 0
		for h, o := range stash {
			if h == 0 && o.data == nil {
				continue
			}
			if bytes.Equal(o.data, newb) {
				c.Count("sampler_reads_new_content", int64(o.count))
				continue
			}
			inter++
			interObs += o.count
			switch {
			case len(o.data) == 0:
				kinds = append(kinds, fmt.Sprintf("empty file (%d×)", o.count))
			case bytes.HasPrefix(newb, o.data):
				kinds = append(kinds, fmt.Sprintf("first %d of %d bytes of the new content (%d×)", len(o.data), len(newb), o.count))
			default:
				kinds = append(kinds, fmt.Sprintf("%d bytes that are neither old (%d) nor new (%d) (%d×)", len(o.data), len(old), len(newb), o.count))
			}
		}
		if missing > 0 {
			inter++
			interObs += int(missing)
			kinds = append(kinds, fmt.Sprintf("file absent (%d×)", missing))
		}
		if inter > 0 {
			sort.Strings(kinds)
			c.Count("sampler_intermediate_observations", int64(interObs))
			c.Count("sampler_distinct_intermediate_contents", int64(inter))
			c.Fail("DefaultFileParser.Write:intermediate-content-visible", fmt.Sprintf("while SetValues rewrote a %d-byte file a concurrent reader saw: %s", len(old), strings.Join(kinds, "; ")),
				map[string]interface{}{"old_bytes": len(old), "new_bytes": len(newb), "observed": kinds, "round": round, "reads_overlapping_the_call": readsInCall, "set_values": in})
		}
		c.DistinctStr(fmt.Sprintf("atom|%d|%d|%v", i, round, in))
	}
}

// ---- crash points with strace ---------------------------------------------------------

const crashMarker = "/nonexistent-wC18-writeback-begins"

var crashSyscalls = []string{"openat", "write", "ftruncate", "fsync", "rename", "renameat", "renameat2"}

// childWrite is the grandchild: one SetValues on <dir>/whatap.conf with the key/value pairs
// given on the command line. The main goroutine is wired to the main thread so that strace's
// per-thread invocation counter sees every file syscall of the write-back.
func childWrite(args []string) {
	runtime.LockOSThread()
	dir := args[0]
	in := map[string]string{}
	for _, kv := range args[1:] {
		p := strings.IndexByte(kv, '=')
		in[kv[:p]] = kv[p+1:]
	}
	conf := newConf(dir)
	os.Open(crashMarker) // visible in the trace: everything after it belongs to the write-back
	conf.SetValues(&in)
	os.Exit(0)
}

var straceLineRe = regexp.MustCompile(`^(\d+)\s+([a-z0-9_]+)\((.*)$`)

type traceCall struct {
	pid, name, rest string
}

func parseTrace(path string) (calls []traceCall, killed bool) {
	b, _ := os.ReadFile(path)
	for _, ln := range strings.Split(string(b), "\n") {
		if strings.Contains(ln, "+++ killed by SIGKILL") {
			killed = true
		}
		if strings.Contains(ln, "<... ") { // resumed part of an interrupted line
			continue
		}
		m := straceLineRe.FindStringSubmatch(ln)
		if m == nil {
			continue
		}
		calls = append(calls, traceCall{m[1], m[2], m[3]})
	}
	return
}

func crashCase(c *vlib.Ctx, i int, r *vlib.Rand) {
	if c.Flavour != "plain" {
		return
	}
	strace, err := exec.LookPath("strace")
	if err != nil {
		c.Inconclusive(fmt.Sprintf("atomicity-crashpoints#%d", i), "strace not available")
		return
	}
	dir := tmpHome("crash")
	defer os.RemoveAll(dir)
	path := filepath.Join(dir, confName)
	pfx := fmt.Sprintf("c%d_", i)
	var text string
	var keys []string
	switch i % 3 {
	case 0:
		text, keys = bigFile(r, pfx, r.Range(3, 12), r.Range(10, 60))
	case 1:
		text, keys = bigFile(r, pfx, r.Range(30, 80), r.Range(1000, 3000))
	default:
		text, keys = bigFile(r, pfx, r.Range(200, 400), r.Range(3000, 3900))
	}
	old := []byte(text)
	args := []string{"child-write", dir}
	for n := r.Range(1, 3); n > 0; n-- {
		args = append(args, keys[r.Intn(len(keys))]+"=changed-"+word(r))
	}
	if r.Chance(1, 2) {
		args = append(args, pfx+"added=new-"+word(r)) // at most one new key: the new content is unique
	}
	restore := func() {
		entries, _ := os.ReadDir(dir)
		for _, e := range entries {
			os.Remove(filepath.Join(dir, e.Name()))
		}
		f, err := os.OpenFile(path, os.O_CREATE|os.O_WRONLY|os.O_TRUNC, 0o644)
		if err != nil {
			panic(err)
		}
		f.Write(old)
		f.Sync()
		f.Close()
	}
	run := func(inject string, logf string) (exit int, timedOut bool) {
		ctx, cancel := context.WithTimeout(context.Background(), 120*time.Second)
		defer cancel()
		a := []string{"-f", "-o", logf, "-e", "trace=" + strings.Join(crashSyscalls, ",")}
		if inject != "" {
			a = append(a, "-e", "inject="+inject)
		}
		a = append(a, os.Args[0])
		a = append(a, args...)
		cmd := exec.CommandContext(ctx, strace, a...)
		cmd.Env = append(os.Environ(), "GOMAXPROCS=1")
		cmd.Run()
		if cmd.ProcessState != nil {
			exit = cmd.ProcessState.ExitCode()
		}
		return exit, ctx.Err() != nil
	}

	// dry run: count the invocations and learn the new content
	restore()
	logf := filepath.Join(tmpBase(), fmt.Sprintf("trace-%d-%d.log", os.Getpid(), i))
	defer os.Remove(logf)
	if _, to := run("", logf); to {
		c.Inconclusive(fmt.Sprintf("atomicity-crashpoints#%d", i), "dry run under strace exceeded the watchdog")
		return
	}
	calls, _ := parseTrace(logf)
	newb, _ := os.ReadFile(path)
	if len(calls) == 0 || bytes.Equal(newb, old) {
		c.Inconclusive(fmt.Sprintf("atomicity-crashpoints#%d", i), fmt.Sprintf("dry run under strace recorded %d calls and the file was not rewritten: strace unusable here", len(calls)))
		return
	}
	// the thread that performs the write-back is the one that opened the marker
	mainPid := ""
	markerAt := -1
	for k, cl := range calls {
		if strings.Contains(cl.rest, crashMarker) {
			mainPid, markerAt = cl.pid, k
		}
	}
	if markerAt < 0 {
		c.Inconclusive(fmt.Sprintf("atomicity-crashpoints#%d", i), "marker syscall not found in the trace")
		return
	}
	perSyscall := map[string]int{}    // invocations by the main thread, whole run
	afterMarker := map[string]int{}   // of these, inside the write-back
	beforeMarker := map[string]int{}
	for k, cl := range calls {
		if cl.pid != mainPid {
			continue
		}
		perSyscall[cl.name]++
		if k > markerAt {
			afterMarker[cl.name]++
		} else {
			beforeMarker[cl.name]++
		}
	}
	c.Count("crash_dry_runs", 1)
	for _, sc := range crashSyscalls {
		for n := beforeMarker[sc] + 1; n <= perSyscall[sc]; n++ {
			restore()
			exit, to := run(fmt.Sprintf("%s:signal=SIGKILL:when=%d", sc, n), logf)
			if to {
				c.Inconclusive(fmt.Sprintf("atomicity-crashpoints#%d/%s@%d", i, sc, n), "run under strace exceeded the watchdog")
				continue
			}
			kc, killed := parseTrace(logf)
			if !killed {
				// the invocation was not reached in this run (scheduling moved it to another thread)
				c.Count("crash_points_not_reached", 1)
				_ = exit
				continue
			}
			last := ""
			for k := len(kc) - 1; k >= 0; k-- {
				if kc[k].name == sc {
					last = sc + "(" + clipStr(kc[k].rest, 80)
					if len(kc) > 0 && kc[k].pid != kc[0].pid {
						// strace counts invocations per thread: a runtime thread reached its own
						// n-th call first (e.g. the netpoller's wake-up write)
						c.Count("crash_points_killed_in_a_runtime_thread", 1)
					}
					break
				}
			}
			c.Count("crash_points_killed", 1)
			c.Count("crash_points_killed_at_"+sc, 1)
			c.SetAdd("crash_points", fmt.Sprintf("file%d:%s#%d", i%3, sc, n-beforeMarker[sc]))
			got, rerr := os.ReadFile(path)
			state := ""
			switch {
			case rerr != nil:
				state = "file absent: " + rerr.Error()
			case bytes.Equal(got, old):
				c.Count("crash_points_left_old_content", 1)
			case bytes.Equal(got, newb):
				c.Count("crash_points_left_new_content", 1)
			case len(got) == 0:
				state = "empty file"
			case bytes.HasPrefix(newb, got):
				state = fmt.Sprintf("first %d of %d bytes of the new content", len(got), len(newb))
			default:
				state = fmt.Sprintf("%d bytes, neither old (%d) nor new (%d)", len(got), len(old), len(newb))
			}
			if state != "" {
				c.Fail("DefaultFileParser.Write:crash-leaves-partial-file@"+sc, fmt.Sprintf("process killed on entering %s invocation %d of the write-back (%s): the file is left as: %s", sc, n-beforeMarker[sc], last, state),
					map[string]interface{}{"syscall": sc, "invocation_in_writeback": n - beforeMarker[sc], "killed_at": last, "left": state, "old_bytes": len(old), "new_bytes": len(newb), "child_args": args[2:]})
			}
		}
	}
	tot := 0
	for _, n := range afterMarker {
		tot += n
	}
	c.Count("crash_points_enumerated", int64(tot))
	c.DistinctStr(fmt.Sprintf("crash|%d|%v", i, args))
}

// ---- hostile syntax: the file makes the properties library report an error --------------

var hostileClasses = map[string]string{
	"unclosed-expansion": "hk_a=${hk_b\n",
	"circular-expansion": "hk_a=${hk_b}\nhk_b=${hk_a}\n",
	"bad-unicode-escape": "hk_a=\\u12zz\n",
}

// childHostile: stage "construct": the file is hostile when the object is created;
// stage "reload": a good file is loaded first, then the hostile one is found by a reload.
func childHostile(args []string) {
	dir, class, stage := args[0], args[1], args[2]
	path := filepath.Join(dir, confName)
	t0 := time.Unix(1_650_000_000, 0)
	var conf *conffile.FileConfig
	if stage == "construct" {
		writeFileAt(path, hostileClasses[class], t0)
		conf = newConf(dir)
	} else {
		writeFileAt(path, "hk_ok=1\n", t0)
		conf = newConf(dir)
		writeFileAt(path, "hk_ok=2\n"+hostileClasses[class], t0.Add(5*time.Second))
		conf.VerifReloadNow()
	}
	fmt.Printf("alive hk_ok=%q\n", conf.GetValue("hk_ok"))
	os.Exit(0)
}

func hostileCase(c *vlib.Ctx, i int, r *vlib.Rand) {
	var names []string
	for k := range hostileClasses {
		names = append(names, k)
	}
	sort.Strings(names)
	class := names[i%len(names)]
	stage := []string{"construct", "reload"}[(i/len(names))%2]
	dir := tmpHome("hostile")
	defer os.RemoveAll(dir)
	ctx, cancel := context.WithTimeout(context.Background(), 60*time.Second)
	defer cancel()
	cmd := exec.CommandContext(ctx, os.Args[0], "child-hostile", dir, class, stage)
	var so, se bytes.Buffer
	cmd.Stdout, cmd.Stderr = &so, &se
	err := cmd.Run()
	c.Count("hostile_file_runs", 1)
	c.SetAdd("hostile_classes", class+"/"+stage)
	if ctx.Err() != nil {
		c.Inconclusive(fmt.Sprintf("hostile-syntax#%d", i), "watchdog")
		return
	}
	if err == nil && strings.HasPrefix(so.String(), "alive") {
		c.Count("hostile_file_runs_survived", 1)
		return
	}
	exit := -1
	if cmd.ProcessState != nil {
		exit = cmd.ProcessState.ExitCode()
	}
	c.Fail("FileConfig.reload:process-exit/"+class, fmt.Sprintf("a properties file of class %s (%q) found at %s ended the whole process (exit %d): %s", class, hostileClasses[class], stage, exit, clipStr(strings.TrimSpace(se.String()), 300)),
		map[string]interface{}{"file": hostileClasses[class], "stage": stage, "exit": exit, "stderr": clipStr(se.String(), 2000)})
}
