package main

// observer-histories: "registered observers are notified after each change" over REGISTRATION
// histories. The tracking sections register every observer once, under its own name, before
// the first load. Here one case is a sequence of registrations and file changes on one
// ConfigObserver:
//
//	register a new observer under a new name
//	register a new observer under a name that is already in use (once, or several times in a
//	  row: the component was re-created and registers its new instance under its fixed name)
//	register an observer object that is already registered under a second name
//	register the very same object again under its own name
//	register an observer that was replaced earlier again, under a new name
//	... each of them before the configuration object exists (before the first load), between
//	two polls, or between an external edit and the poll that loads it
//	external edit of the file (a later second every time) followed by a poll
//
// Model (independent of golib): registered = the last observer given for each name. After every
// edit + poll every CURRENTLY registered observer must have been run at least once by that poll,
// and what it saw inside the callback is the final content. An observer that was replaced under
// its name and is registered under no other name is owed nothing: whether the poll still runs
// it is counted (replaced_observer_runs) and never judged — the property speaks of registered
// observers only.
//
// Everything happens on one goroutine (registration, edits and polls are sequenced the way a
// start-up sequence creating its components does), so the monitor adds no unsynchronised
// access to the observer's map.

import (
	"fmt"
	"os"
	"path/filepath"
	"sort"
	"time"

	"github.com/whatap/golib/config"
	"github.com/whatap/golib/config/conffile"

	"verif/vlib"
)

type histObs struct {
	*recObserver
	id       int
	names    map[string]bool // names it is currently registered under
	everRepl bool            // was replaced under some name at least once
	late     bool            // registered after the configuration object was created
	midEdit  bool            // registered between an edit and the poll loading it (latest registration)
	twoNames bool            // registered under two names at some point
}

func obsHistCase(c *vlib.Ctx, i int, r *vlib.Rand) {
	dir := tmpHome("obs")
	defer os.RemoveAll(dir)
	path := filepath.Join(dir, confName)
	pfx := fmt.Sprintf("o%d_", i)

	// the file: a generation token plus a few ordinary keys (plain values: this section is about
	// who is told, not about syntax)
	nk := r.Range(1, 4)
	gen := 0
	vals := map[string]string{}
	fileKeys := []string{pfx + "gen"}
	for k := 0; k < nk; k++ {
		fileKeys = append(fileKeys, fmt.Sprintf("%sk%d", pfx, k))
	}
	render := func() string {
		gen++
		vals[fileKeys[0]] = fmt.Sprintf("g%d", gen)
		for _, k := range fileKeys[1:] {
			if _, ok := vals[k]; !ok || r.Chance(1, 2) {
				vals[k] = word(r) + fmt.Sprint(r.Intn(1000))
			}
		}
		s := ""
		if r.Chance(1, 3) {
			s += "# observers\n"
		}
		for _, k := range fileKeys {
			s += k + "=" + vals[k] + "\n"
		}
		return s
	}
	mt := time.Unix(1_650_000_000+int64(i%100000)*200, int64(r.Intn(1000))*1e6)
	nextTime := func() time.Time {
		mt = mt.Add(time.Duration(r.Range(1000, 3500)) * time.Millisecond) // a later second every time
		return mt
	}

	co := config.NewConfigObserver()
	var all []*histObs
	reg := map[string]*histObs{} // the model: last observer registered per name
	var names []string           // names in use, in order of first use
	reUsed := map[string]bool{}  // names that have been given a second, different observer
	var hist []string
	started, pendingEdit := false, false

	add := func(name string, o *histObs) {
		if prev := reg[name]; prev != nil && prev != o {
			delete(prev.names, name)
			prev.everRepl = true
			reUsed[name] = true
			c.Count("observer_registrations_replacing_another_under_the_same_name", 1)
		} else if prev == nil {
			names = append(names, name)
		}
		if reg[name] == o {
			c.Count("observer_registrations_repeated_same_object_same_name", 1)
		}
		reg[name] = o
		o.names[name] = true
		if len(o.names) > 1 {
			o.twoNames = true
			c.Count("observer_objects_registered_under_two_names", 1)
		}
		o.late = o.late || started
		o.midEdit = pendingEdit
		if started {
			c.Count("observer_registrations_after_the_first_load", 1)
		} else {
			c.Count("observer_registrations_before_the_first_load", 1)
		}
		if pendingEdit {
			c.Count("observer_registrations_between_edit_and_poll", 1)
		}
		co.Add(name, o)
		hist = append(hist, fmt.Sprintf("Add(%q, obs#%d)", name, o.id))
		c.Count("observer_registrations", 1)
	}
	newObs := func() *histObs {
		o := &histObs{recObserver: &recObserver{}, id: len(all), names: map[string]bool{}}
		o.setKeys(fileKeys)
		all = append(all, o)
		return o
	}
	newName := func() string { return fmt.Sprintf("component-%d", len(names)) }
	register := func() {
		switch x := r.Intn(12); {
		case x < 4 || len(names) == 0:
			add(newName(), newObs())
			c.SetAdd("observer_history_steps", "new-name")
		case x < 8:
			// a name already in use gets a new instance — once, or several times in a row
			name := names[r.Intn(len(names))]
			for k := []int{1, 1, 1, 2, 3}[r.Intn(5)]; k > 0; k-- {
				add(name, newObs())
			}
			c.SetAdd("observer_history_steps", "re-used-name")
		case x == 8:
			// an object that is registered already, under one more name (new or in use)
			var cur []*histObs
			for _, o := range all {
				if len(o.names) > 0 {
					cur = append(cur, o)
				}
			}
			o := cur[r.Intn(len(cur))]
			name := newName()
			if r.Chance(1, 3) {
				name = names[r.Intn(len(names))]
			}
			add(name, o)
			c.SetAdd("observer_history_steps", "same-object-second-name")
		case x == 9:
			name := names[r.Intn(len(names))]
			add(name, reg[name])
			c.SetAdd("observer_history_steps", "same-object-same-name-again")
		default:
			// an observer that was replaced earlier comes back under a new name
			var gone []*histObs
			for _, o := range all {
				if len(o.names) == 0 {
					gone = append(gone, o)
				}
			}
			if len(gone) == 0 {
				add(newName(), newObs())
				c.SetAdd("observer_history_steps", "new-name")
				return
			}
			add(newName(), gone[r.Intn(len(gone))])
			c.SetAdd("observer_history_steps", "replaced-observer-registered-again")
		}
	}

	// before the configuration object exists
	for k := r.Intn(5); k > 0; k-- {
		register()
	}
	content := render()
	writeFileAt(path, content, nextTime())
	conf := newConf(dir, conffile.WithConfigObserver(co)) // loads the file: the first load
	defer conf.VerifStop()
	started = true
	hist = append(hist, "create configuration object (first load, "+vals[fileKeys[0]]+")")
	// the first load is no change of the file: what it notifies is counted only
	for _, o := range all {
		if n, _ := o.snapshot(); n > 0 && len(o.names) > 0 {
			c.Count("observers_notified_by_the_first_load", 1)
		}
	}

	detail := func(extra map[string]interface{}) map[string]interface{} {
		regNow := map[string]string{}
		for n, o := range reg {
			regNow[n] = fmt.Sprintf("obs#%d", o.id)
		}
		d := map[string]interface{}{"history": hist, "registered_now": regNow, "file": clipStr(content, 1500)}
		for k, v := range extra {
			d[k] = v
		}
		return d
	}

	nEdits := r.Range(2, 6)
	for e := 1; e <= nEdits; e++ {
		for k := []int{0, 0, 1, 1, 2, 3}[r.Intn(6)]; k > 0; k-- {
			register() // between two polls
		}
		content = render()
		method := emInPlace
		if r.Chance(1, 3) {
			method = emReplace
		}
		placeFile(path, content, nextTime(), method)
		pendingEdit = true
		hist = append(hist, fmt.Sprintf("edit %d (%s, %s)", e, vals[fileKeys[0]], method))
		if r.Chance(1, 3) {
			for k := r.Range(1, 2); k > 0; k-- {
				register() // the edit is on disk, the poll has not come yet
			}
		}
		before := make([]int, len(all))
		for k, o := range all {
			before[k], _ = o.snapshot()
		}
		conf.VerifReloadNow()
		pendingEdit = false
		hist = append(hist, "poll")
		c.Count("observer_history_polls_after_a_change", 1)
		if got := conf.GetValue(fileKeys[0]); got != vals[fileKeys[0]] {
			// not this section's subject (tracking judges it); the observers cannot be judged then
			c.Count("observer_history_polls_that_did_not_load_the_edit", 1)
			continue
		}
		for k, o := range all {
			calls, seen := o.snapshot()
			ran := calls - before[k]
			if len(o.names) == 0 {
				c.Count("replaced_observer_polls", 1)
				if ran > 0 {
					c.Count("replaced_observer_runs", 1)
				}
				continue
			}
			c.Count("observer_history_expectations", 1)
			class := "distinct-name"
			reReg := false
			for n := range o.names {
				reReg = reReg || reUsed[n]
			}
			switch {
			case reReg:
				class = "re-registered-name"
				c.Count("observer_history_expectations/re-registered-name", 1)
			case o.twoNames:
				class = "same-object-two-names"
				c.Count("observer_history_expectations/same-object-two-names", 1)
			case o.midEdit:
				class = "registered-between-edit-and-poll"
				c.Count("observer_history_expectations/registered-between-edit-and-poll", 1)
			case o.late:
				class = "registered-after-first-load"
				c.Count("observer_history_expectations/registered-after-first-load", 1)
			default:
				c.Count("observer_history_expectations/registered-before-first-load", 1)
			}
			if o.everRepl {
				c.Count("observer_history_expectations/replaced-earlier-registered-again", 1)
			}
			var ns []string
			for n := range o.names {
				ns = append(ns, n)
			}
			sort.Strings(ns)
			if ran == 0 {
				key := "FileConfig:observer-not-notified"
				if class != "distinct-name" {
					key += "/" + class
				}
				c.Fail(key, fmt.Sprintf("the file changed (edit %d, %s) and the poll loaded it, but obs#%d — currently registered under %v (%s) — was not run by that poll", e, vals[fileKeys[0]], o.id, ns, class),
					detail(map[string]interface{}{"observer": o.id, "registered_under": ns, "class": class, "edit": e}))
				continue
			}
			c.Count("observer_history_notifications", 1)
			if ran > 1 {
				c.Count("observer_history_notified_more_than_once_by_one_poll", 1)
			}
			for _, fk := range fileKeys {
				if seen[fk] != vals[fk] {
					c.Fail("FileConfig:observer-saw-stale-value", fmt.Sprintf("obs#%d (registered under %v, %s) was run after edit %d but GetValue(%q) inside the callback gave %s, the file holds %s", o.id, ns, class, e, fk, quoteClip(seen[fk], 60), quoteClip(vals[fk], 60)),
						detail(map[string]interface{}{"observer": o.id, "key": fk, "expected": vals[fk], "observer_saw": seen[fk]}))
					break
				}
			}
		}
	}
	c.Count("observer_histories", 1)
	c.DistinctStr(fmt.Sprint(hist))
	if c.WantSample() && i%5 == 2 {
		c.Sample(map[string]interface{}{"section": "observer-histories", "history": hist, "observers": len(all), "names": len(names)})
	}
}
