package main

import (
	"fmt"
	"os"
	"path/filepath"
	"strconv"
	"strings"

	"github.com/whatap/golib/config/conffile"

	"verif/vlib"
)

// File shapes. "plain" is what the property names first (comments, blank lines, key=value in
// a given order); each other shape is one further construct of the properties syntax and is
// keyed separately.
var fileShapes = []string{
	"plain", "plain", "plain", "plain", "plain", "plain", "plain", "plain", "plain", "plain", "plain", "plain",
	"spaced-separator", "colon-or-blank-separator", "comment-containing-equals", "escaped-values-in-file",
	"continuation-line", "no-final-newline", "duplicate-key", "line-longer-than-4096", "blanks-before-key", "hash-inside-value-in-file",
}

// Classes of written values (only used on plain files).
var valueClasses = []string{
	"plain", "plain", "plain", "plain", "plain", "plain",
	"empty", "separator-chars-inside", "starts-with-separator", "single-backslash", "double-backslash", "trailing-backslash",
	"leading-blank", "trailing-blank", "unicode", "tab-inside", "multi-line", "longer-than-4096", "new-key-nonword-start",
}

func plainFileValue(r *vlib.Rand) string {
	switch r.Intn(6) {
	case 0:
		return strconv.Itoa(int(r.I32()))
	case 1:
		return []string{"true", "false"}[r.Intn(2)]
	case 2:
		s, _ := intList(r, false)
		return strings.ReplaceAll(s, " ", "")
	case 3:
		return word(r) + "," + word(r)
	default:
		return plainText(r, 1, 30)
	}
}

func writtenValue(r *vlib.Rand, class string) string {
	switch class {
	case "empty":
		return ""
	case "separator-chars-inside":
		return plainText(r, 1, 8) + string("=:#!"[r.Intn(4)]) + plainText(r, 1, 8) + string("=:#!"[r.Intn(4)]) + word(r)
	case "starts-with-separator":
		return string("=:#!"[r.Intn(4)]) + plainText(r, 1, 10)
	case "single-backslash":
		return word(r) + "\\" + word(r) + "\\" + word(r)
	case "double-backslash":
		return word(r) + "\\\\" + word(r)
	case "trailing-backslash":
		return word(r) + "\\"
	case "leading-blank":
		return " " + plainText(r, 1, 10)
	case "trailing-blank":
		return plainText(r, 1, 10) + " "
	case "unicode":
		return uniText(r)
	case "tab-inside":
		return word(r) + "\t" + word(r)
	case "multi-line":
		return word(r) + "\n" + word(r)
	case "longer-than-4096":
		return plainText(r, 4200, 9000)
	}
	return plainFileValue(r)
}

type wbCase struct {
	Shape      string            `json:"file_shape"`
	ValueClass string            `json:"value_class"`
	Prefix     string            `json:"prefix"`
	Suffix     string            `json:"suffix"`
	Exclude    []string          `json:"exclude_keys"`
	Input      map[string]string `json:"set_values"`
	Old        string            `json:"file_before"`
	New        string            `json:"file_after"`
}

func writebackCase(c *vlib.Ctx, i int, r *vlib.Rand) {
	dir := tmpHome("wb")
	defer os.RemoveAll(dir)
	path := filepath.Join(dir, confName)
	pfx := fmt.Sprintf("w%d_", i)
	nkeys := 0
	shape := fileShapes[r.Intn(len(fileShapes))]
	vclass := "plain"
	if shape == "plain" {
		vclass = valueClasses[r.Intn(len(valueClasses))]
	}
	c.SetAdd("writeback_file_shapes", shape)
	c.SetAdd("writeback_value_classes", vclass)

	prefix, suffix := "", ""
	if r.Chance(1, 4) {
		prefix = []string{"whatap.", "agent_"}[r.Intn(2)]
	}
	if r.Chance(1, 6) {
		suffix = []string{".v2", "_x"}[r.Intn(2)]
	}

	// ---- the file before ----
	var lines []string
	var fileKeys []string
	nItems := r.Range(3, 14)
	special := r.Range(0, nItems-1) // position of the one line carrying the exotic construct
	mk := func() string {
		nkeys++
		return fmt.Sprintf("%s%s%d_%s%s", prefix, pfx, nkeys, word(r), suffix)
	}
	for n := 0; n < nItems; n++ {
		exotic := n == special && shape != "plain"
		if !exotic {
			switch r.Intn(6) {
			case 0:
				lines = append(lines, "# "+plainText(r, 0, 30))
				continue
			case 1:
				lines = append(lines, "")
				continue
			}
			k := mk()
			fileKeys = append(fileKeys, k)
			lines = append(lines, k+"="+plainFileValue(r))
			continue
		}
		k := mk()
		v := plainFileValue(r)
		switch shape {
		case "spaced-separator":
			lines = append(lines, k+" = "+v)
			fileKeys = append(fileKeys, k)
		case "colon-or-blank-separator":
			lines = append(lines, k+[]string{":", " ", " : "}[r.Intn(3)]+v)
			fileKeys = append(fileKeys, k)
		case "comment-containing-equals":
			lines = append(lines, []string{"# " + word(r) + " = " + word(r) + " = " + word(r), "#" + word(r) + "=" + word(r) + "=" + word(r), "# see " + word(r) + "=" + word(r) + " (old)"}[r.Intn(3)])
		case "escaped-values-in-file":
			lines = append(lines, k+"="+[]string{"C:\\\\dir\\\\" + word(r), word(r) + "\\t" + word(r), word(r) + "\\n" + word(r), "caf\\u00e9 " + word(r), "a\\=b", "\\ lead"}[r.Intn(6)])
			fileKeys = append(fileKeys, k)
		case "continuation-line":
			lines = append(lines, k+"="+word(r)+",\\", "    "+word(r)+[]string{"", "=x"}[r.Intn(2)])
			fileKeys = append(fileKeys, k)
		case "duplicate-key":
			lines = append(lines, k+"="+v, "# between", k+"="+plainFileValue(r))
			fileKeys = append(fileKeys, k)
		case "line-longer-than-4096":
			lines = append(lines, k+"="+plainText(r, 4200, 9000))
			fileKeys = append(fileKeys, k)
		case "blanks-before-key":
			lines = append(lines, []string{"  ", "\t", " \t"}[r.Intn(3)]+k+"="+v)
			fileKeys = append(fileKeys, k)
		case "hash-inside-value-in-file":
			lines = append(lines, k+"="+word(r)+" # "+word(r))
			fileKeys = append(fileKeys, k)
		default: // no-final-newline handled below
			lines = append(lines, k+"="+v)
			fileKeys = append(fileKeys, k)
		}
	}
	if len(fileKeys) == 0 {
		k := mk()
		fileKeys = append(fileKeys, k)
		lines = append(lines, k+"="+plainFileValue(r))
	}
	oldText := strings.Join(lines, "\n") + "\n"
	if shape == "no-final-newline" {
		oldText = strings.TrimSuffix(oldText, "\n")
	}
	if err := os.WriteFile(path, []byte(oldText), 0o644); err != nil {
		panic(err)
	}
	_, oldMap := refParse(oldText)

	// ---- the SetValues call ----
	input := map[string]string{}
	strip := func(k string) string { // callers may pass keys without prefix/suffix
		if r.Chance(1, 2) {
			k = strings.TrimPrefix(k, prefix)
		}
		if r.Chance(1, 2) {
			k = strings.TrimSuffix(k, suffix)
		}
		return k
	}
	nChange := r.Range(0, 3)
	nNew := r.Range(0, 3)
	if nChange+nNew == 0 {
		nChange = 1
	}
	perm := make([]int, len(fileKeys))
	for k := range perm {
		perm[k] = k
	}
	r.Shuffle(len(perm), func(a, b int) { perm[a], perm[b] = perm[b], perm[a] })
	for n := 0; n < nChange && n < len(perm); n++ {
		input[strip(fileKeys[perm[n]])] = writtenValue(r, vclass)
	}
	for n := 0; n < nNew; n++ {
		k := mk()
		if vclass == "new-key-nonword-start" {
			k = []string{".", "-", "@"}[r.Intn(3)] + k
			input[k] = plainFileValue(r)
			continue
		}
		input[strip(k)] = writtenValue(r, vclass)
	}
	var exclude []string
	if r.Chance(1, 4) {
		// one excluded key that the caller passes anyway
		var ek string
		if r.Chance(1, 2) && len(perm) > nChange {
			ek = fileKeys[perm[len(perm)-1]]
		} else {
			ek = mk()
		}
		if _, dup := input[ek]; !dup {
			exclude = append(exclude, ek)
			input[ek] = "excluded-" + word(r)
		}
	}
	// the independent model of the merge
	effective := map[string]string{}
	for k, v := range input {
		skip := false
		for _, e := range exclude {
			if e == k {
				skip = true
			}
		}
		if skip {
			continue
		}
		ek := k
		if prefix != "" && !strings.HasPrefix(ek, prefix) {
			ek = prefix + ek
		}
		if suffix != "" && !strings.HasSuffix(ek, suffix) {
			ek = ek + suffix
		}
		effective[ek] = v
	}

	opts := []conffile.FileConfigOption{}
	if prefix != "" {
		opts = append(opts, conffile.WithPrefix(prefix))
	}
	if suffix != "" {
		opts = append(opts, conffile.WithSuffix(suffix))
	}
	if len(exclude) > 0 {
		opts = append(opts, conffile.WithExcludeKeys(exclude))
	}
	conf := newConf(dir, opts...)
	defer conf.VerifStop()
	in2 := map[string]string{}
	for k, v := range input {
		in2[k] = v
	}
	// files an earlier, interrupted write-back (or an editor) may have left next to the
	// configuration file: whatever they hold must never reach the file
	planted := false
	if r.Chance(1, 3) {
		planted = true
		stale := oldText + strings.Repeat("stale.leftover.key=from-an-interrupted-write\n", r.Range(50, 400))
		base := filepath.Base(path)
		for _, n := range []string{base + ".tmp", base + ".tmp0", base + ".bak", base + "~", "." + base + ".swp", base + ".new"} {
			if r.Chance(2, 3) {
				os.WriteFile(filepath.Join(filepath.Dir(path), n), []byte(stale), 0o644)
			}
		}
		c.Count("writebacks_next_to_leftover_scratch_files", 1)
	}
	if p := vlib.Catch(func() { conf.SetValues(&in2) }); p != nil {
		c.Fail("FileConfig.SetValues:panic/"+classOf(shape, vclass), fmt.Sprintf("SetValues panicked: %v", p), wbCase{shape, vclass, prefix, suffix, exclude, clipMap(input), clipStr(oldText, 3000), ""})
		return
	}
	nb, err := os.ReadFile(path)
	if err != nil {
		c.Fail("FileConfig.SetValues:file-missing-after-write", err.Error(), nil)
		return
	}
	newText := string(nb)
	if planted && strings.Contains(newText, "stale.leftover.key") {
		c.Fail("FileConfig.SetValues:leftover-scratch-content-in-file", "after SetValues the configuration file holds content of a stale scratch file that lay next to it",
			wbCase{shape, vclass, prefix, suffix, exclude, clipMap(input), clipStr(oldText, 3000), clipStr(newText, 3000)})
		return
	}
	_, newMap := refParse(newText)
	det := wbCase{shape, vclass, prefix, suffix, exclude, clipMap(input), clipStr(oldText, 3000), clipStr(newText, 3000)}
	sfx := ""
	if shape != "plain" {
		sfx = "/file-" + shape
	}

	// (1) other keys keep their values
	for _, k := range fileKeys {
		if _, written := effective[k]; written {
			continue
		}
		c.Count("writeback_untouched_key_checks", 1)
		if nv, ok := newMap[k]; !ok || nv != oldMap[k] {
			key := "FileConfig.SetValues:other-key-changed" + sfx
			for _, e := range exclude {
				if e == k && ok && nv == input[k] {
					key = "FileConfig.SetValues:excluded-key-written"
				}
			}
			c.Fail(key, fmt.Sprintf("key %q was not written but its value went from %s to %s (present=%v)", k, quoteClip(oldMap[k], 60), quoteClip(nv, 60), ok), det)
			break
		}
	}
	// (2) nothing appears that nobody wrote
	for k := range newMap {
		_, was := oldMap[k]
		_, written := effective[k]
		if !was && !written {
			key := "FileConfig.SetValues:spurious-key-appeared" + sfx
			if sfx == "" && vclass != "plain" {
				key += "/" + vclass
			}
			for _, e := range exclude {
				if e == k {
					key = "FileConfig.SetValues:excluded-key-written"
				}
			}
			c.Fail(key, fmt.Sprintf("key %s is in the file after SetValues; it was neither there before nor written", quoteClip(k, 60)), det)
			break
		}
	}
	// (3) comment lines and relative order
	c.Count("writeback_order_checks", 1)
	if a, b := orderSkeleton(oldText, newMap, nil), orderSkeleton(newText, nil, oldMap); !equalStrs(a, b) {
		key := "FileConfig.SetValues:comment-or-order-lost" + sfx
		if sfx == "" && vclass != "plain" {
			key += "/" + vclass
		}
		c.Fail(key, fmt.Sprintf("comment lines / order of surviving keys before: %q after: %q", clipStrs(a), clipStrs(b)), det)
	}
	// (4) written values read back unchanged
	for k, v := range effective {
		c.Count("writeback_roundtrip_checks", 1)
		nv, ok := newMap[k]
		good := ok && nv == v
		if v == "" {
			good = !ok || nv == "" // writing an empty value removes the key
		}
		if !good {
			cl := vclass
			if shape != "plain" {
				cl = "file-" + shape
			}
			c.Fail("FileConfig.SetValues:value-not-roundtripped/"+cl, fmt.Sprintf("wrote %s=%s, a fresh parse of the file gives %s (present=%v)", k, quoteClip(v, 60), quoteClip(nv, 60), ok), det)
			break
		}
	}
	// golib's own fresh Read must agree with the reference parse on what was written
	if p := vlib.Catch(func() {
		m, err := conffile.NewDefaultFileParser().Read(path)
		if err == nil {
			c.Count("writeback_fresh_read_checks", 1)
			for k, v := range effective {
				if refHasDollarBrace(v) {
					continue
				}
				if rv, ok := newMap[k]; ok && rv == v && v != "" && m[k] != v {
					c.Fail("DefaultFileParser.Read:differs-from-reference-parse/"+classOf(shape, vclass), fmt.Sprintf("the file holds %s=%s but a fresh Read returns %s", k, quoteClip(v, 60), quoteClip(m[k], 60)), det)
					break
				}
			}
		}
	}); p != nil {
		c.Fail("DefaultFileParser.Read:panic-after-write/"+classOf(shape, vclass), fmt.Sprintf("fresh Read of the written file panicked: %v", p), det)
	}
	c.Count("writebacks", 1)
	c.DistinctStr("wb|" + oldText + "|" + fmt.Sprint(input) + prefix + suffix)
	if c.WantSample() && i%11 == 5 {
		c.Sample(map[string]interface{}{"section": "write-back", "case": det})
	}
}

func refHasDollarBrace(s string) bool { return strings.Contains(s, "${") }

func classOf(shape, vclass string) string {
	if shape != "plain" {
		return "file-" + shape
	}
	return vclass
}

func clipMap(m map[string]string) map[string]string {
	out := map[string]string{}
	for k, v := range m {
		out[k] = clipStr(v, 200)
	}
	return out
}

// orderSkeleton lists, in file order, the comment lines (verbatim) and the keys that pass
// the filter (keys present in `in`, when given).
func orderSkeleton(text string, mustBeIn map[string]string, mustBeIn2 map[string]string) []string {
	var out []string
	seen := map[string]bool{}
	for _, l := range refParseLines(text) {
		switch l.Kind {
		case lineComment:
			out = append(out, "C:"+l.Raw)
		case lineKV:
			if mustBeIn != nil {
				if _, ok := mustBeIn[l.Key]; !ok {
					continue
				}
			}
			if mustBeIn2 != nil {
				if _, ok := mustBeIn2[l.Key]; !ok {
					continue
				}
			}
			if seen[l.Key] {
				continue // a repeated key counts where it first stands
			}
			seen[l.Key] = true
			out = append(out, "K:"+l.Key)
		}
	}
	return out
}

func equalStrs(a, b []string) bool {
	if len(a) != len(b) {
		return false
	}
	for i := range a {
		if a[i] != b[i] {
			return false
		}
	}
	return true
}
