package main

// Snapshot-consistency monitor ("getters running concurrently with a reload do not observe
// torn state", for the getters that present the WHOLE configuration as one call).
//
// The file holds many keys (hundreds to thousands) that ALL carry the same generation token;
// every generation additionally brings a batch of new keys. Each generation is a complete new
// file that is moved over the old one (the file on disk is never half-written), then one
// reload runs. Reader goroutines call String(), ToString() and GetKeys() all the time. Each
// such call is ONE observation of the configuration, so what it returns must be a state the
// configuration had between two reloads: all generation keys of one generation, the key set
// of one generation. A result that mixes two generations, or holds a part of a batch, is a
// state that never existed.
//
// GetKeys() followed by GetValue per key is several calls and not judged here.
//
// Like the getter stress this runs in a grandchild process (own GOMAXPROCS; a runtime fatal
// error ends the grandchild only).

import (
	"bytes"
	"context"
	"encoding/json"
	"fmt"
	"os"
	"os/exec"
	"path/filepath"
	"runtime"
	"sort"
	"strconv"
	"strings"
	"sync"
	"sync/atomic"
	"time"

	"github.com/whatap/golib/config"
	"github.com/whatap/golib/config/conffile"

	"verif/vlib"
)

type snapFinding struct {
	Key      string   `json:"key"`
	Msg      string   `json:"msg"`
	Count    int64    `json:"count"`
	Examples []string `json:"examples"`
}

type snapResult struct {
	Snapshots        int64            `json:"snapshots"`
	DuringReload     int64            `json:"snapshots_overlapping_a_reload"`
	PerCall          map[string]int64 `json:"per_call"`
	Reloads          int64            `json:"reloads"`
	RemovalReloads   int64            `json:"reloads_with_the_file_removed"`
	KeysPerSnapshot  int64            `json:"max_generation_keys_in_one_snapshot"`
	DistinctStates   int64            `json:"distinct_states_seen_by_readers"`
	QuiescentStates  int64            `json:"quiescent_states"`
	ObserverCalls    int64            `json:"observer_calls"`
	Procs            int              `json:"gomaxprocs"`
	Findings         []snapFinding    `json:"findings"`
	ReaderStatesSeen []string         `json:"reader_states,omitempty"`
}

func snapCase(c *vlib.Ctx, i int, r *vlib.Rand) {
	readers := 1 + i%8
	// at least two processors: with one, goroutines change only where one of them blocks or
	// yields, and a merge that never blocks runs from its first to its last entry unobserved
	procs := []int{2, 4, 8, 16}[r.Intn(4)]
	nkeys := []int{200, 500, 1000, 3000}[r.Intn(4)]
	batch := []int{0, 8, 40}[r.Intn(3)]
	gens := r.Range(c.N(12, 20), c.N(24, 40))
	if c.Flavour == "race" {
		gens = r.Range(8, 16)
	}
	removeAt := 0
	if r.Chance(1, 3) {
		removeAt = r.Range(2, gens-1)
	}
	seed := r.U64()
	dir := tmpHome("snap")
	defer os.RemoveAll(dir)

	ctx, cancel := context.WithTimeout(context.Background(), 240*time.Second)
	defer cancel()
	args := []string{"child-snap", strconv.FormatUint(seed, 10), strconv.Itoa(readers), strconv.Itoa(gens), strconv.Itoa(nkeys), strconv.Itoa(batch), strconv.Itoa(removeAt), dir}
	cmd := exec.CommandContext(ctx, os.Args[0], args...)
	cmd.Env = append(stressEnv(), "GOMAXPROCS="+strconv.Itoa(procs))
	var so, se bytes.Buffer
	cmd.Stdout, cmd.Stderr = &so, &se
	err := cmd.Run()
	params := map[string]interface{}{"seed": strconv.FormatUint(seed, 10), "readers": readers, "generations": gens, "keys_per_generation": nkeys, "new_keys_per_generation": batch,
		"file_removed_before_generation": removeAt, "gomaxprocs": procs,
		"rerun": fmt.Sprintf("GOMAXPROCS=%d <worker> %s <empty dir>", procs, strings.Join(args[:len(args)-1], " "))}
	c.Count("snapshot_runs", 1)
	c.SetAdd("snapshot_shapes", fmt.Sprintf("readers=%d,procs=%d,keys=%d,batch=%d,removal=%v", readers, procs, nkeys, batch, removeAt > 0))
	if ctx.Err() != nil {
		c.Inconclusive(fmt.Sprintf("snapshot#%d", i), "snapshot grandchild exceeded the 240 s watchdog")
		return
	}
	var res snapResult
	exit := -1
	if cmd.ProcessState != nil {
		exit = cmd.ProcessState.ExitCode()
	}
	if (err == nil || exit == 66) && json.Unmarshal(so.Bytes(), &res) == nil && res.Reloads > 0 {
		c.Count("snapshot_runs_completed", 1)
		c.Count("snapshot_calls", res.Snapshots)
		c.Count("snapshot_calls_overlapping_a_reload", res.DuringReload)
		c.Count("snapshot_reloads", res.Reloads)
		c.Count("snapshot_reloads_with_the_file_removed", res.RemovalReloads)
		c.Count("snapshot_observer_calls", res.ObserverCalls)
		c.Count("snapshot_distinct_states_seen_by_readers", res.DistinctStates)
		c.Max("max_generation_keys_in_one_snapshot", res.KeysPerSnapshot)
		for g, n := range res.PerCall {
			c.Count("snapshot_calls_"+g, n)
		}
		for _, f := range res.Findings {
			d := map[string]interface{}{"params": params, "count": f.Count, "examples": f.Examples}
			c.Fail(f.Key, fmt.Sprintf("%s (%d×), e.g. %s", f.Msg, f.Count, first(f.Examples)), d)
		}
		c.DistinctStr(fmt.Sprintf("snap|%d|%d|%d|%d|%d|%d|%d", seed, readers, gens, nkeys, batch, removeAt, procs))
		if c.WantSample() && i%5 == 0 {
			res.ReaderStatesSeen = clipStrs(res.ReaderStatesSeen)
			c.Sample(map[string]interface{}{"section": "snapshot", "params": params, "result": res})
		}
		return
	}
	stderr := se.String()
	kind := fatalKindOf(stderr, exit)
	c.Count("snapshot_runs_process_fatal", 1)
	if len(stderr) > 6000 {
		stderr = stderr[:3000] + "\n…\n" + stderr[len(stderr)-3000:]
	}
	params["stderr"] = stderr
	params["exit"] = exit
	c.Fail("fatal:"+kind+"@snapshot", "the process taking whole-configuration snapshots next to reloads was ended by the runtime: "+kind, params)
}

// ---- grandchild --------------------------------------------------------------------

const snapPfx = "sn_"

func snapBaseKey(k int) string     { return fmt.Sprintf("sn_b_%05d", k) }
func snapBatchKey(g, j int) string { return fmt.Sprintf("sn_g%04d_%03d", g, j) }
func snapToken(g int) string       { return "gen-" + strconv.Itoa(g) }

// snapFile is the complete file of generation g: every base key and every key of the
// batches 1..g, all with the token of g.
func snapFile(g, nkeys, batch int) string {
	var b strings.Builder
	tok := snapToken(g)
	fmt.Fprintf(&b, "# generation %d\n", g)
	for k := 0; k < nkeys; k++ {
		b.WriteString(snapBaseKey(k))
		b.WriteByte('=')
		b.WriteString(tok)
		b.WriteByte('\n')
	}
	for bg := 1; bg <= g; bg++ {
		for j := 0; j < batch; j++ {
			b.WriteString(snapBatchKey(bg, j))
			b.WriteByte('=')
			b.WriteString(tok)
			b.WriteByte('\n')
		}
	}
	return b.String()
}

// snapState is what one whole-configuration call showed, reduced to what is compared.
type snapState struct {
	Call    string // "S" String/ToString, "K" GetKeys
	Gens    string // S: the distinct generation tokens among the generation keys, sorted ("" none)
	NSn     int    // number of generation keys
	Batches string // K: "1..g" when exactly the batches 1..g are complete and no other key of a batch is there, else a description
	NOther  int    // keys that are not generation keys (golib's defaults after the file was missing)
}

func (s snapState) String() string {
	if s.Call == "S" {
		return fmt.Sprintf("String(): %d generation keys carrying {%s}, %d other keys", s.NSn, s.Gens, s.NOther)
	}
	return fmt.Sprintf("GetKeys(): %d generation keys, batches %s, %d other keys", s.NSn, s.Batches, s.NOther)
}

// stateOfString reduces a String()/ToString() result ("key=value" lines).
func stateOfString(s string) (snapState, string) {
	st := snapState{Call: "S"}
	counts := map[string]int{}
	for len(s) > 0 {
		ln := s
		if p := strings.IndexByte(s, '\n'); p >= 0 {
			ln, s = s[:p], s[p+1:]
		} else {
			s = ""
		}
		ln = strings.TrimRight(ln, "\r")
		p := strings.IndexByte(ln, '=')
		if p <= 0 {
			continue
		}
		if !strings.HasPrefix(ln, snapPfx) {
			st.NOther++
			continue
		}
		st.NSn++
		counts[strings.TrimSpace(ln[p+1:])]++
	}
	toks := make([]string, 0, len(counts))
	for t := range counts {
		toks = append(toks, t)
	}
	sort.Strings(toks)
	st.Gens = strings.Join(toks, ",")
	detail := ""
	if len(toks) > 1 {
		parts := make([]string, len(toks))
		for i, t := range toks {
			parts[i] = fmt.Sprintf("%d keys carry %s", counts[t], clipStr(t, 30))
		}
		detail = strings.Join(parts, ", ")
	}
	return st, detail
}

// stateOfKeys reduces a GetKeys() result.
func stateOfKeys(keys []string, batch int) snapState {
	st := snapState{Call: "K"}
	per := map[int]int{}
	maxG := 0
	for _, k := range keys {
		if !strings.HasPrefix(k, snapPfx) {
			st.NOther++
			continue
		}
		st.NSn++
		if strings.HasPrefix(k, "sn_g") && len(k) >= 8 {
			g, err := strconv.Atoi(k[4:8])
			if err != nil {
				g = -1
			}
			per[g]++
			if g > maxG {
				maxG = g
			}
		}
	}
	ok := true
	var odd []string
	for g := 1; g <= maxG; g++ {
		if per[g] != batch {
			ok = false
			odd = append(odd, fmt.Sprintf("batch %d: %d of %d keys", g, per[g], batch))
		}
	}
	if per[-1] > 0 {
		ok = false
		odd = append(odd, "unreadable batch key")
	}
	if ok {
		st.Batches = "1.." + strconv.Itoa(maxG)
	} else {
		if len(odd) > 4 {
			odd = append(odd[:4], "…")
		}
		st.Batches = "incomplete (" + strings.Join(odd, "; ") + ")"
	}
	return st
}

// snapConf: the calls go through the interface held in a package variable (not inlined, so
// race reports keep their golib frame).
var snapConf config.Config

func childSnap(args []string) {
	if len(args) < 7 {
		fmt.Fprintln(os.Stderr, "usage: child-snap seed readers gens nkeys batch removeAt dir")
		os.Exit(3)
	}
	seed, _ := strconv.ParseUint(args[0], 10, 64)
	readers, _ := strconv.Atoi(args[1])
	gens, _ := strconv.Atoi(args[2])
	nkeys, _ := strconv.Atoi(args[3])
	batch, _ := strconv.Atoi(args[4])
	removeAt, _ := strconv.Atoi(args[5])
	dir := args[6]
	path := filepath.Join(dir, confName)
	base := time.Unix(1_700_000_000, 0)

	var res snapResult
	res.PerCall = map[string]int64{}
	res.Procs = runtime.GOMAXPROCS(0)
	findings := map[string]*snapFinding{}
	addFindingN := func(key, msg, example string, n int64) {
		f := findings[key]
		if f == nil {
			f = &snapFinding{Key: key, Msg: msg}
			findings[key] = f
		}
		f.Count += n
		if len(f.Examples) < 6 {
			f.Examples = append(f.Examples, example)
		}
	}

	addFinding := func(key, msg, example string) { addFindingN(key, msg, example, 1) }

	placeFile(path, snapFile(0, nkeys, batch), base, emReplace)

	// the observer takes a snapshot inside the notification (it runs on the reloading
	// goroutine, after the merge)
	var obsMu sync.Mutex
	var obsCallsV int64
	var obsStateV snapState
	co := config.NewConfigObserver()
	co.Add("snapshot-observer", observerFunc(func(cf config.Config) {
		st, _ := stateOfString(cf.String())
		obsMu.Lock()
		obsCallsV++
		obsStateV = st
		obsMu.Unlock()
	}))
	obs := func() (int64, snapState) {
		obsMu.Lock()
		defer obsMu.Unlock()
		return obsCallsV, obsStateV
	}
	fc := newConf(dir, conffile.WithConfigObserver(co))
	snapConf = fc
	conf := snapConf

	// states at rest (taken by the reloading goroutine itself between two reloads): the only
	// states a reader may see
	rest := map[snapState]string{}
	atRest := func(after string, g int, removed bool) {
		s, _ := stateOfString(conf.String())
		k := stateOfKeys(conf.GetKeys(), batch)
		rest[s] = after
		rest[k] = after
		// … and these are what the file says (independent of golib: the file text is ours)
		wantN, wantGens, wantBatches := nkeys+g*batch, snapToken(g), "1.."+strconv.Itoa(g)
		if batch == 0 {
			wantBatches = "1..0"
		}
		if removed {
			wantN, wantGens, wantBatches = 0, "", "1..0"
		}
		if s.NSn != wantN || s.Gens != wantGens {
			addFinding("FileConfig:value-not-visible/after-concurrent-snapshots", "with the file at rest and reloaded, String() does not show the file", fmt.Sprintf("after %s: %v; the file holds %d keys carrying {%s}", after, s, wantN, wantGens))
		}
		if k.NSn != wantN || k.Batches != wantBatches {
			addFinding("FileConfig:value-not-visible/after-concurrent-snapshots", "with the file at rest and reloaded, GetKeys() does not list the keys of the file", fmt.Sprintf("after %s: %v; the file holds %d keys, batches %s", after, k, wantN, wantBatches))
		}
		if int64(s.NSn) > res.KeysPerSnapshot {
			res.KeysPerSnapshot = int64(s.NSn)
		}
	}
	atRest("the initial load", 0, false)

	var done, inReload, started int32
	// removalSeq is odd while the reload that finds the file removed runs: a call that read the
	// same even number before and after did not overlap it
	var removalSeq int32
	var mu sync.Mutex
	seen := map[snapState]string{} // reader states → first detail
	seenN := map[snapState]int64{}
	seenApart := map[snapState]bool{} // some occurrence did not overlap the file-removal reload
	var snaps, during int64
	var progress int64 // snapshots completed so far, all readers (pacing only)
	var wg sync.WaitGroup
	for g := 0; g < readers; g++ {
		wg.Add(1)
		go func(g int) {
			defer wg.Done()
			rr := vlib.NewRand(seed ^ uint64(g+1)*0x9e3779b97f4a7c15)
			mine := map[snapState]string{}
			mineN := map[snapState]int64{}
			mineApart := map[snapState]bool{}
			per := map[string]int64{}
			var n, nd int64
			atomic.AddInt32(&started, 1)
			for atomic.LoadInt32(&done) == 0 {
				a := atomic.LoadInt32(&inReload)
				q0 := atomic.LoadInt32(&removalSeq)
				var st snapState
				detail := ""
				switch rr.Intn(5) {
				case 0, 1:
					per["String"]++
					st, detail = stateOfString(conf.String())
				case 2, 3:
					per["ToString"]++
					st, detail = stateOfString(conf.ToString())
				default:
					per["GetKeys"]++
					st = stateOfKeys(conf.GetKeys(), batch)
				}
				q1 := atomic.LoadInt32(&removalSeq)
				b := atomic.LoadInt32(&inReload)
				atomic.AddInt64(&progress, 1)
				n++
				if a != 0 || b != 0 {
					nd++
				}
				if _, ok := mine[st]; !ok && len(mine) < 400 {
					mine[st] = detail
				}
				if _, ok := mine[st]; ok {
					mineN[st]++
					if q0 == q1 && q0%2 == 0 {
						mineApart[st] = true
					}
				}
				runtime.Gosched()
			}
			atomic.AddInt64(&snaps, n)
			atomic.AddInt64(&during, nd)
			mu.Lock()
			for s, d := range mine {
				if _, ok := seen[s]; !ok {
					seen[s] = d
				}
				seenN[s] += mineN[s]
				if mineApart[s] {
					seenApart[s] = true
				}
			}
			for k, v := range per {
				res.PerCall[k] += v
			}
			mu.Unlock()
		}(g)
	}
	for atomic.LoadInt32(&started) < int32(readers) {
		runtime.Gosched()
	}

	// the single reloader: the external edit (a complete file moved over the old one), then
	// the poll
	for g := 1; g <= gens; g++ {
		if g == removeAt {
			os.Remove(path)
			atomic.AddInt32(&removalSeq, 1)
			atomic.StoreInt32(&inReload, 1)
			fc.VerifReloadNow()
			atomic.StoreInt32(&inReload, 0)
			atomic.AddInt32(&removalSeq, 1)
			res.RemovalReloads++
			atRest(fmt.Sprintf("the reload that found the file removed (before generation %d)", g), g-1, true)
		}
		placeFile(path, snapFile(g, nkeys, batch), base.Add(time.Duration(g)*time.Second), emReplace)
		before, _ := obs()
		atomic.StoreInt32(&inReload, 1)
		fc.VerifReloadNow()
		atomic.StoreInt32(&inReload, 0)
		res.Reloads++
		atRest(fmt.Sprintf("the reload of generation %d", g), g, false)
		// pacing (by work done, not by time): the readers complete a few snapshots of this
		// generation before the next one arrives, so that every reload starts among running
		// snapshot calls
		for target := atomic.LoadInt64(&progress) + int64(2*readers); atomic.LoadInt64(&progress) < target; {
			runtime.Gosched()
		}
		if obsCalls, obsState := obs(); obsCalls == before {
			addFinding("FileConfig:observer-not-notified/during-concurrent-snapshots", "a new generation of the file was reloaded but the observer was not called", fmt.Sprintf("generation %d", g))
		} else if obsState.Gens != snapToken(g) || obsState.NSn != nkeys+g*batch {
			addFinding("FileConfig:observer-saw-stale-value", "String() inside the observer notification does not show the generation just loaded", fmt.Sprintf("generation %d: %v", g, obsState))
		}
		runtime.Gosched()
	}
	atomic.StoreInt32(&done, 1)
	wg.Wait()

	// verdict on what the readers saw
	for st, detail := range seen {
		res.ReaderStatesSeen = append(res.ReaderStatesSeen, st.String())
		if _, ok := rest[st]; ok {
			continue
		}
		// the generation keys by themselves are consistent (they are those of a state at
		// rest, or there are none): what is off is the rest of the map — only the reload
		// that finds the file removed rewrites that, so every occurrence must have
		// overlapped that reload
		snOK := st.NSn == 0 && st.Gens == ""
		for q := range rest {
			if q.Call == st.Call && q.NSn == st.NSn && q.Gens == st.Gens && q.Batches == st.Batches {
				snOK = true
			}
		}
		ex := st.String()
		if detail != "" {
			ex += " [" + detail + "]"
		}
		addFinding := func(key, msg, example string) { addFindingN(key, msg, example, seenN[st]) }
		switch {
		case snOK && !seenApart[st]:
			addFinding("FileConfig:torn-read/snapshot-during-file-removal", "one call returned a configuration that existed at no time: neither the loaded file nor the defaults that replace it when the file is gone", ex)
		case st.Call == "K":
			addFinding("FileConfig:torn-read/snapshot-keys", "one GetKeys() call returned a key set that existed at no time (part of the keys a reload adds)", ex)
		default:
			addFinding("FileConfig:torn-read/snapshot", "one String()/ToString() call returned a configuration that existed at no time (part of the old file, part of the new one)", ex)
		}
	}
	sort.Strings(res.ReaderStatesSeen)
	res.DistinctStates = int64(len(seen))
	res.QuiescentStates = int64(len(rest))
	res.Snapshots, res.DuringReload = snaps, during
	res.ObserverCalls, _ = obs()
	keys := make([]string, 0, len(findings))
	for k := range findings {
		keys = append(keys, k)
	}
	sort.Strings(keys)
	for _, k := range keys {
		res.Findings = append(res.Findings, *findings[k])
	}
	b, _ := json.Marshal(&res)
	os.Stdout.Write(b)
}
