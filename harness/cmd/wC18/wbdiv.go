package main

import (
	"fmt"
	"os"
	"path/filepath"
	"sort"
	"strings"
	"time"

	"github.com/whatap/golib/config/conffile"

	"verif/vlib"
)

// write-back-divergent: SetValues at a moment when the FILE and the LOADED state disagree.
//
// The write-back section creates the object on the very file it then writes, so whatever
// SetValues merges into — the file or the loaded map — is the same thing there. Here the two
// differ when SetValues is called:
//
//	* external edits made after the last poll and not loaded yet (change / add / delete a
//	  key, rewrite of the whole file);
//	* keys deleted from the file in earlier generations (polled since: the loaded map keeps
//	  them, see the known finding deleted-key-keeps-previous);
//	* the file was missing at a poll (the loaded map holds golib's defaults) and came back;
//	* in-memory overrides through the public ApplyConfig(map).
//
// Then SetValues of unrelated keys and of keys the disagreement is about. Oracle, as the
// property says, against the FILE: the bytes read just before the call are the "old content";
// untouched keys keep the values they had there, keys absent there and not written stay
// absent, comment lines and relative order survive, written values read back; after two more
// polls everything in the file is visible.

type dvCase struct {
	Generations        []dvGen           `json:"generations_loaded"`
	Unloaded           []dvGen           `json:"external_edits_not_loaded"`
	MemOverride        map[string]string `json:"ApplyConfig_in_memory,omitempty"`
	ReloadedJustBefore bool              `json:"poll_just_before_SetValues"`
	Prefix             string            `json:"prefix,omitempty"`
	Suffix             string            `json:"suffix,omitempty"`
	Exclude            []string          `json:"exclude_keys,omitempty"`
	Input              map[string]string `json:"set_values"`
	Before             string            `json:"file_just_before_SetValues"`
	After              string            `json:"file_after"`
	Disagree           map[string]string `json:"keys_on_which_file_and_loaded_state_disagree"`
}

type dvGen struct {
	Op      string `json:"op"`
	MtimeMs int64  `json:"mtime_unix_ms"`
	Content string `json:"content"`
}

func divergentCase(c *vlib.Ctx, i int, r *vlib.Rand) {
	dir := tmpHome("wbd")
	defer os.RemoveAll(dir)
	path := filepath.Join(dir, confName)
	pfx := fmt.Sprintf("d%d_", i)
	nkeys := 0

	prefix, suffix := "", ""
	if r.Chance(1, 5) {
		prefix = []string{"whatap.", "agent_"}[r.Intn(2)]
	}
	if r.Chance(1, 8) {
		suffix = []string{".v2", "_x"}[r.Intn(2)]
	}
	mk := func() string {
		nkeys++
		return fmt.Sprintf("%s%s%d_%s%s", prefix, pfx, nkeys, word(r), suffix)
	}
	nvals := 0
	val := func() string {
		// never the same value twice in a case: a reverted value is always distinguishable
		nvals++
		if r.Chance(1, 3) {
			return fmt.Sprintf("%d%d", r.Range(1, 99999), nvals)
		}
		return plainFileValue(r) + fmt.Sprintf("~%d", nvals)
	}
	clock := time.Unix(1_610_000_000+int64(i%100000)*100, int64(r.Range(0, 999))*1e6)
	tick := func() time.Time {
		if r.Chance(1, 2) {
			clock = clock.Add(time.Duration(r.Range(20, 400)) * time.Millisecond)
		} else {
			clock = clock.Add(time.Duration(r.Range(1000, 4000)) * time.Millisecond)
		}
		return clock
	}

	fm := &fileModel{}
	addKV := func(f *fileModel, at int) string {
		k := mk()
		v := val()
		it := item{Kind: itKV, Key: k, Val: v, Text: k + "=" + v}
		if at < 0 || at >= len(f.Items) {
			f.Items = append(f.Items, it)
		} else {
			f.Items = append(f.Items[:at], append([]item{it}, f.Items[at:]...)...)
		}
		return k
	}
	for n := r.Range(3, 12); n > 0; n-- {
		switch r.Intn(6) {
		case 0:
			fm.Items = append(fm.Items, item{Kind: itComment, Text: "# " + plainText(r, 0, 30)})
		case 1:
			fm.Items = append(fm.Items, item{Kind: itBlank})
		default:
			addKV(fm, -1)
		}
	}
	for len(fm.keys()) < 2 {
		addKV(fm, -1)
	}
	everInFile := map[string]bool{}
	note := func() {
		for _, k := range fm.keys() {
			everInFile[k] = true
		}
	}
	note()

	// one external edit of the model
	edit := func() string {
		kk := fm.keys()
		switch x := r.Intn(10); {
		case x < 3:
			idx := fm.find(kk[r.Intn(len(kk))])
			v := val()
			fm.Items[idx].Val, fm.Items[idx].Text = v, fm.Items[idx].Key+"="+v
			return "change"
		case x < 5:
			at := -1
			if r.Chance(1, 2) {
				at = r.Intn(len(fm.Items) + 1)
			}
			addKV(fm, at)
			return "add"
		case x < 8 && len(kk) > 1:
			idx := fm.find(kk[r.Intn(len(kk))])
			fm.Items = append(fm.Items[:idx], fm.Items[idx+1:]...)
			return "delete"
		case x < 9:
			// comment added or removed
			if r.Chance(1, 2) {
				fm.Items = append(fm.Items, item{})
				at := r.Intn(len(fm.Items))
				copy(fm.Items[at+1:], fm.Items[at:])
				fm.Items[at] = item{Kind: itComment, Text: "# " + plainText(r, 0, 30)}
				return "comment-added"
			}
			for idx, it := range fm.Items {
				if it.Kind == itComment {
					fm.Items = append(fm.Items[:idx], fm.Items[idx+1:]...)
					return "comment-removed"
				}
			}
			addKV(fm, -1)
			return "add"
		default:
			old := fm.clone()
			nf := &fileModel{}
			r.Shuffle(len(old.Items), func(a, b int) { old.Items[a], old.Items[b] = old.Items[b], old.Items[a] })
			for _, it := range old.Items {
				switch {
				case r.Chance(1, 3):
				case it.Kind == itKV && r.Chance(1, 3):
					v := val()
					it.Val, it.Text = v, it.Key+"="+v
					nf.Items = append(nf.Items, it)
				default:
					nf.Items = append(nf.Items, it)
				}
			}
			fm = nf
			for n := r.Range(1, 3); n > 0; n-- {
				addKV(fm, r.Intn(len(fm.Items)+1))
			}
			return "rewrite"
		}
	}
	method := func() string {
		if r.Chance(1, 3) {
			return emReplace
		}
		return emInPlace
	}

	opts := []conffile.FileConfigOption{}
	if prefix != "" {
		opts = append(opts, conffile.WithPrefix(prefix))
	}
	if suffix != "" {
		opts = append(opts, conffile.WithSuffix(suffix))
	}
	det := dvCase{Prefix: prefix, Suffix: suffix}

	// ---- generations that ARE loaded ----
	t := tick()
	writeFileAt(path, fm.text(), t)
	det.Generations = append(det.Generations, dvGen{"initial", t.UnixMilli(), clipStr(fm.text(), 1500)})
	// the exclusion list is drawn now (the option is fixed at construction)
	var exclude []string
	excludeNew := ""
	if r.Chance(1, 6) {
		if r.Chance(1, 2) {
			exclude = append(exclude, fm.keys()[r.Intn(len(fm.keys()))])
		} else {
			excludeNew = mk()
			exclude = append(exclude, excludeNew)
		}
		opts = append(opts, conffile.WithExcludeKeys(exclude))
		det.Exclude = exclude
	}
	conf := newConf(dir, opts...)
	defer conf.VerifStop()
	_, loadedFile := refParse(fm.text()) // the file as of the last poll (label of a finding only)
	fileMissingPolled := false
	for g := r.Intn(3); g > 0; g-- {
		if r.Chance(1, 8) {
			// the file is gone at one poll: golib starts again from its built-in defaults
			os.Remove(path)
			conf.VerifReloadNow()
			fileMissingPolled = true
			loadedFile = map[string]string{}
			everInFile = map[string]bool{}
			c.Count("divergent_generations_file_missing_at_a_poll", 1)
			op := edit()
			t = tick()
			placeFile(path, fm.text(), t, emInPlace)
			note()
			det.Generations = append(det.Generations, dvGen{"file-removed,poll,recreated:" + op, t.UnixMilli(), clipStr(fm.text(), 1500)})
			if r.Chance(1, 2) {
				conf.VerifReloadNow()
				_, loadedFile = refParse(fm.text())
			}
			continue
		}
		ops := []string{}
		for n := r.Range(1, 3); n > 0; n-- {
			ops = append(ops, edit())
		}
		t = tick()
		placeFile(path, fm.text(), t, method())
		note()
		conf.VerifReloadNow()
		_, loadedFile = refParse(fm.text())
		det.Generations = append(det.Generations, dvGen{strings.Join(ops, "+"), t.UnixMilli(), clipStr(fm.text(), 1500)})
	}

	// ---- external edits that are NOT loaded ----
	control := r.Chance(1, 8) // no disagreement from edits at all (then only earlier deletions)
	nUnloaded := r.Range(1, 3)
	if control {
		nUnloaded = 0
	}
	for n := 0; n < nUnloaded; n++ {
		op := edit()
		t = tick()
		placeFile(path, fm.text(), t, method())
		note()
		det.Unloaded = append(det.Unloaded, dvGen{op, t.UnixMilli(), clipStr(fm.text(), 1500)})
		c.SetAdd("divergent_unloaded_edit_ops", op)
	}
	// in-memory overrides
	memOverride := map[string]string{}
	if r.Chance(1, 6) {
		kk := fm.keys()
		k := kk[r.Intn(len(kk))]
		if r.Chance(1, 3) {
			k = mk() // a key that only exists in memory
		}
		memOverride[k] = "mem-" + word(r)
		mm := map[string]string{k: memOverride[k]}
		conf.ApplyConfig(mm)
		det.MemOverride = memOverride
		c.Count("divergent_cases_with_in_memory_override", 1)
	}
	reloadedJustBefore := nUnloaded > 0 && r.Chance(1, 8)
	if reloadedJustBefore {
		conf.VerifReloadNow()
		_, loadedFile = refParse(fm.text())
		det.ReloadedJustBefore = true
	}

	// ---- the old content is what the file holds NOW ----
	bb, err := os.ReadFile(path)
	if err != nil {
		panic(err)
	}
	before := string(bb)
	_, oldMap := refParse(before)
	fileKeys := fm.keys()
	// how file and loaded state disagree, per key
	disagree := map[string]string{}
	for k, v := range oldMap {
		lv, ok := loadedFile[k]
		switch {
		case !ok:
			disagree[k] = "added-externally-not-loaded"
		case lv != v:
			disagree[k] = "changed-externally-not-loaded"
		}
	}
	for k := range everInFile {
		if _, ok := oldMap[k]; ok {
			continue
		}
		if _, ok := loadedFile[k]; ok {
			disagree[k] = "deleted-externally-not-loaded"
		} else {
			disagree[k] = "deleted-in-an-earlier-generation"
		}
	}
	for k := range memOverride {
		disagree[k] = "in-memory-override"
	}
	if fileMissingPolled {
		disagree["(golib defaults)"] = "loaded-after-file-missing"
	}
	det.Disagree = disagree
	for _, how := range disagree {
		c.SetAdd("divergent_kinds", how)
	}
	if len(disagree) > 0 {
		c.Count("writebacks_with_file_and_loaded_state_disagreeing", 1)
	}

	// ---- the SetValues call ----
	input := map[string]string{}
	strip := func(k string) string {
		if r.Chance(1, 2) {
			k = strings.TrimPrefix(k, prefix)
		}
		if r.Chance(1, 2) {
			k = strings.TrimSuffix(k, suffix)
		}
		return k
	}
	wval := func() string {
		if r.Chance(1, 10) {
			return "" // writing an empty value removes the key
		}
		return val()
	}
	isExcluded := func(k string) bool {
		for _, e := range exclude {
			if e == k {
				return true
			}
		}
		return false
	}
	var agreeKeys, disagreeInFile, disagreeGone []string
	for _, k := range fileKeys {
		if isExcluded(k) {
			continue
		}
		if _, d := disagree[k]; d {
			disagreeInFile = append(disagreeInFile, k)
		} else {
			agreeKeys = append(agreeKeys, k)
		}
	}
	for k := range disagree {
		if _, in := oldMap[k]; !in && everInFile[k] {
			disagreeGone = append(disagreeGone, k)
		}
	}
	sort.Strings(disagreeGone)
	chosen := map[string]bool{}
	pickSome := func(from []string, n int) {
		for ; n > 0 && len(from) > 0; n-- {
			k := from[r.Intn(len(from))]
			if chosen[k] {
				continue
			}
			chosen[k] = true
			input[strip(k)] = wval()
		}
	}
	unrelatedOnly := r.Chance(1, 2)
	pickSome(agreeKeys, r.Range(0, 2))
	for n := r.Range(0, 2); n > 0; n-- {
		input[strip(mk())] = val()
	}
	if !unrelatedOnly {
		pickSome(disagreeInFile, r.Range(0, 2))
		pickSome(disagreeGone, r.Range(0, 1))
		c.Count("divergent_cases_writing_related_keys", 1)
	} else {
		c.Count("divergent_cases_writing_unrelated_keys_only", 1)
	}
	if len(input) == 0 {
		input[strip(mk())] = val()
	}
	for _, e := range exclude {
		// the excluded key is passed anyway
		if _, dup := input[e]; !dup && r.Chance(2, 3) {
			input[e] = "excluded-" + word(r)
		}
	}
	effective := map[string]string{}
	for k, v := range input {
		if isExcluded(k) {
			continue
		}
		ek := k
		if prefix != "" && !strings.HasPrefix(ek, prefix) {
			ek = prefix + ek
		}
		if suffix != "" && !strings.HasSuffix(ek, suffix) {
			ek = ek + suffix
		}
		effective[ek] = v
	}
	det.Input = clipMap(input)
	det.Before = clipStr(before, 3000)

	in2 := map[string]string{}
	for k, v := range input {
		in2[k] = v
	}
	if p := vlib.Catch(func() { conf.SetValues(&in2) }); p != nil {
		c.Fail("FileConfig.SetValues:panic/file-and-loaded-state-disagree", fmt.Sprintf("SetValues panicked: %v", p), det)
		return
	}
	nb, err := os.ReadFile(path)
	if err != nil {
		c.Fail("FileConfig.SetValues:file-missing-after-write", err.Error(), det)
		return
	}
	after := string(nb)
	_, newMap := refParse(after)
	det.After = clipStr(after, 3000)
	generic := "/file-and-loaded-state-disagree"
	if len(disagree) == 0 {
		generic = ""
	}

	// (1) other keys keep the values the FILE had
	okeys := make([]string, 0, len(oldMap))
	for k := range oldMap {
		okeys = append(okeys, k)
	}
	sort.Strings(okeys)
	for _, k := range okeys {
		if _, written := effective[k]; written {
			continue
		}
		c.Count("divergent_untouched_key_checks", 1)
		if d := disagree[k]; d != "" {
			c.Count("divergent_untouched_key_checks_on_disagreeing_keys", 1)
		}
		nv, ok := newMap[k]
		if ok && nv == oldMap[k] {
			continue
		}
		key := "FileConfig.SetValues:other-key-changed" + generic
		switch disagree[k] {
		case "added-externally-not-loaded", "changed-externally-not-loaded":
			key = "FileConfig.SetValues:other-key-changed/unloaded-external-edit"
		case "in-memory-override":
			key = "FileConfig.SetValues:other-key-changed/in-memory-override"
		}
		if isExcluded(k) && ok && nv == input[k] {
			key = "FileConfig.SetValues:excluded-key-written"
		}
		stale := ""
		if lv, was := loadedFile[k]; was && ok && nv == lv {
			stale = " — that is the value of the version loaded at the last poll"
		}
		c.Fail(key, fmt.Sprintf("key %q was not written; just before SetValues the file held %s, afterwards %s (present=%v)%s", k, quoteClip(oldMap[k], 60), quoteClip(nv, 60), ok, stale), det)
		break
	}
	// (2) keys absent from the file and not written stay absent
	nkeysSorted := make([]string, 0, len(newMap))
	for k := range newMap {
		nkeysSorted = append(nkeysSorted, k)
	}
	sort.Strings(nkeysSorted)
	for _, k := range disagreeGone {
		if _, written := effective[k]; !written {
			c.Count("divergent_deleted_key_stays_deleted_checks", 1)
		}
	}
	for _, k := range nkeysSorted {
		_, was := oldMap[k]
		_, written := effective[k]
		if was || written {
			continue
		}
		key := "FileConfig.SetValues:spurious-key-appeared" + generic
		what := fmt.Sprintf("key %s is in the file after SetValues; it was neither there just before nor written", quoteClip(k, 60))
		switch {
		case isExcluded(k) && newMap[k] == input[k]:
			key = "FileConfig.SetValues:excluded-key-written"
		case everInFile[k]:
			key = "FileConfig.SetValues:other-key-changed/deleted-key-restored"
			what = fmt.Sprintf("key %s (%s) is back in the file after SetValues of other keys, with value %s", quoteClip(k, 60), disagree[k], quoteClip(newMap[k], 60))
		case memOverride[k] != "":
			key = "FileConfig.SetValues:spurious-key-appeared/in-memory-only-key"
		}
		c.Fail(key, what, det)
		break
	}
	// (3) comment lines and relative order
	c.Count("divergent_order_checks", 1)
	if a, b := orderSkeleton(before, newMap, nil), orderSkeleton(after, nil, oldMap); !equalStrs(a, b) {
		c.Fail("FileConfig.SetValues:comment-or-order-lost"+generic, fmt.Sprintf("comment lines / order of surviving keys just before: %q after: %q", clipStrs(a), clipStrs(b)), det)
	}
	// (4) written values read back
	ekeys := make([]string, 0, len(effective))
	for k := range effective {
		ekeys = append(ekeys, k)
	}
	sort.Strings(ekeys)
	for _, k := range ekeys {
		v := effective[k]
		c.Count("divergent_roundtrip_checks", 1)
		if disagree[k] != "" {
			c.Count("divergent_roundtrip_checks_on_disagreeing_keys", 1)
		}
		nv, ok := newMap[k]
		good := ok && nv == v
		if v == "" {
			good = !ok || nv == ""
		}
		if !good {
			c.Fail("FileConfig.SetValues:value-not-roundtripped"+generic, fmt.Sprintf("wrote %s=%s (%s), a fresh parse of the file gives %s (present=%v)", k, quoteClip(v, 60), disagree[k], quoteClip(nv, 60), ok), det)
			break
		}
	}
	// (5) the file has stopped changing: after two polls everything in it is visible
	conf.VerifReloadNow()
	conf.VerifReloadNow()
	for _, k := range nkeysSorted {
		exp := refTrim(newMap[k])
		if exp == "" {
			continue
		}
		c.Count("divergent_visibility_checks_after_write_back", 1)
		if got := conf.GetValue(k); got != exp {
			c.Fail("FileConfig:value-not-visible/after-write-back", fmt.Sprintf("after SetValues and two reloads GetValue(%q) = %s, the file holds %s (%s)", k, quoteClip(got, 60), quoteClip(exp, 60), disagree[k]), det)
			break
		}
	}
	c.Count("divergent_writebacks", 1)
	c.DistinctStr(fmt.Sprintf("wbd|%v|%v|%s|%v|%v", det.Generations, det.Unloaded, before, input, memOverride))
	if c.WantSample() && i%13 == 4 {
		c.Sample(map[string]interface{}{"section": "write-back-divergent", "case": det})
	}
}
