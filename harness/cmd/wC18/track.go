package main

import (
	"fmt"
	"os"
	"path/filepath"
	"time"

	"github.com/whatap/golib/config"
	"github.com/whatap/golib/config/conffile"

	"verif/vlib"
)

// Timeline shapes of an edit history.
const (
	tlOneSecond      = "all-edits-within-one-second"
	tlMixed          = "mixed-gaps"
	tlDistinctSecond = "every-edit-in-a-later-second"
)

type editRec struct {
	Op       string `json:"op"`
	MtimeMs  int64  `json:"mtime_unix_ms"`
	Reloaded bool   `json:"reload_after"`
	Content  string `json:"content"`
}

// trackCase: one random edit history followed by silence.
func trackCase(c *vlib.Ctx, i int, r *vlib.Rand) {
	dir := tmpHome("track")
	defer os.RemoveAll(dir)
	path := filepath.Join(dir, confName)
	pfx := fmt.Sprintf("t%d_", i)
	nkeys := 0

	tl := []string{tlOneSecond, tlOneSecond, tlOneSecond, tlMixed, tlMixed, tlDistinctSecond, tlDistinctSecond, tlDistinctSecond}[r.Intn(8)]
	c.SetAdd("timeline_shapes", tl)
	nEdits := r.Range(2, 7)
	// pinned modification times
	base := time.Unix(1_600_000_000+int64(i%100000)*100, 0)
	times := make([]time.Time, nEdits+1)
	switch tl {
	case tlOneSecond:
		off := r.Range(0, 300)
		room := (990 - off) / nEdits
		if room < 20 {
			room = 20
		}
		times[0] = base.Add(time.Duration(off) * time.Millisecond)
		for k := 1; k <= nEdits; k++ {
			gap := r.Range(20, room)
			times[k] = times[k-1].Add(time.Duration(gap) * time.Millisecond)
		}
		if times[nEdits].Unix() != times[0].Unix() {
			tl = tlMixed
		}
	case tlMixed:
		times[0] = base.Add(time.Duration(r.Range(0, 999)) * time.Millisecond)
		for k := 1; k <= nEdits; k++ {
			gap := r.Range(20, 300)
			if r.Chance(1, 3) {
				gap = r.Range(300, 1500)
			}
			times[k] = times[k-1].Add(time.Duration(gap) * time.Millisecond)
		}
	default:
		times[0] = base.Add(time.Duration(r.Range(0, 999)) * time.Millisecond)
		for k := 1; k <= nEdits; k++ {
			times[k] = times[k-1].Add(time.Duration(r.Range(1000, 3500)) * time.Millisecond)
		}
	}
	clean := tl == tlDistinctSecond // no same-second hazard anywhere: deletions, empties, file removal allowed

	// initial file
	fm := &fileModel{}
	fancy := r.Chance(2, 3)
	addKV := func(f *fileModel, at int) string {
		k := newKey(r, pfx, &nkeys, fancy)
		v := genValue(r)
		c.SetAdd("value_classes", v.Class)
		it := item{Kind: itKV, Key: k, Val: v.Val, Text: renderKV(r, k, v.Val, fancy)}
		if at < 0 || at >= len(f.Items) {
			f.Items = append(f.Items, it)
		} else {
			f.Items = append(f.Items[:at], append([]item{it}, f.Items[at:]...)...)
		}
		return k
	}
	for n := r.Range(1, 10); n > 0; n-- {
		switch r.Intn(6) {
		case 0:
			fm.Items = append(fm.Items, item{Kind: itComment, Text: commentLine(r)})
		case 1:
			fm.Items = append(fm.Items, item{Kind: itBlank, Text: ""})
		default:
			addKV(fm, -1)
		}
	}
	if len(fm.keys()) == 0 {
		addKV(fm, -1)
	}

	// observers (own ConfigObserver instance, registered before any edit)
	co := config.NewConfigObserver()
	nObs := r.Range(1, 3)
	observers := make([]*recObserver, nObs)
	for k := range observers {
		observers[k] = &recObserver{}
		co.Add(fmt.Sprintf("obs-%d", k), observers[k])
	}
	setObsKeys := func(keys []string) {
		for _, o := range observers {
			o.setKeys(keys)
		}
	}

	var hist []editRec
	initialMissing := clean && r.Chance(1, 6)
	var conf *conffile.FileConfig
	content := fm.text()
	setObsKeys(fm.keys())
	if initialMissing {
		conf = newConf(dir, conffile.WithConfigObserver(co))
		writeFileAt(path, content, times[0])
		conf.VerifReloadNow()
		hist = append(hist, editRec{"create-after-start", times[0].UnixMilli(), true, clipStr(content, 2000)})
		c.Count("histories_file_created_after_start", 1)
	} else {
		writeFileAt(path, content, times[0])
		conf = newConf(dir, conffile.WithConfigObserver(co))
		hist = append(hist, editRec{"initial", times[0].UnixMilli(), true, clipStr(content, 2000)})
	}
	defer conf.VerifStop()

	// state at the previous reload point
	lastReloadContent := content
	lastReloadTime := times[0]
	// the first reload point inside the current whole second of modification time: a reader
	// that compares modification times in whole seconds can notice a change only there
	secOfFirst, contentOfFirst := times[0].Unix(), content
	loadedEver := map[string]string{} // key → last NON-EMPTY value that some reload point held
	_, m0 := refParse(content)
	for k, v := range m0 {
		if refTrim(v) != "" {
			loadedEver[k] = v
		}
	}
	callsBefore := make([]int, nObs)
	for k, o := range observers {
		callsBefore[k], _ = o.snapshot()
	}
	mapReset := false // the file was missing at a reload point: golib starts again from its defaults

	detail := func() map[string]interface{} {
		return map[string]interface{}{"timeline": tl, "history": hist, "observers": nObs}
	}

	for e := 1; e <= nEdits; e++ {
		// ---- one external edit ----
		op := ""
		kk := fm.keys()
		switch x := r.Intn(12); {
		case x < 3 || len(kk) == 0:
			op = "append"
			at := -1
			if r.Chance(1, 3) {
				at = r.Intn(len(fm.Items) + 1)
			}
			addKV(fm, at)
		case x < 7:
			op = "change"
			idx := fm.find(kk[r.Intn(len(kk))])
			v := genValue(r)
			c.SetAdd("value_classes", v.Class)
			fm.Items[idx].Val = v.Val
			fm.Items[idx].Text = renderKV(r, fm.Items[idx].Key, v.Val, fancy)
		case x < 9:
			op = "delete"
			idx := fm.find(kk[r.Intn(len(kk))])
			fm.Items = append(fm.Items[:idx], fm.Items[idx+1:]...)
		case x < 10 && clean:
			op = "set-empty"
			idx := fm.find(kk[r.Intn(len(kk))])
			fm.Items[idx].Val = ""
			fm.Items[idx].Text = refEncodeKey(fm.Items[idx].Key) + []string{"=", " = ", "=  "}[r.Intn(3)]
		case x < 11 && clean && e < nEdits:
			op = "remove-file-then-recreate"
		default:
			op = "rewrite"
			nf := &fileModel{}
			old := fm.clone()
			r.Shuffle(len(old.Items), func(a, b int) { old.Items[a], old.Items[b] = old.Items[b], old.Items[a] })
			for _, it := range old.Items {
				if r.Chance(1, 2) {
					nf.Items = append(nf.Items, it)
				}
			}
			fm = nf
			for n := r.Range(1, 5); n > 0; n-- {
				if r.Chance(1, 4) {
					fm.Items = append(fm.Items, item{Kind: itComment, Text: commentLine(r)})
				} else {
					addKV(fm, r.Intn(len(fm.Items)+1))
				}
			}
		}
		c.SetAdd("edit_ops", op)
		c.Count("edits", 1)
		content = fm.text()
		setObsKeys(fm.keys())
		if op == "remove-file-then-recreate" {
			os.Remove(path)
			conf.VerifReloadNow() // a poll while the file is gone
			mapReset = true
			loadedEver = map[string]string{}
			lastReloadContent = ""
			secOfFirst, contentOfFirst = -1, ""
			c.Count("reload_points_file_missing", 1)
		}
		writeFileAt(path, content, times[e])
		final := e == nEdits
		doReload := final || r.Chance(1, 2)
		hist = append(hist, editRec{op, times[e].UnixMilli(), doReload, clipStr(content, 2000)})
		if !doReload {
			continue
		}

		// ---- a poll lands here ----
		for k, o := range observers {
			callsBefore[k], _ = o.snapshot()
		}
		conf.VerifReloadNow()
		c.Count("reload_points", 1)
		changed := content != lastReloadContent
		sameSecond := lastReloadTime.Unix() == times[e].Unix() && !mapReset
		if times[e].Unix() != secOfFirst {
			secOfFirst, contentOfFirst = times[e].Unix(), content
		}
		sameSecondHazard := contentOfFirst != content // an earlier poll saw this second with other content
		if changed && sameSecond {
			c.Count("reload_points_changed_within_same_second", 1)
		}
		_, cur := refParse(content)

		// observers: after a change each registered observer is notified, and what it sees
		// is the file. Decided at the final reload point (the file has stopped changing) and,
		// in histories whose edits all lie in different seconds, at every reload point.
		for k, o := range observers {
			calls, seen := o.snapshot()
			notified := calls > callsBefore[k]
			if notified {
				c.Count("observer_notifications", 1)
				for key, v := range cur {
					if refTrim(v) == "" {
						continue
					}
					if got, ok := seen[key]; !ok || got != refTrim(v) {
						d := detail()
						d["key"], d["expected"], d["observer_saw"] = key, clipStr(refTrim(v), 300), clipStr(got, 300)
						c.Fail("FileConfig:observer-saw-stale-value", fmt.Sprintf("observer %d was notified after edit %d but GetValue(%q) inside the callback gave %s, the file holds %s", k, e, key, quoteClip(got, 60), quoteClip(refTrim(v), 60)), d)
						break
					}
				}
				c.Count("observer_values_checked", int64(len(cur)))
			}
			if changed && !notified && (final || clean) {
				key := "FileConfig:observer-not-notified"
				if sameSecond {
					key += "/same-second-edit"
				}
				d := detail()
				d["observer"], d["edit"] = k, e
				c.Fail(key, fmt.Sprintf("the file changed (edit %d, mtime %s, previous poll saw mtime %s) and a reload ran, but observer %d was not called", e, times[e].UTC().Format("15:04:05.000"), lastReloadTime.UTC().Format("15:04:05.000"), k), d)
			}
			if changed {
				c.Count("observer_expectations", 1)
			}
		}

		if final {
			// a second poll during the silence must not change anything
			conf.VerifReloadNow()
			nchecks := 0
			visibleOK := map[string]bool{}
			for key, v := range cur {
				exp := refTrim(v)
				got := conf.GetValue(key)
				c.Count("visibility_checks", 1)
				if got == exp {
					visibleOK[key] = true
					continue
				}
				cause := "unexplained"
				switch {
				case sameSecondHazard:
					cause = "same-second-edit"
				case exp == "" && loadedEver[key] != "" && got == refTrim(loadedEver[key]):
					cause = "empty-value-keeps-previous"
				}
				d := detail()
				d["key"], d["expected"], d["got"] = key, clipStr(exp, 300), clipStr(got, 300)
				c.Fail("FileConfig:value-not-visible/"+cause, fmt.Sprintf("after the last edit (mtime %s; previous poll saw %s) and two reloads GetValue(%q) = %s but the file holds %s", times[e].UTC().Format("15:04:05.000"), lastReloadTime.UTC().Format("15:04:05.000"), key, quoteClip(got, 60), quoteClip(exp, 60)), d)
			}
			// typed getters on what is visible
			for _, key := range fm.keys() {
				if visibleOK[key] {
					nchecks += checkGetters(c, conf, key, cur[key], true, r, map[string]interface{}{"timeline": tl, "file": clipStr(content, 1500)})
				}
			}
			// keys that were never in any file
			for n := 0; n < 2; n++ {
				k := fmt.Sprintf("%snever_%d", pfx, n)
				nchecks += checkGetters(c, conf, k, "", false, r, map[string]interface{}{"timeline": tl})
			}
			// keys that were loaded earlier and have been deleted from the file since
			if clean {
				for key, old := range loadedEver {
					if _, still := cur[key]; still {
						continue
					}
					c.Count("deleted_key_checks", 1)
					if got := conf.GetValue(key); got != "" {
						d := detail()
						d["key"], d["got"], d["earlier_value"] = key, clipStr(got, 300), clipStr(old, 300)
						c.Fail("FileConfig:value-not-visible/deleted-key-keeps-previous", fmt.Sprintf("key %q was deleted from the file, two reloads later GetValue still returns %s (absent keys must fall back to the default)", key, quoteClip(got, 60)), d)
					}
				}
			}
			c.Count("getter_comparisons", int64(nchecks))
		}

		lastReloadContent = content
		lastReloadTime = times[e]
		mapReset = false
		for k, v := range cur {
			if refTrim(v) != "" {
				loadedEver[k] = v
			}
		}
	}
	c.Count("histories", 1)
	c.DistinctStr(fmt.Sprintf("%s|%v", tl, hist))
	if c.WantSample() && i%7 == 3 {
		c.Sample(map[string]interface{}{"section": "tracking", "timeline": tl, "observers": nObs, "history": hist})
	}
}

// realPollCase uses the production path untouched: the 3 s polling goroutine finds the
// edit by itself and notifies the observer. Waiting is bounded by a watchdog whose firing is
// inconclusive, never a verdict.
func realPollCase(c *vlib.Ctx, i int, r *vlib.Rand) {
	dir := tmpHome("poll")
	defer os.RemoveAll(dir)
	path := filepath.Join(dir, confName)
	key := fmt.Sprintf("poll%d_key", i)
	t0 := time.Unix(1_500_000_000, 0)
	writeFileAt(path, key+"=first\n", t0)
	co := config.NewConfigObserver()
	o := &recObserver{ch: make(chan struct{}, 4)}
	o.setKeys([]string{key})
	co.Add("poll-observer", o)
	conf := conffile.VerifNew(conffile.WithHomePath(dir), conffile.WithConfigObserver(co))
	defer conf.VerifStop()
	if got := conf.GetValue(key); got != "first" {
		c.Fail("FileConfig:value-not-visible/initial-load", fmt.Sprintf("after construction GetValue = %q, file holds \"first\"", got), map[string]interface{}{"file": key + "=first\n"})
		return
	}
	// drain a possible notification of the initial load
	select {
	case <-o.ch:
	default:
	}
	writeFileAt(path, key+"=second\n", t0.Add(5*time.Second))
	select {
	case <-o.ch:
		_, seen := o.snapshot()
		c.Count("real_poll_notifications", 1)
		if seen[key] != "second" {
			c.Fail("FileConfig:observer-saw-stale-value", fmt.Sprintf("polling goroutine notified the observer but it saw %q, file holds \"second\"", seen[key]), map[string]interface{}{"path": "real 3 s poll"})
		}
	case <-time.After(30 * time.Second):
		c.Inconclusive(fmt.Sprintf("real-poll#%d", i), "no notification from the polling goroutine within the 30 s watchdog")
	}
}

// mtimeProbe is evidence for the pinned-mtime construction, not a verdict: three real writes
// 20 ms apart — does the work file system record distinct sub-second modification times?
func mtimeProbe(c *vlib.Ctx, i int, r *vlib.Rand) {
	dir := tmpHome("mtime")
	defer os.RemoveAll(dir)
	path := filepath.Join(dir, confName)
	var prev time.Time
	for k := 0; k < 3; k++ {
		os.WriteFile(path, []byte(fmt.Sprintf("k=%d\n", k)), 0o644)
		st, err := os.Stat(path)
		if err != nil {
			return
		}
		if k > 0 {
			c.Count("real_mtime_pairs", 1)
			if !st.ModTime().Equal(prev) {
				c.Count("real_mtime_pairs_distinct_in_ns", 1)
			}
			if st.ModTime().Unix() == prev.Unix() {
				c.Count("real_mtime_pairs_same_whole_second", 1)
			}
		}
		prev = st.ModTime()
		time.Sleep(20 * time.Millisecond)
	}
}
