package main

import (
	"fmt"
	"os"
	"path/filepath"
	"strings"
	"time"

	"github.com/whatap/golib/config"
	"github.com/whatap/golib/config/conffile"

	"verif/vlib"
)

// Timeline shapes of an edit history.
const (
	tlOneSecond      = "all-edits-within-one-second"
	tlMixed          = "mixed-gaps"
	tlDistinctSecond = "every-edit-in-a-later-second"
	// timelines on which the modification time does not grow with every edit: the file is
	// replaced by one that carries an OLDER time than the version the poll last saw (cp -p,
	// rsync -t, mv of a prepared file, restore from backup, clock stepped back), a time far in
	// the future followed by ordinary ones, or exactly the SAME time with other content
	tlOlder  = "edits-carry-an-older-mtime"
	tlFuture = "far-future-mtime-then-normal"
	tlEqual  = "an-edit-keeps-the-mtime"
)

// how an edit reaches the file
const (
	emInPlace = "rewrite-in-place"
	emReplace = "rename-prepared-file-over"
)

type editRec struct {
	Op       string `json:"op"`
	MtimeMs  int64  `json:"mtime_unix_ms"`
	Reloaded bool   `json:"reload_after"`
	Content  string `json:"content"`
	Method   string `json:"method,omitempty"`
	MtimeRel string `json:"mtime_vs_previous_poll,omitempty"`
}

// trackCase: one random edit history followed by silence.
func trackCase(c *vlib.Ctx, i int, r *vlib.Rand) {
	dir := tmpHome("track")
	defer os.RemoveAll(dir)
	path := filepath.Join(dir, confName)
	pfx := fmt.Sprintf("t%d_", i)
	nkeys := 0

	tl := []string{tlOneSecond, tlOneSecond, tlOneSecond, tlMixed, tlMixed, tlDistinctSecond, tlDistinctSecond, tlDistinctSecond,
		tlOlder, tlOlder, tlOlder, tlFuture, tlEqual, tlEqual}[r.Intn(14)]
	c.SetAdd("timeline_shapes", tl)
	nEdits := r.Range(2, 7)
	// pinned modification times
	base := time.Unix(1_600_000_000+int64(i%100000)*100, 0)
	times := make([]time.Time, nEdits+1)
	switch tl {
	case tlOneSecond:
		off := r.Range(0, 300)
		room := (990 - off) / nEdits
		if room < 20 {
			room = 20
		}
		times[0] = base.Add(time.Duration(off) * time.Millisecond)
		for k := 1; k <= nEdits; k++ {
			gap := r.Range(20, room)
			times[k] = times[k-1].Add(time.Duration(gap) * time.Millisecond)
		}
		if times[nEdits].Unix() != times[0].Unix() {
			tl = tlMixed
		}
	case tlMixed:
		times[0] = base.Add(time.Duration(r.Range(0, 999)) * time.Millisecond)
		for k := 1; k <= nEdits; k++ {
			gap := r.Range(20, 300)
			if r.Chance(1, 3) {
				gap = r.Range(300, 1500)
			}
			times[k] = times[k-1].Add(time.Duration(gap) * time.Millisecond)
		}
	default:
		// also the skeleton of the non-monotone timelines: their deviating times are drawn
		// when the edit is made (they refer to the time the previous poll saw)
		times[0] = base.Add(time.Duration(r.Range(0, 999)) * time.Millisecond)
		for k := 1; k <= nEdits; k++ {
			times[k] = times[k-1].Add(time.Duration(r.Range(1000, 3500)) * time.Millisecond)
		}
	}
	// tlOlder: by how much the older times lie back (0: milliseconds, possibly inside the same
	// second; 1: seconds; 2: hours; 3: years, or the epoch itself)
	olderUnit := -1
	// tlFuture: the edit that carries a time 40 years ahead (a poll always follows it)
	futureEdit := -1
	switch tl {
	case tlOlder:
		olderUnit = r.Intn(4)
	case tlFuture:
		futureEdit = r.Range(1, nEdits-1)
	}
	// no same-second hazard anywhere: deletions, empties, file removal allowed
	clean := tl == tlDistinctSecond || tl == tlFuture || (tl == tlOlder && olderUnit > 0)

	// initial file
	fm := &fileModel{}
	fancy := r.Chance(2, 3)
	addKV := func(f *fileModel, at int) string {
		k := newKey(r, pfx, &nkeys, fancy)
		v := genValue(r)
		c.SetAdd("value_classes", v.Class)
		it := item{Kind: itKV, Key: k, Val: v.Val, Text: renderKV(r, k, v.Val, fancy)}
		if at < 0 || at >= len(f.Items) {
			f.Items = append(f.Items, it)
		} else {
			f.Items = append(f.Items[:at], append([]item{it}, f.Items[at:]...)...)
		}
		return k
	}
	for n := r.Range(1, 10); n > 0; n-- {
		switch r.Intn(6) {
		case 0:
			fm.Items = append(fm.Items, item{Kind: itComment, Text: commentLine(r)})
		case 1:
			fm.Items = append(fm.Items, item{Kind: itBlank, Text: ""})
		default:
			addKV(fm, -1)
		}
	}
	if len(fm.keys()) == 0 {
		addKV(fm, -1)
	}
	// tlEqual: a key with a one-digit value, so that an edit can change the content without
	// changing the size of the file
	eqKey := ""
	if tl == tlEqual {
		eqKey = fmt.Sprintf("%seq.digit", pfx)
		fm.Items = append(fm.Items, item{Kind: itKV, Key: eqKey, Val: "5", Text: eqKey + "=5"})
	}

	// observers (own ConfigObserver instance, registered before any edit)
	co := config.NewConfigObserver()
	nObs := r.Range(1, 3)
	observers := make([]*recObserver, nObs)
	for k := range observers {
		observers[k] = &recObserver{}
		co.Add(fmt.Sprintf("obs-%d", k), observers[k])
	}
	setObsKeys := func(keys []string) {
		for _, o := range observers {
			o.setKeys(keys)
		}
	}

	var hist []editRec
	initialMissing := clean && r.Chance(1, 6)
	var conf *conffile.FileConfig
	content := fm.text()
	setObsKeys(fm.keys())
	if initialMissing {
		conf = newConf(dir, conffile.WithConfigObserver(co))
		writeFileAt(path, content, times[0])
		conf.VerifReloadNow()
		hist = append(hist, editRec{Op: "create-after-start", MtimeMs: times[0].UnixMilli(), Reloaded: true, Content: clipStr(content, 2000)})
		c.Count("histories_file_created_after_start", 1)
		// the file came into being after the object was made: that is a change like any other,
		// the registered observers must have been called by the poll that loaded it
		for k, o := range observers {
			if calls, _ := o.snapshot(); calls == 0 {
				c.Fail("FileConfig:observer-not-notified/file-created-after-start", fmt.Sprintf("the configuration object was made while the file did not exist; the file was then created and a poll loaded it, but observer %d was not called", k),
					map[string]interface{}{"timeline": tl, "history": hist, "observers": nObs})
			} else {
				c.Count("observer_notifications_after_late_creation", 1)
			}
		}
	} else {
		writeFileAt(path, content, times[0])
		conf = newConf(dir, conffile.WithConfigObserver(co))
		hist = append(hist, editRec{Op: "initial", MtimeMs: times[0].UnixMilli(), Reloaded: true, Content: clipStr(content, 2000)})
	}
	defer conf.VerifStop()

	// state at the previous reload point
	lastReloadContent := content
	lastReloadTime := times[0]
	// the first reload point inside the current whole second of modification time: a reader
	// that compares modification times in whole seconds can notice a change only there
	secOfFirst, contentOfFirst := times[0].Unix(), content
	loadedEver := map[string]string{} // key → last NON-EMPTY value that some reload point held
	_, m0 := refParse(content)
	for k, v := range m0 {
		if refTrim(v) != "" {
			loadedEver[k] = v
		}
	}
	callsBefore := make([]int, nObs)
	for k, o := range observers {
		callsBefore[k], _ = o.snapshot()
	}
	mapReset := false // the file was missing at a reload point: golib starts again from its defaults

	detail := func() map[string]interface{} {
		return map[string]interface{}{"timeline": tl, "history": hist, "observers": nObs}
	}

	for e := 1; e <= nEdits; e++ {
		// ---- one external edit ----
		final := e == nEdits
		op := ""
		kk := fm.keys()
		flip := -1
		if tl == tlEqual && final && r.Chance(1, 2) {
			flip = fm.find(eqKey)
		}
		switch x := r.Intn(12); {
		case flip >= 0:
			// same number of bytes, other content
			op = "change-one-digit"
			d := string(rune('0' + (int(fm.Items[flip].Val[0]-'0')+r.Range(1, 9))%10))
			fm.Items[flip].Val = d
			fm.Items[flip].Text = eqKey + "=" + d
		case x < 3 || len(kk) == 0:
			op = "append"
			at := -1
			if r.Chance(1, 3) {
				at = r.Intn(len(fm.Items) + 1)
			}
			addKV(fm, at)
		case x < 7:
			op = "change"
			idx := fm.find(kk[r.Intn(len(kk))])
			v := genValue(r)
			c.SetAdd("value_classes", v.Class)
			fm.Items[idx].Val = v.Val
			fm.Items[idx].Text = renderKV(r, fm.Items[idx].Key, v.Val, fancy)
		case x < 9:
			op = "delete"
			idx := fm.find(kk[r.Intn(len(kk))])
			fm.Items = append(fm.Items[:idx], fm.Items[idx+1:]...)
		case x < 10 && clean:
			op = "set-empty"
			idx := fm.find(kk[r.Intn(len(kk))])
			fm.Items[idx].Val = ""
			fm.Items[idx].Text = refEncodeKey(fm.Items[idx].Key) + []string{"=", " = ", "=  "}[r.Intn(3)]
		case x < 11 && clean && e < nEdits && lastReloadTime.UnixNano() != 0 && r.Chance(1, 2):
			// (not after a version with the epoch as modification time was loaded: golib's
			// marker for "file missing" is that very number, see the known finding
			// epoch-mtime-after-file-missing — the removal would go unnoticed and the rest of
			// the history could not be labelled)
			op = "remove-file-then-recreate"
		case x < 11 && clean && lastReloadTime.UnixNano() != 0:
			// the file is moved away, a poll finds it missing, and the SAME file (same content,
			// same modification time, same inode) is moved back: its keys must be visible again
			op = "move-away-poll-move-back"
		default:
			op = "rewrite"
			nf := &fileModel{}
			old := fm.clone()
			r.Shuffle(len(old.Items), func(a, b int) { old.Items[a], old.Items[b] = old.Items[b], old.Items[a] })
			for _, it := range old.Items {
				if r.Chance(1, 2) {
					nf.Items = append(nf.Items, it)
				}
			}
			fm = nf
			for n := r.Range(1, 5); n > 0; n-- {
				if r.Chance(1, 4) {
					fm.Items = append(fm.Items, item{Kind: itComment, Text: commentLine(r)})
				} else {
					addKV(fm, r.Intn(len(fm.Items)+1))
				}
			}
		}
		c.SetAdd("edit_ops", op)
		c.Count("edits", 1)
		content = fm.text()
		setObsKeys(fm.keys())
		movedBack := false
		var diskTime time.Time
		if op == "move-away-poll-move-back" {
			if st, err := os.Stat(path); err == nil && st.ModTime().UnixNano() != 0 && os.Rename(path, path+".aside") == nil {
				diskTime = st.ModTime()
				for n := r.Range(1, 3); n > 0; n-- {
					conf.VerifReloadNow() // one or more polls while the file is away
				}
				if err := os.Rename(path+".aside", path); err != nil {
					panic(err)
				}
				movedBack = true
				mapReset = true
				loadedEver = map[string]string{}
				lastReloadContent = ""
				secOfFirst, contentOfFirst = -1, ""
				c.Count("reload_points_file_missing", 1)
				c.Count("files_moved_away_and_back_unmodified", 1)
			} else {
				op = "none"
			}
		}
		if op == "remove-file-then-recreate" {
			os.Remove(path)
			conf.VerifReloadNow() // a poll while the file is gone
			mapReset = true
			loadedEver = map[string]string{}
			lastReloadContent = ""
			secOfFirst, contentOfFirst = -1, ""
			c.Count("reload_points_file_missing", 1)
		}
		// the modification time of this edit on the non-monotone timelines, relative to the
		// time the previous poll saw
		method := emInPlace
		if r.Chance(1, 3) {
			method = emReplace
		}
		switch {
		case tl == tlOlder:
			ref := lastReloadTime
			ms := time.Duration(r.Range(0, 999)) * time.Millisecond
			switch {
			case ref.Year() < 1990:
				times[e] = base.Add(time.Duration(e)*2*time.Second + ms) // back to ordinary times
			case !(r.Chance(2, 3) || (final && r.Chance(1, 2))):
				times[e] = ref.Add(time.Duration(r.Range(1000, 3500)) * time.Millisecond)
			case olderUnit == 0:
				times[e] = ref.Add(-time.Duration(r.Range(1, 1500)) * time.Millisecond)
			case olderUnit == 1:
				times[e] = ref.Add(-time.Duration(r.Range(1, 59))*time.Second - ms)
			case olderUnit == 2:
				times[e] = ref.Add(-time.Duration(r.Range(1, 72))*time.Hour - ms)
			case r.Chance(1, 3):
				times[e] = time.Unix(0, 0) // what archives and image layers without time stamps carry
			default:
				times[e] = ref.Add(-time.Duration(r.Range(1, 20))*365*24*time.Hour - ms)
			}
		case tl == tlFuture && e == futureEdit:
			times[e] = times[e].Add(40 * 365 * 24 * time.Hour)
		case tl == tlEqual && final:
			times[e] = lastReloadTime
			if r.Chance(1, 2) {
				method = emReplace
			} else {
				method = emInPlace
			}
		}
		if movedBack {
			times[e], method = diskTime, "same-file-moved-back"
		} else {
			placeFile(path, content, times[e], method)
		}
		c.Count("edits_"+method, 1)
		doReload := final || r.Chance(1, 2) || e == futureEdit || (tl == tlEqual && e == nEdits-1)
		// how this edit's time relates to what the previous poll saw (label of a finding only)
		rel := ""
		switch dt := times[e].Sub(lastReloadTime); {
		case mapReset:
			if times[e].UnixNano() == 0 {
				rel = "epoch-mtime-after-file-missing"
			}
		case dt == 0 && method == emReplace:
			rel = "equal-mtime-edit/replaced-file"
		case dt == 0 && len(content) == len(lastReloadContent):
			rel = "equal-mtime-edit/in-place-same-size"
		case dt == 0:
			rel = "equal-mtime-edit/in-place-other-size"
		case dt < 0:
			rel = "older-mtime-edit"
		}
		relText := ""
		if !mapReset {
			relText = times[e].Sub(lastReloadTime).String()
		}
		hist = append(hist, editRec{Op: op, MtimeMs: times[e].UnixMilli(), Reloaded: doReload, Content: clipStr(content, 2000), Method: method, MtimeRel: relText})
		if !doReload {
			continue
		}

		// ---- a poll lands here ----
		for k, o := range observers {
			callsBefore[k], _ = o.snapshot()
		}
		conf.VerifReloadNow()
		c.Count("reload_points", 1)
		changed := content != lastReloadContent
		if changed {
			switch {
			case strings.HasPrefix(rel, "equal-mtime"):
				c.Count("reload_points_changed_with_equal_mtime", 1)
			case rel == "older-mtime-edit":
				c.Count("reload_points_changed_with_older_mtime", 1)
				if final {
					c.Count("final_edits_with_older_mtime", 1)
				}
				c.SetAdd("older_mtime_magnitudes", magnitude(lastReloadTime.Sub(times[e])))
			case rel != "":
				c.Count("reload_points_"+rel, 1)
			}
			if futureEdit > 0 && e > futureEdit {
				c.Count("reload_points_changed_after_far_future_mtime", 1)
			}
		}
		sameSecond := lastReloadTime.Unix() == times[e].Unix() && !mapReset
		if times[e].Unix() != secOfFirst {
			secOfFirst, contentOfFirst = times[e].Unix(), content
		}
		sameSecondHazard := contentOfFirst != content // an earlier poll saw this second with other content
		if changed && sameSecond {
			c.Count("reload_points_changed_within_same_second", 1)
		}
		_, cur := refParse(content)

		// observers: after a change each registered observer is notified, and what it sees
		// is the file. Decided at the final reload point (the file has stopped changing) and,
		// in histories whose edits all lie in different seconds, at every reload point.
		for k, o := range observers {
			calls, seen := o.snapshot()
			notified := calls > callsBefore[k]
			if notified {
				c.Count("observer_notifications", 1)
				for key, v := range cur {
					if refTrim(v) == "" {
						continue
					}
					if got, ok := seen[key]; !ok || got != refTrim(v) {
						d := detail()
						d["key"], d["expected"], d["observer_saw"] = key, clipStr(refTrim(v), 300), clipStr(got, 300)
						c.Fail("FileConfig:observer-saw-stale-value", fmt.Sprintf("observer %d was notified after edit %d but GetValue(%q) inside the callback gave %s, the file holds %s", k, e, key, quoteClip(got, 60), quoteClip(refTrim(v), 60)), d)
						break
					}
				}
				c.Count("observer_values_checked", int64(len(cur)))
			}
			if changed && !notified && (final || clean) {
				key := "FileConfig:observer-not-notified"
				if rel != "" {
					key += "/" + rel
				} else if sameSecond {
					key += "/same-second-edit"
				}
				d := detail()
				d["observer"], d["edit"] = k, e
				c.Fail(key, fmt.Sprintf("the file changed (edit %d, mtime %s, previous poll saw mtime %s) and a reload ran, but observer %d was not called", e, times[e].UTC().Format("15:04:05.000"), lastReloadTime.UTC().Format("15:04:05.000"), k), d)
			}
			if changed {
				c.Count("observer_expectations", 1)
			}
		}

		if final {
			// a second poll during the silence must not change anything
			conf.VerifReloadNow()
			nchecks := 0
			visibleOK := map[string]bool{}
			for key, v := range cur {
				exp := refTrim(v)
				got := conf.GetValue(key)
				c.Count("visibility_checks", 1)
				if got == exp {
					visibleOK[key] = true
					continue
				}
				cause := "unexplained"
				switch {
				case clean && exp == "" && loadedEver[key] != "" && got == refTrim(loadedEver[key]):
					cause = "empty-value-keeps-previous"
				case rel != "":
					cause = rel
				case sameSecondHazard:
					cause = "same-second-edit"
				case exp == "" && loadedEver[key] != "" && got == refTrim(loadedEver[key]):
					cause = "empty-value-keeps-previous"
				}
				d := detail()
				d["key"], d["expected"], d["got"] = key, clipStr(exp, 300), clipStr(got, 300)
				c.Fail("FileConfig:value-not-visible/"+cause, fmt.Sprintf("after the last edit (mtime %s; previous poll saw %s) and two reloads GetValue(%q) = %s but the file holds %s", times[e].UTC().Format("15:04:05.000"), lastReloadTime.UTC().Format("15:04:05.000"), key, quoteClip(got, 60), quoteClip(exp, 60)), d)
			}
			// typed getters on what is visible
			for _, key := range fm.keys() {
				if visibleOK[key] {
					nchecks += checkGetters(c, conf, key, cur[key], true, r, map[string]interface{}{"timeline": tl, "file": clipStr(content, 1500)})
				}
			}
			// keys that were never in any file
			for n := 0; n < 2; n++ {
				k := fmt.Sprintf("%snever_%d", pfx, n)
				nchecks += checkGetters(c, conf, k, "", false, r, map[string]interface{}{"timeline": tl})
			}
			// keys that were loaded earlier and have been deleted from the file since
			if clean {
				for key, old := range loadedEver {
					if _, still := cur[key]; still {
						continue
					}
					c.Count("deleted_key_checks", 1)
					if got := conf.GetValue(key); got != "" {
						d := detail()
						d["key"], d["got"], d["earlier_value"] = key, clipStr(got, 300), clipStr(old, 300)
						c.Fail("FileConfig:value-not-visible/deleted-key-keeps-previous", fmt.Sprintf("key %q was deleted from the file, two reloads later GetValue still returns %s (absent keys must fall back to the default)", key, quoteClip(got, 60)), d)
					}
				}
			}
			c.Count("getter_comparisons", int64(nchecks))
		}

		lastReloadContent = content
		lastReloadTime = times[e]
		mapReset = false
		for k, v := range cur {
			if refTrim(v) != "" {
				loadedEver[k] = v
			}
		}
	}
	c.Count("histories", 1)
	c.DistinctStr(fmt.Sprintf("%s|%v", tl, hist))
	if c.WantSample() && i%7 == 3 {
		c.Sample(map[string]interface{}{"section": "tracking", "timeline": tl, "observers": nObs, "history": hist})
	}
}

// magnitude names the order of a time difference (coverage label).
func magnitude(d time.Duration) string {
	switch {
	case d < time.Second:
		return "milliseconds"
	case d < time.Minute:
		return "seconds"
	case d < time.Hour:
		return "minutes"
	case d < 48*time.Hour:
		return "hours"
	case d < 366*24*time.Hour:
		return "days"
	}
	return "years"
}

// placeFile plays the external editor: rewrite in place, or prepare a file next to the
// configuration and rename it over it (the way cp -p / rsync / mv / a restore deliver a file:
// new inode, modification time decided by the source).
func placeFile(path, content string, mtime time.Time, method string) {
	if method != emReplace {
		writeFileAt(path, content, mtime)
		return
	}
	tmp := path + ".prepared"
	writeFileAt(tmp, content, mtime)
	if err := os.Rename(tmp, path); err != nil {
		panic(err)
	}
}

// realPollCase uses the production path untouched: the 3 s polling goroutine finds the
// edit by itself and notifies the observer. Waiting is bounded by a watchdog whose firing is
// inconclusive, never a verdict.
func realPollCase(c *vlib.Ctx, i int, r *vlib.Rand) {
	dir := tmpHome("poll")
	defer os.RemoveAll(dir)
	path := filepath.Join(dir, confName)
	key := fmt.Sprintf("poll%d_key", i)
	t0 := time.Unix(1_500_000_000, 0)
	writeFileAt(path, key+"=first\n", t0)
	co := config.NewConfigObserver()
	o := &recObserver{ch: make(chan struct{}, 4)}
	o.setKeys([]string{key})
	co.Add("poll-observer", o)
	conf := conffile.VerifNew(conffile.WithHomePath(dir), conffile.WithConfigObserver(co))
	defer conf.VerifStop()
	if got := conf.GetValue(key); got != "first" {
		c.Fail("FileConfig:value-not-visible/initial-load", fmt.Sprintf("after construction GetValue = %q, file holds \"first\"", got), map[string]interface{}{"file": key + "=first\n"})
		return
	}
	// drain a possible notification of the initial load
	select {
	case <-o.ch:
	default:
	}
	writeFileAt(path, key+"=second\n", t0.Add(5*time.Second))
	select {
	case <-o.ch:
		_, seen := o.snapshot()
		c.Count("real_poll_notifications", 1)
		if seen[key] != "second" {
			c.Fail("FileConfig:observer-saw-stale-value", fmt.Sprintf("polling goroutine notified the observer but it saw %q, file holds \"second\"", seen[key]), map[string]interface{}{"path": "real 3 s poll"})
		}
	case <-time.After(30 * time.Second):
		c.Inconclusive(fmt.Sprintf("real-poll#%d", i), "no notification from the polling goroutine within the 30 s watchdog")
		return
	}
	// a prepared file with an older modification time is moved over the configuration
	placeFile(path, key+"=third\n", t0.Add(-time.Hour), emReplace)
	select {
	case <-o.ch:
		_, seen := o.snapshot()
		c.Count("real_poll_notifications", 1)
		c.Count("real_poll_notifications_older_mtime", 1)
		if seen[key] != "third" {
			c.Fail("FileConfig:observer-saw-stale-value", fmt.Sprintf("polling goroutine notified the observer after a file with an older modification time was moved in, but it saw %q, file holds \"third\"", seen[key]), map[string]interface{}{"path": "real 3 s poll"})
		}
	case <-time.After(30 * time.Second):
		c.Inconclusive(fmt.Sprintf("real-poll#%d", i), "no notification from the polling goroutine within the 30 s watchdog after a file with an older modification time was moved in")
	}
}

// mtimeProbe is evidence for the pinned-mtime construction, not a verdict: three real writes
// 20 ms apart — does the work file system record distinct sub-second modification times?
func mtimeProbe(c *vlib.Ctx, i int, r *vlib.Rand) {
	dir := tmpHome("mtime")
	defer os.RemoveAll(dir)
	path := filepath.Join(dir, confName)
	var prev time.Time
	for k := 0; k < 3; k++ {
		os.WriteFile(path, []byte(fmt.Sprintf("k=%d\n", k)), 0o644)
		st, err := os.Stat(path)
		if err != nil {
			return
		}
		if k > 0 {
			c.Count("real_mtime_pairs", 1)
			if !st.ModTime().Equal(prev) {
				c.Count("real_mtime_pairs_distinct_in_ns", 1)
			}
			if st.ModTime().Unix() == prev.Unix() {
				c.Count("real_mtime_pairs_same_whole_second", 1)
			}
		}
		prev = st.ModTime()
		time.Sleep(20 * time.Millisecond)
	}
}
