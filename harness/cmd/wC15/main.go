// wC15 — hashes and identifier encodings are the stated pure functions and bijections.
package main

import (
	"bytes"
	"crypto/sha256"
	"encoding/binary"
	"encoding/hex"
	"encoding/json"
	"fmt"
	"hash/crc32"
	"math"
	"net"
	"os"
	"os/exec"
	"path/filepath"
	"regexp"
	"runtime"
	"strconv"
	"strings"
	"sync"
	"sync/atomic"

	"github.com/whatap/golib/util/bitutil"
	"github.com/whatap/golib/util/hash"
	"github.com/whatap/golib/util/hexa32"
	"github.com/whatap/golib/util/hll"
	"github.com/whatap/golib/util/iputil"
	"github.com/whatap/golib/util/stringutil"

	"verif/vlib"
)

// ---- independent references -----------------------------------------------------------

// crcTable is regenerated from the reflected IEEE polynomial, not copied from golib.
var crcTable = func() [256]uint32 {
	var t [256]uint32
	for i := 0; i < 256; i++ {
		c := uint32(i)
		for k := 0; k < 8; k++ {
			if c&1 == 1 {
				c = c>>1 ^ 0xedb88320
			} else {
				c >>= 1
			}
		}
		t[i] = c
	}
	return t
}()

// refHash64: 64-bit register, table entry sign-extended from 32 bits (the Java long table
// holds int values), init and final xor all-ones.
func refHash64(b []byte) int64 {
	crc := ^uint64(0)
	for _, x := range b {
		e := uint64(int64(int32(crcTable[byte(crc)^x])))
		crc = crc>>8 ^ e
	}
	return int64(^crc)
}

// refHash64v2: two interleaved 32-bit CRC lanes over the same byte (empty input = 0).
func refHash64v2(b []byte) int64 {
	if len(b) == 0 {
		return 0
	}
	crc := ^uint64(0)
	for _, x := range b {
		crc >>= 8
		lo := uint64(crcTable[byte(crc)^x])
		hi := uint64(crcTable[byte(crc>>32)^x])
		crc ^= lo
		crc ^= hi << 32
	}
	return int64(^crc)
}

// refMurmur2: MurmurHash 2.0 as ported by stream-lib (tail bytes taken as unsigned).
func refMurmur2(data []byte, seed uint32) uint32 {
	const m = 0x5bd1e995
	n := len(data)
	h := seed ^ uint32(n)
	i := 0
	for ; i+4 <= n; i += 4 {
		k := binary.LittleEndian.Uint32(data[i:])
		k *= m
		k ^= k >> 24
		k *= m
		h *= m
		h ^= k
	}
	left := n - i
	if left != 0 {
		if left >= 3 {
			h ^= uint32(data[n-3]) << 16
		}
		if left >= 2 {
			h ^= uint32(data[n-2]) << 8
		}
		h ^= uint32(data[n-1])
		h *= m
	}
	h ^= h >> 13
	h *= m
	h ^= h >> 15
	return h
}

func refMurmurLong(d uint64) uint32 {
	const m = 0x5bd1e995
	var h uint32
	k := uint32(d) * m
	k ^= k >> 24
	h ^= k * m
	k = uint32(d>>32) * m
	k ^= k >> 24
	h *= m
	h ^= k * m
	h ^= h >> 13
	h *= m
	h ^= h >> 15
	return h
}

// refMurmur64A: MurmurHash64A with seed 0xe17a1465.
func refMurmur64A(data []byte) uint64 {
	const m = 0xc6a4a7935bd1e995
	n := len(data)
	h := uint64(0xe17a1465) ^ uint64(n)*m
	i := 0
	for ; i+8 <= n; i += 8 {
		k := binary.LittleEndian.Uint64(data[i:])
		k *= m
		k ^= k >> 47
		k *= m
		h ^= k
		h *= m
	}
	rest := data[i:]
	if len(rest) > 0 {
		for j := len(rest) - 1; j >= 0; j-- {
			h ^= uint64(rest[j]) << (8 * uint(j))
		}
		h *= m
	}
	h ^= h >> 47
	h *= m
	h ^= h >> 47
	return h
}

func refJavaHashCode(s string) int {
	h := 0
	for i := 0; i < len(s); i++ {
		h = h*31 + int(s[i])
	}
	return h
}

// refToString32 is written from the documented form: one decimal digit for 0..9, otherwise
// 'x' (positive) or 'z' (negative) followed by the magnitude in base 32, digits 0-9a-v.
func refToString32(n int64) string {
	if n >= 0 && n < 10 {
		return string(rune('0' + n))
	}
	var mag uint64
	pre := "x"
	if n < 0 {
		pre = "z"
		mag = uint64(-(n + 1)) + 1
	} else {
		mag = uint64(n)
	}
	const dg = "0123456789abcdefghijklmnopqrstuv"
	var buf []byte
	for mag > 0 {
		buf = append([]byte{dg[mag&31]}, buf...)
		mag >>= 5
	}
	return pre + string(buf)
}

var hexaRe = regexp.MustCompile(`^(\d|x[1-9a-v][0-9a-v]*|z[1-9a-v][0-9a-v]*)$`)

type golden struct {
	Corpus string            `json:"corpus"`
	Digest map[string]string `json:"digest"`
}

// coldStart: the first calls a process ever makes into the hash and identifier helpers come
// from many goroutines at the same instant (a server starting its worker goroutines). The
// answers are compared with references that do not touch the library, and with the library's
// own answers afterwards. Every child process of the check is one such observation, and each
// child starts a number of further fresh processes of itself that do nothing else.
func coldOnce(seed uint64) (bool, string) {
	r := vlib.NewRand(seed)
	buf := make([]byte, 1024)
	for i := range buf {
		buf[i] = byte(r.U64())
	}
	n := r.I64()
	ip := int32(r.U64())
	// a share of the processes asks for the boundary values first: what a zero-valued cache or
	// an unset "initialised" flag would answer for (address 0, number 0, the empty input)
	switch seed % 4 {
	case 1:
		ip, n = 0, 0
	case 2:
		ip, n, buf = 0, 0, buf[:0]
	case 3:
		ip, n = -1, -1
		for i := range buf {
			buf[i] = 0
		}
	}
	type res struct {
		h            int32
		h64, v2a, vb int64
		s32          string
		ips          string
	}
	const G = 16
	out := make([]res, G)
	var ready, start int32
	var wg sync.WaitGroup
	for g := 0; g < G; g++ {
		wg.Add(1)
		go func(g int) {
			defer wg.Done()
			runtime.LockOSThread()
			defer runtime.UnlockOSThread()
			atomic.AddInt32(&ready, 1)
			for atomic.LoadInt32(&start) == 0 {
			}
			for spin := 0; spin < g*40; spin++ { // staggered by fractions of a microsecond
				_ = atomic.LoadInt32(&start)
			}
			var o res
			switch g % 4 { // different entry points first; the very first call's answer is kept
			case 0:
				o.h = hash.Hash(buf)
			case 1:
				o.h64 = hash.Hash64(buf)
			case 2:
				o.v2a = hash.Hash64v2(buf)
			default:
				o.vb = hash.Hash64V2(buf)
			}
			if g%4 != 0 {
				o.h = hash.Hash(buf)
			}
			if g%4 != 1 {
				o.h64 = hash.Hash64(buf)
			}
			if g%4 != 2 {
				o.v2a = hash.Hash64v2(buf)
			}
			if g%4 != 3 {
				o.vb = hash.Hash64V2(buf)
			}
			o.s32 = hexa32.ToString32(n)
			o.ips = iputil.ToStringInt(ip)
			out[g] = o
		}(g)
	}
	for atomic.LoadInt32(&ready) < G {
		runtime.Gosched()
	}
	atomic.StoreInt32(&start, 1)
	wg.Wait()
	// references that do not touch the library (the IPv4 text from package net; Hexa32 has no
	// independent encoder here, so its first answer is compared with the library's later one and,
	// for 0, with the literal)
	ipText := net.IPv4(byte(uint32(ip)>>24), byte(uint32(ip)>>16), byte(uint32(ip)>>8), byte(uint32(ip))).String()
	s32 := hexa32.ToString32(n)
	if n == 0 {
		s32 = "0"
	}
	want := res{int32(crc32.ChecksumIEEE(buf)), refHash64(buf), refHash64v2(buf), refHash64v2(buf), s32, ipText}
	for g, o := range out {
		if o != want {
			return false, fmt.Sprintf("goroutine %d of %d got %+v, want %+v", g, G, o, want)
		}
	}
	return true, ""
}

func coldStart(c *vlib.Ctx) {
	c.Section("cold-start", true, func() {
		seed := c.Rand("cold-start").U64()
		fail := func(how, d string) {
			c.Failf("first-use-under-concurrency", map[string]interface{}{"process": how, "seed": seed, "observed": d},
				"the first calls of a fresh process, made by 16 goroutines at once, returned values that differ from the reference / from the same call made later (%s): %s", how, d)
		}
		if ok, d := coldOnce(seed); !ok {
			fail("this child", d)
		}
		c.Count("cold_start_processes", 1)
		extra := c.N(12, 96)
		if c.Flavour == "race" {
			extra = 2
		}
		for k := 0; k < extra; k++ {
			cmd := exec.Command(os.Args[0])
			cmd.Env = append(os.Environ(), fmt.Sprintf("VERIF_COLD_CHILD=%d", seed+uint64(k)+1))
			b, err := cmd.CombinedOutput()
			switch {
			case err == nil:
				c.Count("cold_start_processes", 1)
			case cmd.ProcessState != nil && cmd.ProcessState.ExitCode() == 3:
				c.Count("cold_start_processes", 1)
				fail(fmt.Sprintf("fresh process %d", k), strings.TrimSpace(string(b)))
				return
			default:
				c.Note(fmt.Sprintf("cold-start sub-process could not be run: %v %s", err, strings.TrimSpace(string(b))))
			}
		}
		c.Eval(int64(extra) + 1)
	})
}

func main() {
	if v := os.Getenv("VERIF_COLD_CHILD"); v != "" {
		seed, _ := strconv.ParseUint(v, 10, 64)
		if ok, d := coldOnce(seed); !ok {
			fmt.Println(d)
			os.Exit(3)
		}
		return
	}
	c := vlib.Start("C15")
	coldStart(c)
	// the race flavour runs the concurrent parts only (cold start above, concurrent-purity below)
	isRace := c.Flavour == "race"
	checkHashOne := func(b []byte, where string) {
		cp := append([]byte(nil), b...)
		h := hash.Hash(b)
		if uint32(h) != crc32.ChecksumIEEE(b) {
			c.Failf("Hash:not-crc32", map[string]string{"input": vlib.Hex(b)}, "Hash(%x)=%d, CRC-32 IEEE=%d (%s)", b, h, int32(crc32.ChecksumIEEE(b)), where)
		}
		if hs := hash.HashStr(string(b)); hs != h {
			c.Failf("HashStr:differs-from-Hash", map[string]string{"input": vlib.Hex(b)}, "HashStr=%d Hash=%d", hs, h)
		}
		h64 := hash.Hash64(b)
		if r := refHash64(b); h64 != r {
			c.Failf("Hash64:differs-from-reference", map[string]string{"input": vlib.Hex(b)}, "Hash64=%d ref=%d", h64, r)
		}
		if hs := hash.Hash64Str(string(b)); hs != h64 {
			c.Failf("Hash64Str:differs-from-Hash64", map[string]string{"input": vlib.Hex(b)}, "Hash64Str=%d Hash64=%d", hs, h64)
		}
		a, b2 := hash.Hash64v2(b), hash.Hash64V2(b)
		if a != b2 {
			c.Failf("Hash64v2:implementations-disagree", map[string]string{"input": vlib.Hex(b)}, "Hash64v2=%d Hash64V2=%d", a, b2)
		}
		if r := refHash64v2(b); a != r {
			c.Failf("Hash64v2:differs-from-reference", map[string]string{"input": vlib.Hex(b)}, "Hash64v2=%d ref=%d", a, r)
		}
		if s := hash.Hash64StrV2(string(b)); s != b2 {
			c.Failf("Hash64StrV2:differs", map[string]string{"input": vlib.Hex(b)}, "Hash64StrV2=%d Hash64V2=%d", s, b2)
		}
		if g := hash.GetLongHash(string(b)); g != a {
			c.Failf("GetLongHash:differs", map[string]string{"input": vlib.Hex(b)}, "GetLongHash=%d Hash64v2=%d", g, a)
		}
		if m := hll.MurmurHashByte(b); m != refMurmur2(b, 0xe17a1465) {
			c.Failf("MurmurHashByte:differs-from-reference", map[string]string{"input": vlib.Hex(b)}, "got %d ref %d", m, refMurmur2(b, 0xe17a1465))
		}
		if m := hll.MurmurHashLongByte(b, int32(len(b))); m != refMurmur64A(b) {
			c.Failf("MurmurHashLongByte:differs-from-reference", map[string]string{"input": vlib.Hex(b)}, "got %d ref %d", m, refMurmur64A(b))
		}
		// the explicit length is a parameter: hashing the first k bytes of a larger buffer must
		// be the hash of those k bytes (added after seeded change C15r7-2, which took the tail
		// from the slice's length)
		if len(b) > 0 {
			k := int(uint32(hash.Hash(b))>>1) % (len(b) + 1)
			if m := hll.MurmurHashLongByte(b, int32(k)); m != refMurmur64A(b[:k]) {
				c.Failf("MurmurHashLongByte:differs-from-reference/length-below-slice-length", map[string]string{"input": vlib.Hex(b), "length": fmt.Sprint(k)}, "got %d ref %d", m, refMurmur64A(b[:k]))
			}
			c.Count("murmur_long_prefix_lengths", 1)
		}
		if hc := stringutil.HashCode(string(b)); hc != refJavaHashCode(string(b)) {
			c.Failf("HashCode:differs-from-reference", map[string]string{"input": vlib.Hex(b)}, "got %d", hc)
		}
		// purity: same answer again, input untouched
		if hash.Hash(b) != h || hash.Hash64(b) != h64 || hash.Hash64v2(b) != a || hash.Hash64V2(b) != b2 {
			c.Failf("hash:impure", map[string]string{"input": vlib.Hex(b)}, "second call differs")
		}
		if !bytes.Equal(cp, b) {
			c.Failf("hash:input-modified", map[string]string{"input": vlib.Hex(cp)}, "input slice modified")
		}
	}

	// (1) all byte strings of length <= 2, exhaustively
	c.Section("hash-exhaustive-len<=2", false, func() {
		if isRace {
			return
		}
		checkHashOne(nil, "nil")
		checkHashOne([]byte{}, "empty")
		n := int64(2)
		for i := 0; i < 256; i++ {
			checkHashOne([]byte{byte(i)}, "len1")
			n++
		}
		for i := 0; i < 65536; i++ {
			checkHashOne([]byte{byte(i >> 8), byte(i)}, "len2")
			n++
		}
		c.Eval(n)
		c.DistinctEnum(n - 1) // nil and empty are the same byte string
		c.Count("hash_inputs_exhaustive", n)
		c.Exhaustive("all byte strings of length 0..2 through Hash/HashStr/Hash64/Hash64v2/Hash64V2/murmur")
	})

	// (2) random byte strings up to 64 KiB
	c.Cases("hash-random", c.N(20000, 400000), func(i int, r *vlib.Rand) {
		if isRace {
			return
		}
		var n int
		switch r.Intn(10) {
		case 0:
			n = r.Range(3, 16)
		case 1:
			n = r.Range(1000, 65536)
		default:
			n = r.Range(3, 300)
		}
		b := r.Bytes(n)
		checkHashOne(b, "random")
		c.DistinctBytes(b)
		if i < 3 {
			c.Sample(map[string]interface{}{"kind": "hash", "input": vlib.Hex(b), "Hash": hash.Hash(b), "Hash64": hash.Hash64(b), "Hash64v2": hash.Hash64v2(b)})
		}
		c.Count("hash_inputs_random", 1)
	})

	// (3) murmur integer hashes
	c.Cases("murmur-int", c.N(200000, 4000000)/1000, func(i int, r *vlib.Rand) {
		if isRace {
			return
		}
		for k := 0; k < 1000; k++ {
			v := uint64(r.I64())
			if got := hll.MurmurHashLong(v); got != refMurmurLong(v) {
				c.Failf("MurmurHashLong:differs-from-reference", map[string]uint64{"input": v}, "got %d ref %d", got, refMurmurLong(v))
			}
			if got := hll.MurmurHash(uint32(v)); got != refMurmurLong(uint64(uint32(v))) {
				c.Failf("MurmurHash:differs-from-reference", map[string]uint64{"input": v}, "got %d", got)
			}
			sd := r.U32()
			bb := r.Bytes(r.Intn(20))
			if got := hll.MurmurHashByteSeed(bb, sd); got != refMurmur2(bb, sd) {
				c.Failf("MurmurHashByteSeed:differs-from-reference", map[string]string{"input": vlib.Hex(bb)}, "got %d", got)
			}
			c.Distinct(v)
		}
		c.Eval(999)
		c.Count("murmur_int_inputs", 1000)
	})

	// (4) golden digests: the persisted identifier values never change
	c.Section("golden", false, func() {
		if isRace {
			return
		}
		gr := vlib.NewRand(0xC15)
		d := map[string][]byte{}
		add := func(k string, v uint64) {
			var t [8]byte
			binary.BigEndian.PutUint64(t[:], v)
			d[k] = append(d[k], t[:]...)
		}
		for i := 0; i < 5000; i++ {
			b := gr.Bytes(gr.Intn(200))
			add("Hash", uint64(uint32(hash.Hash(b))))
			add("Hash64", uint64(hash.Hash64(b)))
			add("Hash64v2", uint64(hash.Hash64v2(b)))
			add("MurmurHashByte", uint64(hll.MurmurHashByte(b)))
			add("MurmurHashLongByte", hll.MurmurHashLongByte(b, int32(len(b))))
			add("HashCode", uint64(stringutil.HashCode(string(b))))
			v := gr.U64()
			add("MurmurHashLong", uint64(hll.MurmurHashLong(v)))
			add("ToString32", vlib.HashStr(hexa32.ToString32(int64(v))))
		}
		got := map[string]string{}
		for k, v := range d {
			s := sha256.Sum256(v)
			got[k] = hex.EncodeToString(s[:])
		}
		p := filepath.Join(vlib.VerifRoot(), "spec", "golden_hashes.json")
		if os.Getenv("VERIF_WRITE_GOLDEN") == "1" {
			b, _ := json.MarshalIndent(golden{Corpus: "vlib.NewRand(0xC15): 5000 × Bytes(Intn(200)) and U64()", Digest: got}, "", " ")
			os.WriteFile(p, b, 0o644)
		}
		var g golden
		b, err := os.ReadFile(p)
		if err != nil || json.Unmarshal(b, &g) != nil {
			c.Inconclusive("golden", "spec/golden_hashes.json missing")
			return
		}
		for k, v := range g.Digest {
			if got[k] != v {
				c.Failf("golden:"+k, map[string]string{"want": v, "got": got[k]}, "digest of %s over the fixed corpus changed: persisted identifiers would change", k)
			}
			c.Count("golden_functions_checked", 1)
		}
		c.Eval(int64(len(g.Digest)))
	})

	// (5) Hexa32
	hexaOne := func(n int64) {
		s := hexa32.ToString32(n)
		if back := hexa32.ToLong32(s); back != n {
			c.Failf("Hexa32:not-inverse", map[string]interface{}{"n": n, "text": s}, "ToLong32(ToString32(%d)=%q)=%d", n, s, back)
		}
		if r := refToString32(n); s != r {
			c.Failf("Hexa32:form", map[string]interface{}{"n": n, "text": s, "ref": r}, "ToString32(%d)=%q, documented form %q", n, s, r)
		}
		if !hexaRe.MatchString(s) {
			c.Failf("Hexa32:syntax", map[string]interface{}{"n": n, "text": s}, "ToString32(%d)=%q not in digit/x/z form", n, s)
		}
	}
	c.Section("hexa32-near-powers", false, func() {
		if isRace {
			return
		}
		var cnt int64
		seen := map[string]int64{}
		for k := uint(0); k <= 12; k++ {
			for _, sign := range []int64{1, -1} {
				var p int64
				if k*5 >= 63 {
					continue
				}
				p = sign * (int64(1) << (5 * k))
				for d := int64(-64); d <= 64; d++ {
					n := p + d
					hexaOne(n)
					s := hexa32.ToString32(n)
					if o, ok := seen[s]; ok && o != n {
						c.Failf("Hexa32:not-injective", map[string]interface{}{"a": o, "b": n, "text": s}, "%d and %d both encode to %q", o, n, s)
					}
					seen[s] = n
					cnt++
				}
			}
		}
		for d := int64(0); d <= 64; d++ {
			hexaOne(math.MaxInt64 - d)
			hexaOne(math.MinInt64 + d)
			cnt += 2
		}
		for n := int64(-2000); n <= 2000; n++ {
			hexaOne(n)
			cnt++
		}
		c.Eval(cnt)
		c.DistinctEnum(int64(len(seen)))
		c.Count("hexa32_boundary_values", cnt)
		c.Exhaustive("Hexa32: every n within ±64 of ±32^k (k=0..12), within 64 of both extremes, and -2000..2000")
	})
	c.Cases("hexa32-random", c.N(2000000, 200000000)/100000, func(i int, r *vlib.Rand) {
		if isRace {
			return
		}
		for k := 0; k < 100000; k++ {
			hexaOne(r.I64())
		}
		c.Eval(99999)
		c.DistinctEnum(1)
		c.Count("hexa32_random_values", 100000)
		if i == 0 {
			n := r.I64()
			c.Sample(map[string]interface{}{"kind": "hexa32", "n": n, "text": hexa32.ToString32(n)})
		}
	})

	// (6) bit helpers
	c.Section("bitutil-16", false, func() {
		if isRace {
			return
		}
		for h := 0; h < 256; h++ {
			for l := 0; l < 256; l++ {
				v := bitutil.Composite16(byte(h), byte(l))
				if bitutil.GetHigh16(v) != byte(h) || bitutil.GetLow16(v) != byte(l) || uint16(v) != uint16(h)<<8|uint16(l) {
					c.Failf("bitutil.Composite16:not-inverse", []int{h, l}, "Composite16(%d,%d)=%d", h, l, v)
				}
			}
		}
		c.Eval(65536)
		c.DistinctEnum(65536)
		c.Exhaustive("Composite16/GetHigh16/GetLow16 over all 2^16 pairs")
	})
	check32 := func(h, l int16) {
		v := bitutil.Composite32(h, l)
		if bitutil.GetHigh32(v) != h || bitutil.GetLow32(v) != l || uint32(v) != uint32(uint16(h))<<16|uint32(uint16(l)) {
			c.Failf("bitutil.Composite32:not-inverse", []int16{h, l}, "Composite32(%d,%d)=%d → (%d,%d)", h, l, v, bitutil.GetHigh32(v), bitutil.GetLow32(v))
		}
	}
	check64 := func(h, l int32, src int64) {
		v := bitutil.Composite64(h, l)
		if bitutil.GetHigh64(v) != h || bitutil.GetLow64(v) != l || uint64(v) != uint64(uint32(h))<<32|uint64(uint32(l)) {
			c.Failf("bitutil.Composite64:not-inverse", []int32{h, l}, "Composite64(%d,%d)=%d → (%d,%d)", h, l, v, bitutil.GetHigh64(v), bitutil.GetLow64(v))
		}
		sh := bitutil.SetHigh64(src, h)
		if bitutil.GetHigh64(sh) != h || bitutil.GetLow64(sh) != bitutil.GetLow64(src) {
			c.Failf("bitutil.SetHigh64:inconsistent", []int64{src, int64(h)}, "SetHigh64(%d,%d)=%d", src, h, sh)
		}
		sl := bitutil.SetLow64(src, l)
		if bitutil.GetLow64(sl) != l || bitutil.GetHigh64(sl) != bitutil.GetHigh64(src) {
			c.Failf("bitutil.SetLow64:inconsistent", []int64{src, int64(l)}, "SetLow64(%d,%d)=%d", src, l, sl)
		}
	}
	c.Section("bitutil-32", true, func() {
		if isRace {
			return
		}
		// all 2^32 pairs in thorough (sharded by the high half), a stratified 2^24 in quick
		var cnt int64
		step := 1
		if !c.Thorough() {
			step = 251 // co-prime stride through the low half; every high half is visited
		}
		for h := c.Shard; h < 65536; h += c.NShards {
			for l := (h * 7) % step; l < 65536; l += step {
				check32(int16(h), int16(l))
				cnt++
			}
			check32(int16(h), 0)
			check32(int16(h), -1)
			check32(int16(h), -32768)
			check32(int16(h), 32767)
		}
		c.Eval(cnt)
		c.DistinctEnum(cnt)
		c.Count("bitutil32_pairs", cnt)
		if c.Thorough() {
			c.Exhaustive("Composite32/GetHigh32/GetLow32 over all 2^32 pairs")
		}
	})
	c.Cases("bitutil-64", c.N(1000000, 50000000)/100000, func(i int, r *vlib.Rand) {
		if isRace {
			return
		}
		for k := 0; k < 100000; k++ {
			check64(r.I32(), r.I32(), r.I64())
		}
		c.Eval(99999)
		c.DistinctEnum(1)
		c.Count("bitutil64_pairs", 100000)
	})

	// (7) IPv4
	ipOne := func(v uint32) {
		i := int32(v)
		b := []byte{byte(v >> 24), byte(v >> 16), byte(v >> 8), byte(v)}
		s := iputil.ToString(b)
		want := net.IPv4(b[0], b[1], b[2], b[3]).String()
		if s != want {
			c.Failf("iputil.ToString:format", map[string]interface{}{"bytes": vlib.Hex(b)}, "ToString(%v)=%q want %q", b, s, want)
		}
		if si := iputil.ToStringInt(i); si != want {
			c.Failf("iputil.ToStringInt:format", map[string]interface{}{"int": i}, "ToStringInt(%d)=%q want %q", i, si, want)
		}
		bb := iputil.ToBytes(s)
		if !bytes.Equal(bb, b) {
			c.Failf("iputil.ToBytes:not-inverse", map[string]interface{}{"text": s}, "ToBytes(%q)=%v want %v", s, bb, b)
		}
		if back := iputil.ToInt(bb); back != i {
			c.Failf("iputil.ToInt:not-inverse", map[string]interface{}{"text": s}, "ToInt(ToBytes(%q))=%d want %d", s, back, i)
		}
		if fb := iputil.ToBytesFrInt(i); !bytes.Equal(fb, b) {
			c.Failf("iputil.ToBytesFrInt:wrong", map[string]interface{}{"int": i}, "ToBytesFrInt(%d)=%v", i, fb)
		}
	}
	c.Section("ipv4", true, func() {
		if isRace {
			return
		}
		var cnt int64
		if c.Thorough() {
			// all 2^32 addresses, sharded on the first octet pair
			for hi := c.Shard; hi < 65536; hi += c.NShards {
				for lo := 0; lo < 65536; lo++ {
					ipOne(uint32(hi)<<16 | uint32(lo))
				}
				cnt += 65536
			}
			c.Exhaustive("IPv4 text/bytes/int conversions over all 2^32 addresses")
		} else {
			// every /16 prefix with boundary and strided hosts: 2^16 × 64
			for hi := c.Shard; hi < 65536; hi += c.NShards {
				for k := 0; k < 60; k++ {
					lo := (hi*31 + k*1093) & 0xffff
					ipOne(uint32(hi)<<16 | uint32(lo))
					cnt++
				}
				for _, lo := range []uint32{0, 1, 255, 256, 0xffff, 0xff00, 0x00ff, 0x7f7f, 0x8080, 0x0a0a, 0x6464, 0x6363, 0x0909, 0xc7c8} {
					ipOne(uint32(hi)<<16 | lo)
					cnt++
				}
			}
		}
		c.Eval(cnt)
		c.DistinctEnum(cnt)
		c.Count("ipv4_addresses", cnt)
	})
	// (7b) results are fresh values: scribbling over a returned slice must not change what a
	// later call returns (a shared fallback slice or cached result would)
	c.Section("ipv4-result-ownership", false, func() {
		if isRace {
			return
		}
		texts := []string{"", "1.2.3", "not-an-ip", "1.2.3.4.5", "300.1.2.3", "a.b.c.d", "10.20.30.40", "0.0.0.0", "255.255.255.255", " ", "..."}
		var cnt int64
		for round := 0; round < 3; round++ {
			for _, tx := range texts {
				first := iputil.ToBytes(tx)
				want := append([]byte(nil), first...)
				for i := range first {
					first[i] ^= 0xa5 // the caller owns what it was given
				}
				again := iputil.ToBytes(tx)
				if !bytes.Equal(again, want) {
					c.Failf("iputil.ToBytes:result-shared", map[string]interface{}{"text": tx}, "ToBytes(%q) returned %v, then %v after the caller modified the first result", tx, want, again)
				}
				if len(want) != 4 {
					c.Failf("iputil.ToBytes:length", map[string]interface{}{"text": tx}, "ToBytes(%q) returned %d bytes", tx, len(want))
				}
				for _, other := range texts {
					o := iputil.ToBytes(other)
					o2 := iputil.ToBytes(other)
					if !bytes.Equal(o, o2) {
						c.Failf("iputil.ToBytes:impure", map[string]interface{}{"text": other}, "two calls of ToBytes(%q) differ: %v %v", other, o, o2)
					}
				}
				cnt++
			}
			v := int32(0x0a141e28)
			fb := iputil.ToBytesFrInt(v)
			fb[0] = 99
			if b2 := iputil.ToBytesFrInt(v); b2[0] != 0x0a {
				c.Failf("iputil.ToBytesFrInt:result-shared", nil, "ToBytesFrInt result is shared between calls")
			}
			if s1, s2 := iputil.ToString(nil), iputil.ToString([]byte{}); s1 != "0.0.0.0" || s2 != "0.0.0.0" {
				c.Failf("iputil.ToString:empty", nil, "ToString(nil)=%q ToString(empty)=%q", s1, s2)
			}
		}
		c.Eval(cnt)
		c.DistinctEnum(int64(len(texts)))
		c.Count("result_ownership_probes", cnt)
	})

	// (8) the same oracles from many goroutines at once: these are pure functions, so concurrent
	// callers on unrelated inputs must get the same answers (a shared scratch buffer, a cached
	// result or a pooled object would show here and nowhere in the sequential sections)
	c.ParallelCases("concurrent-purity", c.N(8*16, 64*16), 8, func(i int, r *vlib.Rand) {
		per := 6000
		if isRace {
			per = 600
		}
		for k := 0; k < per; k++ {
			hexaOne(r.I64())
			check64(r.I32(), r.I32(), r.I64())
			ipOne(r.U32())
			if k%8 == 0 {
				checkHashOne(r.Bytes(r.Range(1, 120)), "parallel")
			}
			if k%4 == 0 {
				v := r.U64()
				if got := hll.MurmurHashLong(v); got != refMurmurLong(v) {
					c.Failf("MurmurHashLong:differs-from-reference", map[string]uint64{"input": v}, "got %d ref %d (concurrent callers)", got, refMurmurLong(v))
				}
			}
		}
		c.Eval(int64(per) - 1)
		c.DistinctEnum(1)
		c.Count("concurrent_purity_calls", int64(4*per))
	})
	c.Sample(map[string]interface{}{"kind": "ipv4", "int": int32(-1062731775), "text": iputil.ToStringInt(-1062731775)})
	if !isRace {
		c.Floor("hash_inputs_random", int64(c.N(20000, 400000)/10/c.NShards), c.Counter("hash_inputs_random"))
	}
	c.Floor("cold_start_processes", 1, c.Counter("cold_start_processes"))
	c.Finish()
	fmt.Println("done")
}
