// wC06 — one-way TCP client: whole frames, in order, at most once, recovery.
//
// The real client sends real packs to a loopback "collector" that has its own frame parser,
// records every connection's byte stream and executes a fault schedule (cut a connection
// after exactly N received bytes with FIN or RST, refuse K reconnects, come back).
// Oracles run over the recorded client-side call/return events and the collector-side streams.
package main

import (
	"bytes"
	"context"
	"encoding/binary"
	"fmt"
	"net"
	"os"
	"runtime"
	"sort"
	"strconv"
	"strings"
	"sync"
	"sync/atomic"
	"time"

	wio "github.com/whatap/golib/io"
	"github.com/whatap/golib/lang/pack"
	wnet "github.com/whatap/golib/net"
	"github.com/whatap/golib/net/oneway"

	"verif/refcodec"
	"verif/vlib"
)

// ---- loopback collector ----------------------------------------------------------------

type cut struct {
	After  int  // close the connection after exactly this many received bytes (<0: never)
	RST    bool // reset instead of FIN
	Refuse int  // then refuse this many connects before listening again
	// Stall > 0: instead of closing, the collector stops reading for this long after After bytes
	// (longer than the client's write timeout) and then goes on reading: a slow peer, not a dead one
	Stall time.Duration
}

type connRec struct {
	idx    int
	rport  int      // the client's local port of this connection
	conn   net.Conn // for kill()
	mu     sync.Mutex
	data   []byte
	parsed int  // offset up to which complete frames have been counted
	cutBy  bool // the collector itself cut this connection
	done   bool
}

type collector struct {
	smallRcv     bool
	mu           sync.Mutex
	ln           net.Listener
	addr         string
	conns        []*connRec
	schedule     []cut // schedule[k] applies to the k-th accepted connection
	refuseLeft   int32
	bytesTotal   int64 // atomic: total bytes received (for quiescence detection)
	frames       int64 // atomic: complete frames received so far (counted incrementally)
	faultsOff    int32 // atomic: the fault schedule has ended (no further cuts)
	sentinel     []byte
	sentinelSeen int32
	wg           sync.WaitGroup
	closed       bool
	cutsDone     int32
	stallsDone   int32
}

func newCollector(schedule []cut) (*collector, error) {
	ln, err := net.Listen("tcp", "127.0.0.1:0")
	if err != nil {
		return nil, err
	}
	c := &collector{ln: ln, addr: ln.Addr().String(), schedule: schedule}
	c.wg.Add(1)
	go c.acceptLoop(ln)
	return c, nil
}

func (c *collector) acceptLoop(ln net.Listener) {
	defer c.wg.Done()
	for {
		conn, err := ln.Accept()
		if err != nil {
			return
		}
		c.mu.Lock()
		if tc, ok := conn.(*net.TCPConn); ok && c.smallRcv {
			tc.SetReadBuffer(64 << 10)
		}
		rec := &connRec{idx: len(c.conns), conn: conn}
		if ta, ok := conn.RemoteAddr().(*net.TCPAddr); ok {
			rec.rport = ta.Port
		}
		c.conns = append(c.conns, rec)
		var ct cut
		ct.After = -1
		if rec.idx < len(c.schedule) {
			ct = c.schedule[rec.idx]
		}
		c.mu.Unlock()
		c.wg.Add(1)
		go c.serve(conn, rec, ct)
	}
}

func (c *collector) serve(conn net.Conn, rec *connRec, ct cut) {
	defer c.wg.Done()
	buf := make([]byte, 64*1024)
	got := 0
	for {
		if ct.Stall > 0 && ct.After >= 0 && got >= ct.After {
			if atomic.LoadInt32(&c.faultsOff) == 0 {
				time.Sleep(ct.Stall)
				atomic.AddInt32(&c.stallsDone, 1)
			}
			ct.After = -1
		}
		if ct.After >= 0 && got >= ct.After && atomic.LoadInt32(&c.faultsOff) == 0 {
			// execute the fault: first stop listening (so that reconnects are refused), then cut
			rec.mu.Lock()
			rec.cutBy = true
			rec.mu.Unlock()
			if ct.Refuse > 0 {
				atomic.StoreInt32(&c.refuseLeft, int32(ct.Refuse))
				c.down()
			}
			if ct.RST {
				if tc, ok := conn.(*net.TCPConn); ok {
					tc.SetLinger(0)
				}
			}
			conn.Close()
			atomic.AddInt32(&c.cutsDone, 1)
			rec.mu.Lock()
			rec.done = true
			rec.mu.Unlock()
			return
		}
		b := buf
		if ct.After >= 0 && ct.After-got < len(b) && ct.After > got {
			b = b[:ct.After-got]
		}
		n, err := conn.Read(b)
		if n > 0 {
			rec.mu.Lock()
			rec.data = append(rec.data, b[:n]...)
			for len(rec.data)-rec.parsed >= 22 {
				ln := int(int32(binary.BigEndian.Uint32(rec.data[rec.parsed+18 : rec.parsed+22])))
				if ln < 0 || ln > 64<<20 || len(rec.data)-rec.parsed < 22+ln {
					break
				}
				pl := rec.data[rec.parsed+22 : rec.parsed+22+ln]
				rec.parsed += 22 + ln
				atomic.AddInt64(&c.frames, 1)
				c.mu.Lock()
				if c.sentinel != nil && bytes.Equal(pl, c.sentinel) {
					atomic.StoreInt32(&c.sentinelSeen, 1)
				}
				c.mu.Unlock()
			}
			rec.mu.Unlock()
			got += n
			atomic.AddInt64(&c.bytesTotal, int64(n))
		}
		if err != nil {
			conn.Close()
			rec.mu.Lock()
			rec.done = true
			rec.mu.Unlock()
			return
		}
	}
}

const barrierMark = "BARRIER-CONNECTION"

// processGoroutines counts goroutines currently inside (*OneWayTcpClient).process.
func processGoroutines() int {
	buf := make([]byte, 1<<20)
	for {
		n := runtime.Stack(buf, true)
		if n < len(buf) {
			buf = buf[:n]
			break
		}
		buf = make([]byte, 2*len(buf))
	}
	return strings.Count(string(buf), "oneway.(*OneWayTcpClient).process(")
}

func (c *collector) barrierSeen() bool {
	c.mu.Lock()
	conns := append([]*connRec(nil), c.conns...)
	c.mu.Unlock()
	for _, r := range conns {
		r.mu.Lock()
		ok := r.done && string(r.data) == barrierMark
		r.mu.Unlock()
		if ok {
			return true
		}
	}
	return false
}

func (c *collector) setSentinel(p []byte) {
	c.mu.Lock()
	c.sentinel = append([]byte(nil), p...)
	c.mu.Unlock()
}

// allDrained: every accepted connection has been read to EOF (or was cut by the collector).
// The harness closes the client connection before asking, and no background goroutine is left
// that could open another one, so every connection reaches EOF.
func (c *collector) allDrained() bool {
	c.mu.Lock()
	conns := append([]*connRec(nil), c.conns...)
	c.mu.Unlock()
	for _, r := range conns {
		r.mu.Lock()
		ok := r.done
		r.mu.Unlock()
		if !ok {
			return false
		}
	}
	return true
}

// lastConn returns the record of the connection accepted last (the one a single sequential
// sender is using, or was using before it reconnected).
func (c *collector) lastConn() *connRec {
	c.mu.Lock()
	defer c.mu.Unlock()
	for i := len(c.conns) - 1; i >= 0; i-- {
		return c.conns[i]
	}
	return nil
}

func (r *connRec) wasCut() bool {
	r.mu.Lock()
	defer r.mu.Unlock()
	return r.cutBy && r.done
}

// kill closes every connection still open (the collector process dies).
func (c *collector) kill(rst bool) {
	c.mu.Lock()
	conns := append([]*connRec(nil), c.conns...)
	c.mu.Unlock()
	for _, r := range conns {
		r.mu.Lock()
		d := r.done
		if !d {
			r.cutBy = true
		}
		r.mu.Unlock()
		if !d {
			if tc, ok := r.conn.(*net.TCPConn); ok && rst {
				tc.SetLinger(0)
			}
			r.conn.Close()
		}
	}
}

func (c *collector) port() int {
	_, p, _ := net.SplitHostPort(c.addr)
	n, _ := strconv.Atoi(p)
	return n
}

// clientSocketAlive reports whether the kernel still lists a TCP socket with the given local
// and remote port on loopback in state ESTABLISHED or CLOSE_WAIT (i.e. a socket on which a
// write can still be accepted). Once the peer's reset has been processed the socket is gone
// from the table, and every later write on it fails: that is a fact about the socket, not a
// guess about timing.
func clientSocketAlive(lport, rport int) (alive, readable bool) {
	b, err := os.ReadFile("/proc/net/tcp")
	if err != nil {
		return true, false
	}
	want := fmt.Sprintf(":%04X", lport)
	wantR := fmt.Sprintf(":%04X", rport)
	for _, ln := range strings.Split(string(b), "\n")[1:] {
		f := strings.Fields(ln)
		if len(f) < 4 {
			continue
		}
		if strings.HasSuffix(f[1], want) && strings.HasSuffix(f[2], wantR) && (f[3] == "01" || f[3] == "08") {
			return true, true
		}
	}
	return false, true
}

func (c *collector) down() {
	c.mu.Lock()
	if c.ln != nil {
		c.ln.Close()
		c.ln = nil
	}
	c.mu.Unlock()
}

func (c *collector) up() error {
	c.mu.Lock()
	defer c.mu.Unlock()
	if c.ln != nil || c.closed {
		return nil
	}
	var err error
	for i := 0; i < 200; i++ {
		var ln net.Listener
		ln, err = net.Listen("tcp", c.addr)
		if err == nil {
			c.ln = ln
			c.wg.Add(1)
			go c.acceptLoop(ln)
			return nil
		}
		time.Sleep(5 * time.Millisecond)
	}
	return err
}

// noteRefused is called by a sender when a send failed because it could not connect.
func (c *collector) noteRefused() {
	if atomic.LoadInt32(&c.refuseLeft) > 0 {
		if atomic.AddInt32(&c.refuseLeft, -1) <= 0 {
			c.up()
		}
	}
}

func (c *collector) isDown() bool {
	c.mu.Lock()
	defer c.mu.Unlock()
	return c.ln == nil
}

func (c *collector) close() {
	c.mu.Lock()
	c.closed = true
	if c.ln != nil {
		c.ln.Close()
		c.ln = nil
	}
	c.mu.Unlock()
}

func (c *collector) snapshot() []connSnap {
	c.mu.Lock()
	conns := append([]*connRec(nil), c.conns...)
	c.mu.Unlock()
	var out []connSnap
	for _, r := range conns {
		r.mu.Lock()
		if string(r.data) != barrierMark {
			out = append(out, connSnap{idx: len(out), data: append([]byte(nil), r.data...), cutBy: r.cutBy, done: r.done})
		}
		r.mu.Unlock()
	}
	// connections that never carried a byte at the end (a reconnect during teardown)
	for len(out) > 0 && len(out[len(out)-1].data) == 0 && !out[len(out)-1].cutBy {
		out = out[:len(out)-1]
	}
	return out
}

type connSnap struct {
	idx   int
	data  []byte
	cutBy bool
	done  bool
}

// frame as parsed by the collector's own parser.
type frame struct {
	conn    int
	off     int
	src     byte
	ver     byte
	pcode   int64
	lic     int64
	payload []byte
}

// parseStream splits a connection's bytes into frames. tail = number of trailing bytes that
// do not form a complete frame; bad = a structurally impossible header was met.
func parseStream(conn int, data []byte) (frames []frame, tail int, bad string) {
	off := 0
	for off < len(data) {
		if len(data)-off < 22 {
			return frames, len(data) - off, ""
		}
		h := data[off:]
		ln := int32(binary.BigEndian.Uint32(h[18:22]))
		if ln < 0 || ln > 64<<20 {
			return frames, len(data) - off, fmt.Sprintf("impossible length %d at offset %d", ln, off)
		}
		if len(h) < 22+int(ln) {
			return frames, len(data) - off, ""
		}
		frames = append(frames, frame{conn: conn, off: off, src: h[0], ver: h[1],
			pcode:   int64(binary.BigEndian.Uint64(h[2:10])),
			lic:     int64(binary.BigEndian.Uint64(h[10:18])),
			payload: h[22 : 22+int(ln)]})
		off += 22 + int(ln)
	}
	return frames, 0, ""
}

// ---- client side events ---------------------------------------------------------------

type sendEv struct {
	sender  int
	seq     int
	t0, t1  int64
	err     string
	payload string // expected payload bytes (pack type + body)
	pcode   int64
	lic     int64 // expected license hash
	size    int
	dead    bool // issued after the kernel had dropped the client's socket of a connection the collector closed
}

type scenario struct {
	kind        string
	senders     int
	perSender   int
	gomax       int
	useQueue    bool
	queueSize   int
	bg          bool // start the background drain goroutine
	bigFrames   bool
	schedule    []cut
	singleton   bool
	sendClear   bool
	// lateBg: the background drain is started only once 20 requests are queued, so that it does
	// not begin with its 1.7 s empty-queue nap and is busy while SendAndClear intervenes;
	// clearPauseUs: pause between two SendAndClear calls (0 = tight loop). Pacing only shapes
	// the interleaving; no verdict depends on it.
	lateBg       bool
	// shrinkTo > 0 (queue mode, two phases): the drain goroutine is not started while the first
	// phase fills the queue; then the queue's capacity is lowered to shrinkTo — below the backlog,
	// which is what OneWayTcpClient.ApplyConfig does on a configuration reload with a smaller
	// oneway_queue_size (Queue.SetCapacity) — the drain is started and the second phase sends.
	// Sends refused while the queue is over its new capacity are errors (not accepted); whatever
	// was accepted before or after must arrive once, in order.
	shrinkTo int
	clearPauseUs int
	relicense   bool // change the client's default license between two phases of sends
	poison      bool // now and then a sender hands over a pack whose Write panics half-way
	batchDrain  bool // queue mode without the background goroutine: the caller drains with SendAndClear()
	queueIdleMs int  // queue mode with the drain: the queue stays empty for this long between phases of sends (longer than the drain's own queue wait)
	smallRcv    bool // the collector reads through a small socket receive buffer (writes of big frames block and are cut part-way)
	hugeFrames  bool // frames of 3..7 MiB among the others
	midFrames bool // big frames of 0.3..1.9 MiB (below the write buffer)
	// writeTimeoutMs > 0: the client's write timeout (OneWayTcpClient.Timeout) for the scenario
	writeTimeoutMs int
	spaced      bool // single sender, one cut: after the cut each send waits until the client's socket is seen dead (see clientSocketAlive)
	idleMs      int  // direct mode: client Timeout set to idleMs, connection left idle for longer between two phases
}

// poisonPack is a pack that cannot be encoded: its Write emits a few bytes and panics. Nothing
// of it may reach the wire, and the frames of the packs around it must stay intact.
type poisonPack struct {
	pack.AbstractPack
}

func (p *poisonPack) GetPackType() int16 { return pack.PACK_TEXT }
func (p *poisonPack) Write(o *wio.DataOutputX) {
	p.AbstractPack.Write(o)
	o.WriteDecimal(3)
	o.WriteByte(1)
	o.WriteInt(0x0a000a00)
	panic("poison pack: this pack cannot be encoded")
}
func (p *poisonPack) Read(in *wio.DataInputX) {}

var licenses = []string{"", "x4ab2-lic-default", "라이선스-ключ-🔑", strings.Repeat("L", 300)}

func mkPack(r *vlib.Rand, sender, seq int, big bool) (pack.Pack, int64) {
	id := fmt.Sprintf("ID:%d:%d:", sender, seq)
	pcode := int64(1000+sender) << uint(r.Intn(20))
	if r.Intn(6) == 0 {
		pcode = -pcode
	}
	n := r.Intn(200)
	switch r.Intn(12) {
	case 0:
		n = 0
	case 1:
		n = r.Range(1000, 70000)
	}
	if big && r.Intn(3) == 0 {
		n = r.Range(2*1024*1024-100, 2*1024*1024+70000) // around and above the 2 MiB write buffer
		if hugeFrames && r.Bool() {
			n = r.Range(3<<20, 7<<20) // larger than write buffer and socket buffers together
		}
		if midFrames {
			n = r.Range(300<<10, 1900<<10) // fits the write buffer: leaves the client in Flush, not in Write
		}
	}
	if r.Intn(3) == 0 {
		p := pack.NewLogSinkPack()
		p.Pcode = pcode
		p.Oid = int32(r.I32())
		p.Time = r.I64()
		if r.Bool() {
			p.Okind = int32(r.Intn(5))
			p.Onode = int32(r.Intn(5))
		}
		p.Category = "cat" + id
		p.Content = id + r.AsciiN(n)
		p.Line = int64(seq)
		if r.Bool() {
			p.Tags.PutString("k", id)
		}
		return p, pcode
	}
	p := pack.NewTextPack()
	p.Pcode = pcode
	p.Oid = int32(r.I32())
	p.Time = r.I64()
	if r.Intn(4) == 0 {
		p.Okind = 7
	}
	p.AddText(pack.TextRec{Div: byte(r.Intn(60)), Hash: int32(seq), Text: id + r.AsciiN(n)})
	for k := r.Intn(3); k > 0; k-- {
		p.AddText(pack.TextRec{Div: 1, Hash: r.I32(), Text: r.Str(50)})
	}
	return p, pcode
}

var sendLockHeld int32
var poisonSent int64

func runScenario(c *vlib.Ctx, sc scenario, r *vlib.Rand, label string) {
	old := runtime.GOMAXPROCS(sc.gomax)
	defer runtime.GOMAXPROCS(old)
	hugeFrames = sc.hugeFrames
	midFrames = sc.midFrames
	defer func() { hugeFrames, midFrames = false, false }()
	col, err := newCollector(sc.schedule)
	if err != nil {
		c.Inconclusive(label, "cannot listen on loopback: "+err.Error())
		return
	}
	defer col.close()
	col.mu.Lock()
	col.smallRcv = sc.smallRcv
	col.mu.Unlock()
	defLic := licenses[r.Intn(len(licenses))]
	opts := []oneway.OneWayTcpClientOption{oneway.WithServers([]string{col.addr}), oneway.WithLicense(defLic), oneway.WithPcode(77), oneway.WithOid(5)}
	if sc.useQueue {
		opts = append(opts, oneway.WithUseQueue(), oneway.WithQueueSize(int32(sc.queueSize)))
	}
	var cl *oneway.OneWayTcpClient
	var bgStarted chan struct{} // lateBg: closed once the drain goroutine has been started
	if sc.singleton {
		ctx, cancel := context.WithCancel(context.Background())
		opts = append(opts, oneway.WithContext(ctx, cancel))
		cl = oneway.GetOneWayTcpClient(opts...)
		defer cl.Destroy()
	} else {
		cl = oneway.NewOneWayTcpClientVerif(opts...)
		if sc.bg && !sc.lateBg && sc.shrinkTo == 0 {
			cl.VerifStartProcess()
		}
		if sc.bg && sc.lateBg {
			bgStarted = make(chan struct{})
			go func() {
				for w := 0; w < 4000 && cl.Queue.Size() < 20; w++ {
					time.Sleep(50 * time.Microsecond)
				}
				cl.VerifStartProcess()
				close(bgStarted)
			}()
		}
		defer cl.VerifCancel()
	}
	defer cl.VerifCloseLocked()

	// pre-build all packs (so that generation does not depend on scheduling)
	type item struct {
		p   pack.Pack
		ev  sendEv
		opt []wnet.TcpClientOption
	}
	items := make([][]item, sc.senders)
	total := 0
	newLic := "re-" + defLic + "-licensed"
	for s := 0; s < sc.senders; s++ {
		sr := r.Fork(fmt.Sprint("sender", s))
		for q := 0; q < sc.perSender; q++ {
			p, pcode := mkPack(sr, s, q, sc.bigFrames)
			lic := defLic
			if sc.relicense && q >= sc.perSender/2 {
				lic = newLic
			}
			var opt []wnet.TcpClientOption
			if sr.Intn(3) == 0 {
				lic = fmt.Sprintf("override-%d-%s", s, sr.Ident())
				opt = append(opt, wnet.WithLicense(lic))
			}
			pl := pack.ToBytesPack(p)
			items[s] = append(items[s], item{p: p, opt: opt, ev: sendEv{sender: s, seq: q, payload: string(pl), pcode: pcode,
				lic: refcodec.Hash64([]byte(lic)), size: len(pl) + 22}})
			total++
		}
	}
	start := time.Now()
	var wg sync.WaitGroup
	evs := make([][]sendEv, sc.senders)
	var open int32
	var maxOpen int32
	stopClear := make(chan struct{})
	var clearCalls int64
	if sc.sendClear {
		wg.Add(1)
		go func() {
			defer wg.Done()
			for {
				select {
				case <-stopClear:
					return
				default:
					cl.SendAndClear()
					atomic.AddInt64(&clearCalls, 1)
					if sc.clearPauseUs > 0 {
						time.Sleep(time.Duration(sc.clearPauseUs) * time.Microsecond)
					}
					runtime.Gosched()
				}
			}
		}()
	}
	var swg sync.WaitGroup
	sentSinceCut := false // spaced scenarios have one sender: plain variable
	phases := [][2]int{{0, sc.perSender}}
	if sc.writeTimeoutMs > 0 {
		cl.Timeout = time.Duration(sc.writeTimeoutMs) * time.Millisecond
	}
	if sc.idleMs > 0 {
		cl.Timeout = time.Duration(sc.idleMs) * time.Millisecond
		phases = [][2]int{{0, sc.perSender / 2}, {sc.perSender / 2, sc.perSender}}
	}
	if sc.relicense {
		phases = [][2]int{{0, sc.perSender / 2}, {sc.perSender / 2, sc.perSender}}
	}
	if sc.shrinkTo > 0 {
		phases = [][2]int{{0, sc.perSender / 2}, {sc.perSender / 2, sc.perSender}}
	}
	if sc.queueIdleMs > 0 {
		a, b := sc.perSender/3, 2*sc.perSender/3
		phases = [][2]int{{0, a}, {a, b}, {b, sc.perSender}}
	}
	for pi, ph := range phases {
		if pi > 0 && sc.queueIdleMs > 0 {
			// let the drain goroutine sit through at least one full queue wait with nothing queued
			for w := 0; w < 5000 && cl.Queue.Size() > 0; w++ {
				time.Sleep(time.Millisecond)
			}
			time.Sleep(time.Duration(sc.queueIdleMs) * time.Millisecond)
			c.Count("queue_idle_periods", 1)
		}
		if pi == 1 && sc.shrinkTo > 0 {
			c.Count("queue_shrunk_below_backlog", 1)
			c.Max("max_backlog_at_shrink", int64(cl.Queue.Size()))
			cl.Queue.SetCapacity(sc.shrinkTo)
			if r.Intn(2) == 0 {
				cl.SendAndClear() // the caller-driven drain empties the backlog first
			}
			cl.VerifStartProcess()
		}
		if pi == 1 && sc.relicense {
			// no send is in flight: the default license changes (what a configuration reload does)
			cl.License = newLic
		}
		if pi == 1 && sc.idleMs > 0 {
			// the healthy connection stays idle for longer than the client's write timeout
			time.Sleep(time.Duration(sc.idleMs)*time.Millisecond + 300*time.Millisecond)
		}
		for s := 0; s < sc.senders; s++ {
			swg.Add(1)
			go func(s int, lo, hi int) {
				defer swg.Done()
				for q := lo; q < hi; q++ {
					it := &items[s][q]
					o := atomic.AddInt32(&open, 1)
					for {
						m := atomic.LoadInt32(&maxOpen)
						if o <= m || atomic.CompareAndSwapInt32(&maxOpen, m, o) {
							break
						}
					}
					if sc.poison && (s+q)%7 == 3 {
						pp := &poisonPack{}
						pp.Pcode = 4711
						vlib.Catch(func() { cl.SendFlush(pp, q%2 == 0) })
						atomic.AddInt64(&poisonSent, 1)
					}
					if sc.spaced {
						if rec := col.lastConn(); rec != nil && rec.wasCut() {
							// the collector closed this connection. After a FIN the client's socket
							// lives on (CLOSE_WAIT) until its next write draws a reset; after a reset
							// it is gone. Wait (bounded) for it to go; if it does, this send is
							// judged: it can no longer be written to that socket.
							for w := 0; w < 400; w++ {
								alive, ok := clientSocketAlive(rec.rport, col.port())
								if !ok {
									break
								}
								if !alive {
									it.ev.dead = true
									atomic.AddInt64(&deadJudged, 1)
									break
								}
								if w >= 100 && !sentSinceCut {
									break // FIN: nothing happens before the next write
								}
								time.Sleep(time.Millisecond)
							}
							sentSinceCut = true
						}
					}
					it.ev.t0 = int64(time.Since(start))
					var e error
					if q%2 == 0 {
						e = cl.Send(it.p, it.opt...)
					} else {
						e = cl.SendFlush(it.p, true, it.opt...)
					}
					it.ev.t1 = int64(time.Since(start))
					atomic.AddInt32(&open, -1)
					if e != nil {
						it.ev.err = e.Error()
						if strings.Contains(it.ev.err, "cannot connect") {
							col.noteRefused()
						}
					}
					evs[s] = append(evs[s], it.ev)
					if (s+q)%3 == 0 {
						runtime.Gosched()
					}
				}
			}(s, ph[0], ph[1])
		}
		swg.Wait()
	}

	// recovery probe (fault scenarios, direct mode): after the schedule is exhausted keep
	// sending until a send is acknowledged AND received.
	faulty := len(sc.schedule) > 0
	if faulty && sc.useQueue {
		atomic.StoreInt32(&col.faultsOff, 1) // no further cuts: the sentinel below must get through
	}
	var probeEvs []sendEv
	recovered := !faulty
	if faulty && !sc.useQueue {
		atomic.StoreInt32(&col.faultsOff, 1)
		atomic.StoreInt32(&col.refuseLeft, 0)
		col.up()
		pr := r.Fork("probe")
		for k := 0; k < 200 && !recovered; k++ {
			p, pcode := mkPack(pr, 1000, k, false)
			pl := pack.ToBytesPack(p)
			ev := sendEv{sender: 1000, seq: k, payload: string(pl), pcode: pcode, lic: refcodec.Hash64([]byte(defLic)), size: len(pl) + 22}
			before := atomic.LoadInt64(&col.frames)
			ev.t0 = int64(time.Since(start))
			e := cl.SendFlush(p, true)
			ev.t1 = int64(time.Since(start))
			if e != nil {
				ev.err = e.Error()
			}
			probeEvs = append(probeEvs, ev)
			if e == nil {
				// wait (bounded) for a frame to arrive
				for w := 0; w < 2000; w++ {
					if atomic.LoadInt64(&col.frames) > before {
						recovered = true
						break
					}
					time.Sleep(time.Millisecond)
				}
			} else {
				if col.isDown() {
					col.up()
				}
				time.Sleep(time.Millisecond)
			}
		}
		// a few more sends after recovery: all must arrive
		if recovered {
			for k := 0; k < 5; k++ {
				p, pcode := mkPack(pr, 1000, 1000+k, false)
				pl := pack.ToBytesPack(p)
				ev := sendEv{sender: 1000, seq: 1000 + k, payload: string(pl), pcode: pcode, lic: refcodec.Hash64([]byte(defLic)), size: len(pl) + 22}
				ev.t0 = int64(time.Since(start))
				e := cl.SendFlush(p, true)
				ev.t1 = int64(time.Since(start))
				if e != nil {
					ev.err = e.Error()
				}
				probeEvs = append(probeEvs, ev)
			}
		}
	}
	if bgStarted != nil {
		<-bgStarted // the teardown below relies on the drain goroutine existing
	}
	if sc.sendClear {
		if sc.lateBg {
			// the senders are done; let drain and SendAndClear compete for what is still queued
			for w := 0; w < 4000 && cl.Queue.Size() > 0; w++ {
				time.Sleep(250 * time.Microsecond)
			}
		}
		close(stopClear)
	}
	wg.Wait()
	if sc.sendClear {
		c.Count("send_and_clear_calls/"+sc.kind, atomic.LoadInt64(&clearCalls))
	}

	// ---- wait for quiescence of the collector --------------------------------------
	var all []sendEv
	for s := range evs {
		all = append(all, evs[s]...)
	}
	all = append(all, probeEvs...)
	acked := 0
	for _, e := range all {
		if e.err == "" {
			acked++
		}
	}
	// Teardown is decided by protocol events, not by idle time: in queue mode a sentinel
	// pack is enqueued last and awaited (the single drain goroutine is FIFO, so everything
	// accepted before it has been written when it arrives); then the client closes its
	// connection and the collector reads every connection to EOF (TCP delivers all bytes
	// written before the FIN). Only the generous watchdogs are wall-clock; they yield
	// "inconclusive".
	if sc.useQueue {
		sp := pack.NewTextPack()
		sp.Pcode = 4242
		sp.AddText(pack.TextRec{Div: 1, Hash: 1, Text: "SENTINEL:" + label})
		spl := pack.ToBytesPack(sp)
		col.setSentinel(spl)
		deadline := time.Now().Add(120 * time.Second)
		if sc.batchDrain {
			// no background goroutine: the caller drains what the senders enqueued
			for cl.Queue.Size() > 0 {
				if e := cl.SendAndClear(); e != nil {
					c.Inconclusive(label, "SendAndClear on a healthy connection failed: "+e.Error())
					return
				}
			}
		}
		for cl.SendFlush(sp, true) != nil {
			if time.Now().After(deadline) {
				c.Inconclusive(label, "sentinel could not be enqueued within 120 s")
				return
			}
			time.Sleep(2 * time.Millisecond)
		}
		if sc.batchDrain {
			cl.SendAndClear()
		}
		noDrain := 0
		for w := 0; atomic.LoadInt32(&col.sentinelSeen) == 0; w++ {
			if time.Now().After(deadline) {
				c.Inconclusive(label, fmt.Sprintf("sentinel not received within 120 s (queue size %d)", cl.Queue.Size()))
				return
			}
			if w%250 == 249 && !sc.batchDrain && (sc.bg || sc.singleton) {
				// the queue is drained by the client's background goroutine; if the process has
				// no such goroutine, what was accepted can never leave: a fact, not a timeout
				if processGoroutines() == 0 && cl.Queue.Size() > 0 {
					noDrain++
				} else {
					noDrain = 0
				}
				if noDrain >= 3 {
					c.Fail("loss:queue-never-drained/"+sc.kind, fmt.Sprintf("%d packs were accepted into the queue (Send returned nil) but the process has no background drain goroutine: they can never reach the collector", cl.Queue.Size()),
						map[string]interface{}{"scenario": fmt.Sprintf("%+v", sc), "label": label, "queue_size": cl.Queue.Size()})
					return
				}
			}
			time.Sleep(2 * time.Millisecond)
		}
		all = append(all, sendEv{sender: -1, seq: 0, payload: string(spl), pcode: 4242, lic: refcodec.Hash64([]byte(defLic)), t0: 1 << 62, t1: 1 << 62})
		acked++
	}
	cl.VerifCancel()
	if sc.singleton {
		cl.Destroy()
	}
	if sc.bg || sc.singleton || sc.useQueue {
		// The background goroutine reconnects whenever it finds the connection closed. Wait
		// until it has really exited (it polls its queue with sleeps of up to 1.7 s; a dummy
		// element wakes the poll) so that no stray connection can appear during teardown.
		cl.Queue.PutForce("wake-up")
		deadline := time.Now().Add(120 * time.Second)
		for processGoroutines() > 0 {
			if time.Now().After(deadline) {
				c.Inconclusive(label, "background goroutine did not exit within 120 s after its context was cancelled")
				return
			}
			time.Sleep(5 * time.Millisecond)
		}
	}
	cl.VerifCloseLocked()
	{
		// barrier: the accept queue is FIFO, so once the collector has accepted this marker
		// connection it has accepted every connection the client ever established.
		atomic.StoreInt32(&col.faultsOff, 1)
		atomic.StoreInt32(&col.refuseLeft, 0)
		col.up()
		deadline := time.Now().Add(120 * time.Second)
		bc, berr := net.Dial("tcp", col.addr)
		if berr != nil {
			c.Inconclusive(label, "barrier connection failed: "+berr.Error())
			return
		}
		bc.Write([]byte(barrierMark))
		bc.Close()
		for !col.barrierSeen() || !col.allDrained() {
			if time.Now().After(deadline) {
				c.Inconclusive(label, "collector did not read every connection to EOF within 120 s")
				return
			}
			time.Sleep(time.Millisecond)
		}
	}
	snaps := col.snapshot()

	// ---- oracles -------------------------------------------------------------------
	detail := func(extra map[string]interface{}) map[string]interface{} {
		d := map[string]interface{}{"scenario": fmt.Sprintf("%+v", sc), "label": label, "connections": len(snaps), "sends": len(all), "acked": acked}
		for k, v := range extra {
			d[k] = v
		}
		return d
	}
	byPayload := map[string]*sendEv{}
	for i := range all {
		byPayload[all[i].payload] = &all[i]
	}
	type arrival struct {
		ev   *sendEv
		conn int
		off  int
	}
	var arrivals []arrival
	seen := map[string]int{}
	kindKey := sc.kind
	truncTails := 0
	for _, sn := range snaps {
		frames, tail, bad := parseStream(sn.idx, sn.data)
		if bad != "" {
			c.Fail("stream:malformed-header/"+kindKey, "a connection's byte stream does not parse into frames: "+bad,
				detail(map[string]interface{}{"conn": sn.idx, "around": vlib.Hex(sn.data[maxi(0, len(sn.data)-tail-8):mini(len(sn.data), len(sn.data)-tail+40)])}))
		}
		if tail > 0 {
			truncTails++
			last := sn.idx == len(snaps)-1
			if !faulty || (last && !sn.cutBy && recovered) {
				c.Fail("stream:truncated-frame-on-healthy-connection/"+kindKey, "a connection that was never cut ends in a partial frame",
					detail(map[string]interface{}{"conn": sn.idx, "tail_bytes": tail}))
			}
		}
		for _, f := range frames {
			ev := byPayload[string(f.payload)]
			if ev == nil {
				c.Fail("frame:not-a-sent-pack/"+kindKey, "a received frame's payload is not the encoding of any pack that was sent (split, interleaved or corrupted frame)",
					detail(map[string]interface{}{"conn": f.conn, "off": f.off, "payload": vlib.Hex(f.payload)}))
				continue
			}
			if p := vlib.Catch(func() { pack.ToPack(f.payload) }); p != nil {
				c.Fail("frame:undecodable/"+kindKey, fmt.Sprintf("received payload does not decode: %v", p), detail(nil))
			}
			if f.src != 10 || f.ver != 0 {
				c.Fail("frame:source-or-version-byte/"+kindKey, fmt.Sprintf("frame starts with %d,%d instead of 10,0", f.src, f.ver), detail(nil))
			}
			if f.pcode != ev.pcode {
				c.Fail("frame:wrong-project-code/"+kindKey, fmt.Sprintf("frame carries project code %d, the pack has %d", f.pcode, ev.pcode), detail(map[string]interface{}{"sender": ev.sender, "seq": ev.seq}))
			}
			if f.lic != ev.lic {
				c.Fail("frame:wrong-license-hash/"+kindKey, fmt.Sprintf("frame carries license hash %d, expected %d (hash of the license in effect for that send)", f.lic, ev.lic), detail(map[string]interface{}{"sender": ev.sender, "seq": ev.seq}))
			}
			seen[ev.payload]++
			if seen[ev.payload] == 2 {
				c.Fail("frame:duplicated/"+kindKey, "the same pack was received twice", detail(map[string]interface{}{"sender": ev.sender, "seq": ev.seq}))
			}
			arrivals = append(arrivals, arrival{ev, f.conn, f.off})
		}
	}
	// order
	lastSeq := map[int]int{}
	var maxT0 int64 = -1
	var maxT0ev *sendEv
	for _, a := range arrivals {
		if ls, ok := lastSeq[a.ev.sender]; ok && a.ev.seq <= ls {
			c.Fail("order:per-sender/"+kindKey, "packs of one sender arrived out of the order they were sent",
				detail(map[string]interface{}{"sender": a.ev.sender, "seq": a.ev.seq, "after_seq": ls}))
		}
		lastSeq[a.ev.sender] = a.ev.seq
		if maxT0ev != nil && a.ev.t1 < maxT0 {
			c.Fail("order:real-time/"+kindKey, "a send that had returned before another was called arrived after it",
				detail(map[string]interface{}{"late": fmt.Sprintf("%d/%d returned@%d", a.ev.sender, a.ev.seq, a.ev.t1), "early": fmt.Sprintf("%d/%d called@%d", maxT0ev.sender, maxT0ev.seq, maxT0)}))
		}
		if a.ev.t0 > maxT0 {
			maxT0, maxT0ev = a.ev.t0, a.ev
		}
	}
	// loss
	lostAcked, lostAckedOnCut := 0, 0
	if !faulty {
		for i := range all {
			e := &all[i]
			if e.err != "" && !sc.useQueue && e.sender >= 0 {
				c.Fail("send:error-on-healthy-connection/"+kindKey, "a send on a connection that the collector never cut returned an error: "+e.err,
					detail(map[string]interface{}{"sender": e.sender, "seq": e.seq}))
			}
			if e.err == "" && seen[e.payload] == 0 {
				lostAcked++
				c.Fail("loss:healthy-connection/"+kindKey, "a send acknowledged with nil on a healthy connection never reached the collector",
					detail(map[string]interface{}{"sender": e.sender, "seq": e.seq, "size": e.size}))
			}
		}
		if len(snaps) != 1 && !sc.singleton {
			c.Fail("connection:reconnect-without-fault/"+kindKey, fmt.Sprintf("%d connections were opened in a fault-free scenario", len(snaps)), detail(nil))
		}
	} else if !sc.useQueue {
		if !recovered {
			c.Fail("recovery:no-progress/"+kindKey, "after the faults stopped, 200 further sends did not get one pack through although the collector was accepting connections",
				detail(map[string]interface{}{"probe_errors": errSummary(probeEvs)}))
		} else {
			// every nil-acknowledged send after the first arrival on the final connection must arrive
			final := len(snaps) - 1
			firstFinal := int64(-1)
			for _, a := range arrivals {
				if a.conn == final {
					firstFinal = a.ev.t1
					break
				}
			}
			for i := range all {
				e := &all[i]
				if e.err == "" && seen[e.payload] == 0 && e.dead {
					c.Fail("loss:unreported-on-dead-connection/"+kindKey, "a send issued after the kernel had already dropped the client's socket (the collector had closed the connection and its reset had been processed) returned nil, and the pack never arrived: the failed write was detectable and was not reported",
						detail(map[string]interface{}{"sender": e.sender, "seq": e.seq}))
					continue
				}
				if e.err == "" && seen[e.payload] == 0 {
					if firstFinal >= 0 && e.t0 > firstFinal && !snaps[final].cutBy {
						c.Fail("loss:after-recovery/"+kindKey, "a send acknowledged after the client had reconnected to a healthy collector never arrived",
							detail(map[string]interface{}{"sender": e.sender, "seq": e.seq}))
					} else {
						lostAckedOnCut++
					}
				}
			}
		}
	}
	// ---- evidence ------------------------------------------------------------------
	c.Count("scenarios/"+sc.kind, 1)
	c.Count("sends", int64(len(all)))
	c.Count("sends_acked", int64(acked))
	c.Count("sends_error", int64(len(all)-acked))
	if sc.useQueue {
		c.Count("queue_full_rejections/"+sc.kind, int64(len(all)-acked))
	}
	c.Count("frames_received", int64(len(arrivals)))
	c.Count("connections", int64(len(snaps)))
	c.Count("cuts_executed", int64(atomic.LoadInt32(&col.cutsDone)))
	c.Count("stalls_executed/"+sc.kind, int64(atomic.LoadInt32(&col.stallsDone)))
	c.Count("truncated_tails_on_cut_connections", int64(truncTails))
	c.Count("acked_but_lost_on_cut_connection", int64(lostAckedOnCut))
	c.Max("max_open_sends", int64(maxOpen))
	if faulty && recovered {
		c.Count("recoveries_observed", 1)
	}
	for _, ct := range sc.schedule {
		c.SetAdd("cut_offset_classes", cutClass(ct, items))
	}
	// distinct interleavings: the arrival order projected on sender ids
	var sb strings.Builder
	for _, a := range arrivals {
		fmt.Fprintf(&sb, "%d,", a.ev.sender)
	}
	fmt.Fprintf(&sb, "|%s|%v", sc.kind, sc.schedule)
	c.DistinctStr(sb.String())
	if sc.senders > 1 {
		c.Count("multi_sender_scenarios", 1)
	}
	if c.WantSample() {
		var first []string
		for i, a := range arrivals {
			if i >= 12 {
				break
			}
			first = append(first, fmt.Sprintf("conn%d@%d sender%d#%d", a.conn, a.off, a.ev.sender, a.ev.seq))
		}
		c.Sample(map[string]interface{}{"scenario": fmt.Sprintf("%+v", sc), "sends": len(all), "acked": acked, "errors": errSummary(all),
			"connections": len(snaps), "frames": len(arrivals), "first_arrivals": first})
	}
}

func errSummary(evs []sendEv) map[string]int {
	m := map[string]int{}
	for _, e := range evs {
		if e.err != "" {
			k := e.err
			if i := strings.Index(k, ":"); i > 0 {
				k = k[:i]
			}
			m[k]++
		}
	}
	return m
}

func cutClass(ct cut, items interface{}) string {
	mode := "FIN"
	if ct.RST {
		mode = "RST"
	}
	return fmt.Sprintf("%s/refuse%d", mode, ct.Refuse)
}

func streamContains(col *collector, payload []byte) bool {
	for _, sn := range col.snapshot() {
		if bytes.Contains(sn.data, payload) {
			return true
		}
	}
	return false
}

func countFrames(col *collector) int {
	n := 0
	for _, sn := range col.snapshot() {
		fr, _, _ := parseStream(sn.idx, sn.data)
		n += len(fr)
	}
	return n
}

func maxi(a, b int) int {
	if a > b {
		return a
	}
	return b
}
func mini(a, b int) int {
	if a < b {
		return a
	}
	return b
}

// ---- scenario generation ---------------------------------------------------------------

var gomaxes = []int{1, 2, 4, 16}

var deadJudged int64

// hugeFrames is set by the scenario being run (scenarios of one child run one after the other).
var hugeFrames bool

// midFrames: the big frames of the scenario are 0.3..1.9 MiB (set like hugeFrames).
var midFrames bool

// frameSizes predicts the sizes of the frames sender 0 will send (same PRNG forks as runScenario).
func cutPoints(r *vlib.Rand, i int) []cut {
	// The header is 22 bytes. Small packs are 40..300 bytes. Enumerate: offset inside the first
	// frame header (0..22), just around typical boundaries, and deeper offsets.
	nCuts := 1 + r.Intn(3)
	var s []cut
	for k := 0; k < nCuts; k++ {
		var after int
		switch (i + k) % 4 {
		case 0:
			after = (i / 4) % 24 // every offset of the frame header incl. 0 and 22
		case 1:
			after = 22 + r.Intn(60) // inside the first body
		case 2:
			after = r.Range(60, 3000) // some frames in
		default:
			after = r.Range(0, 20000)
		}
		s = append(s, cut{After: after, RST: r.Bool(), Refuse: []int{0, 1, 2, 5}[r.Intn(4)]})
	}
	return s
}

// failoverScenario: a client with several listed servers, which go down and come back between
// phases of sends (a server going down also drops its open connection). Judged: frames that
// arrive anywhere are whole and unduplicated, and once the changes stop with at least one
// listed server accepting connections, a later send gets through ("the client reconnects on a
// later send"), whichever position that server has in the list and whatever the history was.
func failoverScenario(c *vlib.Ctx, r *vlib.Rand, i int, label string) {
	old := runtime.GOMAXPROCS(gomaxes[i%4])
	defer runtime.GOMAXPROCS(old)
	n := r.Range(2, 3)
	cols := make([]*collector, n)
	var addrs []string
	for k := range cols {
		col, err := newCollector(nil)
		if err != nil {
			c.Inconclusive(label, "cannot listen on loopback: "+err.Error())
			return
		}
		defer col.close()
		cols[k] = col
		addrs = append(addrs, col.addr)
	}
	cl := oneway.NewOneWayTcpClientVerif(oneway.WithServers(addrs), oneway.WithLicense("failover"), oneway.WithPcode(77), oneway.WithOid(5))
	defer cl.VerifCancel()
	defer cl.VerifCloseLocked()
	phases := r.Range(2, 5)
	var hist []string
	var all []sendEv
	seq := 0
	upSet := func(final bool) []bool {
		for {
			u := make([]bool, n)
			any := false
			for k := range u {
				u[k] = r.Intn(2) == 0
				any = any || u[k]
			}
			if any || (!final && r.Intn(4) == 0) {
				return u
			}
		}
	}
	send := func(k int) (sendEv, error) {
		p, pcode := mkPack(r, 0, seq, false)
		pl := pack.ToBytesPack(p)
		ev := sendEv{sender: 0, seq: seq, payload: string(pl), pcode: pcode, size: len(pl) + 22}
		seq++
		e := cl.SendFlush(p, true)
		if e != nil {
			ev.err = e.Error()
		}
		all = append(all, ev)
		return ev, e
	}
	received := func() int64 {
		var t int64
		for _, col := range cols {
			t += atomic.LoadInt64(&col.frames)
		}
		return t
	}
	var up []bool
	for ph := 0; ph < phases; ph++ {
		final := ph == phases-1
		up = upSet(final)
		for k, col := range cols {
			if up[k] {
				if err := col.up(); err != nil {
					c.Inconclusive(label, "cannot listen again: "+err.Error())
					return
				}
			} else {
				col.down()
				col.kill(r.Bool())
			}
		}
		hist = append(hist, fmt.Sprint(up))
		if final {
			break
		}
		for k := r.Range(1, 8); k > 0; k-- {
			send(k)
		}
	}
	// the changes have stopped; at least one listed server is up
	recovered := false
	tries := 0
	for ; tries < 200 && !recovered; tries++ {
		before := received()
		if _, e := send(0); e == nil {
			for w := 0; w < 2000; w++ {
				if received() > before {
					recovered = true
					break
				}
				time.Sleep(time.Millisecond)
			}
		} else {
			time.Sleep(time.Millisecond)
		}
	}
	detail := map[string]interface{}{"servers": n, "up_sets_per_phase": hist, "final_up": fmt.Sprint(up), "probe_errors": errSummary(all)}
	if !recovered {
		c.Fail("recovery:no-progress/failover", fmt.Sprintf("after the servers stopped changing, %d further sends did not get one pack through although a listed server was accepting connections", tries), detail)
		return
	}
	var after []sendEv
	for k := 0; k < 5; k++ {
		ev, _ := send(0)
		after = append(after, ev)
	}
	cl.VerifCloseLocked()
	// read everything to EOF (barrier connection per collector that is up)
	deadline := time.Now().Add(120 * time.Second)
	for k, col := range cols {
		if !up[k] {
			continue
		}
		bc, berr := net.Dial("tcp", col.addr)
		if berr != nil {
			c.Inconclusive(label, "barrier connection failed: "+berr.Error())
			return
		}
		bc.Write([]byte(barrierMark))
		bc.Close()
		for !col.barrierSeen() || !col.allDrained() {
			if time.Now().After(deadline) {
				c.Inconclusive(label, "collector did not read every connection to EOF within 120 s")
				return
			}
			time.Sleep(time.Millisecond)
		}
	}
	byPayload := map[string]*sendEv{}
	for k := range all {
		byPayload[all[k].payload] = &all[k]
	}
	seen := map[string]int{}
	frames := 0
	for k, col := range cols {
		for _, sn := range col.snapshot() {
			fs, _, bad := parseStream(sn.idx, sn.data)
			if bad != "" {
				c.Fail("stream:malformed-header/failover", "a connection's byte stream does not parse into frames: "+bad, detail)
			}
			for _, f := range fs {
				frames++
				ev := byPayload[string(f.payload)]
				if ev == nil {
					c.Fail("frame:not-a-sent-pack/failover", "a received frame's payload is not the encoding of any pack that was sent", detail)
					continue
				}
				seen[ev.payload]++
				if seen[ev.payload] == 2 {
					c.Fail("frame:duplicated/failover", fmt.Sprintf("the same pack was received twice (server %d)", k), detail)
				}
			}
		}
	}
	for _, ev := range after {
		if ev.err != "" {
			c.Fail("send:error-after-recovery/failover", "a send after the client had reconnected to a healthy server returned an error: "+ev.err, detail)
		} else if seen[ev.payload] == 0 {
			c.Fail("loss:after-recovery/failover", "a send acknowledged after the client had reconnected to a healthy server never arrived", detail)
		}
	}
	c.Count("failover_histories", 1)
	c.Count("scenarios/failover", 1)
	c.Count("sends", int64(len(all)))
	c.Count("frames_received", int64(frames))
	c.Count("recoveries_observed", 1)
	first := -1
	for k := range up {
		if up[k] && first < 0 {
			first = k
		}
	}
	c.SetAdd("failover_final_first_up_position", fmt.Sprintf("%d-of-%d", first, n))
	c.DistinctStr("failover|" + strings.Join(hist, ";"))
	if c.WantSample() && i < 2 {
		c.Sample(map[string]interface{}{"scenario": "failover", "servers": n, "up_sets_per_phase": hist, "sends": len(all), "frames": frames, "tries_until_recovered": tries})
	}
}

func main() {
	c := vlib.Start("C06")
	isRace := c.Flavour == "race"
	scale := func(q, t int) int {
		n := c.N(q, t)
		if isRace {
			n = n/3 + 1
		}
		return n
	}
	c.Cases("healthy-single", scale(24, 400), func(i int, r *vlib.Rand) {
		runScenario(c, scenario{kind: "healthy-single", senders: 1, perSender: r.Range(50, 400), gomax: gomaxes[i%4]}, r, fmt.Sprint("healthy-single#", i))
	})
	c.Cases("healthy-multi", scale(40, 800), func(i int, r *vlib.Rand) {
		runScenario(c, scenario{kind: "healthy-multi", senders: r.Range(2, 32), perSender: r.Range(20, 120), gomax: gomaxes[i%4], poison: i%3 == 1}, r, fmt.Sprint("healthy-multi#", i))
	})
	c.Cases("healthy-relicense", scale(12, 200), func(i int, r *vlib.Rand) {
		runScenario(c, scenario{kind: "healthy-relicense", senders: r.Range(1, 8), perSender: r.Range(10, 80), gomax: gomaxes[i%4], relicense: true, bg: i%3 == 0}, r, fmt.Sprint("healthy-relicense#", i))
	})
	c.Cases("healthy-big", scale(6, 60), func(i int, r *vlib.Rand) {
		runScenario(c, scenario{kind: "healthy-big", senders: r.Range(1, 4), perSender: r.Range(4, 10), gomax: gomaxes[i%4], bigFrames: true}, r, fmt.Sprint("healthy-big#", i))
	})
	c.Cases("queue-mode", scale(8, 120), func(i int, r *vlib.Rand) {
		runScenario(c, scenario{kind: "queue-mode", senders: r.Range(1, 8), perSender: r.Range(20, 100), gomax: gomaxes[i%4], useQueue: true, queueSize: []int{0, 1000, 5000}[r.Intn(3)], bg: true}, r, fmt.Sprint("queue-mode#", i))
	})
	c.Cases("fault-single", scale(192, 3000), func(i int, r *vlib.Rand) {
		runScenario(c, scenario{kind: "fault-single", senders: 1, perSender: r.Range(20, 80), gomax: gomaxes[i%4], schedule: cutPoints(r, i)}, r, fmt.Sprint("fault-single#", i))
	})
	c.Cases("fault-multi", scale(48, 800), func(i int, r *vlib.Rand) {
		runScenario(c, scenario{kind: "fault-multi", senders: r.Range(2, 12), perSender: r.Range(10, 40), gomax: gomaxes[i%4], schedule: cutPoints(r, i)}, r, fmt.Sprint("fault-multi#", i))
	})
	// queue mode with SendAndClear() called concurrently with the background drain
	// (round 7: 6 → 36 scenarios of up to 400 sends per sender; the window in which the drain
	// holds a request it has looked at but not yet taken, while SendAndClear empties the queue,
	// is a few instructions wide)
	// the same with a drain that starts on a filled queue and a paced SendAndClear, so that both
	// really work on the queue at the same time (added after seeded change C06r7-2: the drain
	// looked at the head request, sent it, and only then removed "the head")
	c.Cases("queue-sendclear-busy", scale(40, 400), func(i int, r *vlib.Rand) {
		runScenario(c, scenario{kind: "queue-sendclear", senders: r.Range(1, 6), perSender: r.Range(150, 600), gomax: gomaxes[(i+1)%4], useQueue: true, queueSize: 0, bg: true, sendClear: true,
			lateBg: true, clearPauseUs: []int{0, 20, 100, 400, 1500}[r.Intn(5)]}, r, fmt.Sprint("queue-sendclear-busy#", i))
	})
	c.Cases("queue-sendclear", scale(36, 400), func(i int, r *vlib.Rand) {
		runScenario(c, scenario{kind: "queue-sendclear", senders: r.Range(1, 6), perSender: r.Range(40, 400), gomax: gomaxes[(i+3)%4], useQueue: true, queueSize: 0, bg: true, sendClear: true}, r, fmt.Sprint("queue-sendclear#", i))
	})
	// a client that has never been connected (collector down at start-up): flushing must fail
	// or do nothing, not crash the process; once the collector is up the packs get through
	c.Cases("never-connected", scale(4, 40), func(i int, r *vlib.Rand) {
		label := fmt.Sprint("never-connected#", i)
		col, err := newCollector(nil)
		if err != nil {
			c.Inconclusive(label, err.Error())
			return
		}
		defer col.close()
		col.down()
		opts := []oneway.OneWayTcpClientOption{oneway.WithServers([]string{col.addr}), oneway.WithLicense("lic")}
		useQ := i%2 == 0
		if useQ {
			opts = append(opts, oneway.WithUseQueue())
		}
		cl := oneway.NewOneWayTcpClientVerif(opts...)
		defer cl.VerifCloseLocked()
		p, _ := mkPack(r, 0, 0, false)
		if pv := vlib.Catch(func() {
			cl.Send(p)
			cl.SendAndClear()
			cl.SendFlush(p, true)
		}); pv != nil {
			c.Fail("never-connected:panic", fmt.Sprintf("sending/flushing on a client whose first connect failed panics: %v", pv), map[string]interface{}{"queue_mode": useQ})
		}
		col.up()
		q, _ := mkPack(r, 0, 1, false)
		pl := pack.ToBytesPack(q)
		var e error
		if pv := vlib.Catch(func() {
			e = cl.SendFlush(q, true)
			if useQ {
				e = cl.SendAndClear()
			}
		}); pv != nil {
			c.Fail("never-connected:panic", fmt.Sprintf("sending after the collector came up panics: %v", pv), map[string]interface{}{"queue_mode": useQ})
			return
		}
		if e != nil {
			c.Fail("never-connected:no-connect-on-later-send", "the collector is up but the send still fails: "+e.Error(), map[string]interface{}{"queue_mode": useQ})
			return
		}
		cl.VerifCloseLocked()
		deadline := time.Now().Add(60 * time.Second)
		for !streamContains(col, pl) {
			if time.Now().After(deadline) {
				c.Inconclusive(label, "pack not seen within 60 s")
				return
			}
			time.Sleep(time.Millisecond)
		}
		c.Count("scenarios/never-connected", 1)
	})
	// queue mode with the background drain and a collector that cuts connections: whole frames
	// may be lost, but what arrives must be well-formed, unduplicated and in accepted order
	c.Cases("queue-fault", scale(12, 200), func(i int, r *vlib.Rand) {
		sch := cutPoints(r, i)
		for k := range sch {
			sch[k].Refuse = 0 // a refused reconnect parks the drain for 5 s
		}
		runScenario(c, scenario{kind: "queue-fault", senders: r.Range(1, 6), perSender: r.Range(20, 80), gomax: gomaxes[i%4], useQueue: true, queueSize: 0, bg: true, schedule: sch}, r, fmt.Sprint("queue-fault#", i))
	})
	// queue mode drained by the caller (no background goroutine), frames around the 2 MiB buffer
	c.Cases("queue-batch-drain", scale(8, 100), func(i int, r *vlib.Rand) {
		runScenario(c, scenario{kind: "queue-batch-drain", senders: r.Range(1, 4), perSender: r.Range(4, 30), gomax: gomaxes[i%4], useQueue: true, queueSize: 0, batchDrain: true, bigFrames: i%2 == 0}, r, fmt.Sprint("queue-batch-drain#", i))
	})
	// a healthy connection that stays idle for longer than the client's write timeout
	c.Cases("healthy-idle", scale(3, 24), func(i int, r *vlib.Rand) {
		runScenario(c, scenario{kind: "healthy-idle", senders: r.Range(1, 3), perSender: 10, gomax: gomaxes[i%4], idleMs: 1500}, r, fmt.Sprint("healthy-idle#", i))
	})
	// queue mode with a queue far smaller than the bursts: sends are refused while it is full;
	// whatever was accepted (nil) must still arrive exactly once, in order
	c.Cases("queue-shrink", scale(8, 120), func(i int, r *vlib.Rand) {
		senders, per := r.Range(1, 4), 2*r.Range(4, 30)
		backlog := senders * per / 2
		runScenario(c, scenario{kind: "queue-shrink", senders: senders, perSender: per, gomax: gomaxes[i%4], useQueue: true, queueSize: backlog + r.Range(1, 50), bg: true,
			shrinkTo: r.Range(1, backlog)}, r, fmt.Sprint("queue-shrink#", i))
	})
	c.Cases("queue-overflow", scale(10, 160), func(i int, r *vlib.Rand) {
		runScenario(c, scenario{kind: "queue-overflow", senders: r.Range(1, 8), perSender: r.Range(80, 300), gomax: gomaxes[i%4], useQueue: true, queueSize: r.Range(1, 12), bg: true}, r, fmt.Sprint("queue-overflow#", i))
	})
	// one sender, one cut, and after the cut every send waits until the client's socket is dead:
	// from then on a send either reports an error or arrives (on a new connection)
	c.Cases("peer-close-spaced", scale(24, 400), func(i int, r *vlib.Rand) {
		sch := []cut{{After: r.Range(0, 3000), RST: i%2 == 0, Refuse: 0}}
		if i%5 == 0 {
			sch[0].After = (i / 5) % 24
		}
		runScenario(c, scenario{kind: "peer-close-spaced", senders: 1, perSender: r.Range(20, 60), gomax: gomaxes[i%4], schedule: sch, spaced: true}, r, fmt.Sprint("peer-close-spaced#", i))
	})
	c.Cases("failover", scale(24, 400), func(i int, r *vlib.Rand) {
		failoverScenario(c, r, i, fmt.Sprint("failover#", i))
	})
	// faults while frames larger than the client's 2 MiB write buffer are on their way: the
	// buffered writer then writes straight to the socket and reports partial writes
	c.Cases("fault-big", scale(10, 160), func(i int, r *vlib.Rand) {
		nc := 1 + r.Intn(2)
		var sch []cut
		for k := 0; k < nc; k++ {
			sch = append(sch, cut{After: r.Range(0, 6<<20), RST: r.Intn(3) != 0, Refuse: []int{0, 0, 1}[r.Intn(3)]})
		}
		runScenario(c, scenario{kind: "fault-big", senders: r.Range(1, 3), perSender: r.Range(4, 9), gomax: gomaxes[i%4], bigFrames: true, schedule: sch}, r, fmt.Sprint("fault-big#", i))
	})
	// the same with frames far beyond what write buffer and socket buffers hold, read by the
	// collector through a small receive buffer: the write is cut part-way through a frame
	c.Cases("fault-huge", scale(8, 120), func(i int, r *vlib.Rand) {
		sch := []cut{{After: r.Range(0, 9<<20), RST: r.Intn(3) != 0, Refuse: 0}}
		runScenario(c, scenario{kind: "fault-huge", senders: r.Range(1, 2), perSender: r.Range(3, 6), gomax: gomaxes[i%4], bigFrames: true, hugeFrames: true, smallRcv: true, schedule: sch}, r, fmt.Sprint("fault-huge#", i))
	})
	// a slow collector: it stops reading part-way through a frame that no buffer can absorb, for
	// longer than the client's write timeout, and then reads on. The send fails (an error, nothing
	// accepted); whatever the client does next, the bytes the collector reads must still parse
	// into whole frames (a partial frame may only be the last thing a connection carried).
	c.Cases("fault-stall", scale(6, 80), func(i int, r *vlib.Rand) {
		if i%2 == 1 {
			// frames that fit the write buffer: the socket buffers fill up while the collector
			// stalls and the client's deadline expires inside Flush
			sch := []cut{{After: r.Range(0, 1<<20), Stall: time.Duration(r.Range(1500, 2500)) * time.Millisecond}}
			runScenario(c, scenario{kind: "fault-stall", senders: 1, perSender: r.Range(24, 40), gomax: gomaxes[i%4], bigFrames: true, midFrames: true, smallRcv: true,
				writeTimeoutMs: r.Range(150, 350), schedule: sch}, r, fmt.Sprint("fault-stall#", i))
			return
		}
		sch := []cut{{After: r.Range(1<<20, 8<<20), Stall: time.Duration(r.Range(900, 1500)) * time.Millisecond}}
		runScenario(c, scenario{kind: "fault-stall", senders: 1, perSender: r.Range(4, 8), gomax: gomaxes[i%4], bigFrames: true, hugeFrames: true, smallRcv: true,
			writeTimeoutMs: r.Range(150, 350), schedule: sch}, r, fmt.Sprint("fault-stall#", i))
	})
	// queue mode with the drain, and idle periods longer than the drain's own queue wait (5 s)
	c.Cases("queue-idle", scale(3, 24), func(i int, r *vlib.Rand) {
		runScenario(c, scenario{kind: "queue-idle", senders: r.Range(1, 3), perSender: r.Range(9, 18), gomax: gomaxes[i%4], useQueue: true, queueSize: 0, bg: true, queueIdleMs: 5600}, r, fmt.Sprint("queue-idle#", i))
	})
	c.Cases("queue-fault-big", scale(6, 100), func(i int, r *vlib.Rand) {
		sch := []cut{{After: r.Range(0, 6<<20), RST: r.Bool(), Refuse: 0}}
		runScenario(c, scenario{kind: "queue-fault-big", senders: r.Range(1, 3), perSender: r.Range(4, 9), gomax: gomaxes[i%4], useQueue: true, queueSize: 0, bg: true, bigFrames: true, schedule: sch}, r, fmt.Sprint("queue-fault-big#", i))
	})
	// production path in queue mode: the singleton of one process is created, used, destroyed
	// and created again (several generations per child process)
	c.Cases("singleton-queue", scale(6, 60), func(i int, r *vlib.Rand) {
		for gen := 0; gen < 3; gen++ { // generations of the singleton within this process
			queue := gen != 1 || r.Bool()
			runScenario(c, scenario{kind: "singleton-queue", senders: r.Range(1, 4), perSender: r.Range(10, 40), gomax: gomaxes[(i+1)%4], singleton: true, useQueue: queue, queueSize: []int{0, 1000}[r.Intn(2)]}, r.Fork(fmt.Sprint("gen", gen)), fmt.Sprintf("singleton-queue#%d/gen%d", i, gen))
			c.Count("singleton_generations", 1)
		}
	})
	// production path: singleton with its background goroutine, healthy connection
	c.Cases("singleton-healthy", scale(2, 16), func(i int, r *vlib.Rand) {
		runScenario(c, scenario{kind: "singleton-healthy", senders: r.Range(1, 6), perSender: 60, gomax: gomaxes[(i+2)%4], singleton: true}, r, fmt.Sprint("singleton-healthy#", i))
	})
	// direct mode + background goroutine + faults (the production configuration under faults)
	c.Cases("bg-fault", scale(16, 300), func(i int, r *vlib.Rand) {
		runScenario(c, scenario{kind: "bg-fault", senders: r.Range(1, 6), perSender: r.Range(10, 40), gomax: gomaxes[(i+1)%4], bg: true, schedule: cutPoints(r, i)}, r, fmt.Sprint("bg-fault#", i))
	})
	per := int64(c.NShards)
	c.Count("unencodable_packs_handed_over", atomic.LoadInt64(&poisonSent))
	c.Floor("frames_received", 2000/per/3, c.Counter("frames_received"))
	c.Floor("cuts_executed", 20/per, c.Counter("cuts_executed"))
	c.Floor("recoveries_observed", 20/per, c.Counter("recoveries_observed"))
	c.Count("sends_judged_after_socket_death", atomic.LoadInt64(&deadJudged))
	if !isRace {
		c.Floor("sends_judged_after_socket_death", 1, atomic.LoadInt64(&deadJudged))
		c.Floor("queue_full_rejections/queue-overflow", 1, c.Counter("queue_full_rejections/queue-overflow"))
		c.Floor("failover_histories", 1, c.Counter("failover_histories"))
	}
	c.Finish()
	_ = sort.Ints
}
