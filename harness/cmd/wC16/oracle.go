package main

// The oracles: everything is judged from what the recording client received (wire bytes or
// hand-over snapshots) against the neutral record descriptions and the settings that must be
// in force. golib's decoder is used only as an additional consumer (pack.ToPack), never as the
// reference.

import (
	"fmt"

	"github.com/whatap/golib/lang/pack"
	"github.com/whatap/golib/logsink/zip"

	"verif/vlib"
)

type settings struct {
	Wait   int64 `json:"max_wait_time"`
	Queue  int   `json:"logsink_queue_size"`
	Buf    int   `json:"max_buffer_size"`
	ZipMin int   `json:"logsink_zip_min_size"`
}

// the built-in defaults the property states
var builtin = settings{Wait: 5000, Queue: 1000, Buf: 64 * 1024, ZipMin: 100}

func (s settings) vals() map[string]int32 {
	return map[string]int32{"max_wait_time": int32(s.Wait), "logsink_queue_size": int32(s.Queue),
		"max_buffer_size": int32(s.Buf), "logsink_zip_min_size": int32(s.ZipMin)}
}

func readSettings(s *zip.ZipSendProxyThread) settings {
	w, q, b, z := s.VerifSettings()
	return settings{Wait: w, Queue: q, Buf: b, ZipMin: z}
}

// epoch: the settings that must be in force from some hand-over on.
type epoch struct {
	S          settings
	Configured bool // false: nothing was applied, the built-in defaults must be in force
}

type scenario struct {
	c       *vlib.Ctx
	Section string
	Path    string // append | senddirect | queue
	Mode    byte   // S | R
	ErrPlan string // which hand-overs the client answers with an error (errPlan.String)
	Epochs  []epoch
	Handed  [][]*recSpec // per producer, in hand-over order
	byID    map[string]*recSpec
	tailIDs map[string]bool // senddirect: last record of each call (its pack is the call's tail flush)
	hs      []*handover

	vsDefault   settings        // VerifSettings right after GetInstance
	earlyGuard  bool            // queue: the last record left the queue less than the wait time after the sender was created ⇒ no idle-timeout flush can separate two records
	notAccepted map[string]bool // capacity scenarios: records the full queue must have refused
	inQueue     map[string]bool // stop scenarios: records found in the queue after the goroutine had ended (never taken)
	late        map[string]bool // stop scenarios: records put after the cancellation
	Desc        map[string]interface{}

	bad      map[string]string // categories of the unencodable records handed over → kind ("" = zero value / nil pack)
	badNotes []string          // kind@id of the good record it precedes (part of the case hash)
	excused  map[string]bool   // records of a SendDirect call that panicked (reported there, once, with the call)

	views []packView // filled by evaluate: which records each hand-over carried (lull scenarios read it)
}

func newScenario(c *vlib.Ctx, section, path string, mode byte) *scenario {
	return &scenario{c: c, Section: section, Path: path, Mode: mode, byID: map[string]*recSpec{},
		tailIDs: map[string]bool{}, notAccepted: map[string]bool{},
		inQueue: map[string]bool{}, late: map[string]bool{}, Desc: map[string]interface{}{},
		bad: map[string]string{}, excused: map[string]bool{}}
}

// setErrPlan scripts the client's answers for this scenario.
func (sc *scenario) setErrPlan(client *recClient, p *errPlan) {
	client.plan = p
	sc.ErrPlan = p.String()
	sc.Desc["client_errors"] = sc.ErrPlan
	sc.c.SetAdd("client_error_plans", p.Kind)
}

func (h *handover) answered() string {
	if h.Err == "" {
		return "nil"
	}
	return "error: " + h.Err
}

// handBad notes an unencodable record that is about to be handed over.
func (sc *scenario) handBad(b *badRec, before string) {
	sc.bad[b.ID] = b.Kind
	sc.badNotes = append(sc.badNotes, b.Kind+"@"+before)
	sc.c.Count("unencodable_records_handed_over", 1)
	sc.c.Count("unencodable_records_via_"+sc.Path, 1)
	sc.c.SetAdd("unencodable_kinds", b.Kind)
}

func (sc *scenario) hand(sp *recSpec) {
	for len(sc.Handed) <= sp.Prod {
		sc.Handed = append(sc.Handed, nil)
	}
	sp.setIndex = len(sc.Epochs) - 1
	sc.Handed[sp.Prod] = append(sc.Handed[sp.Prod], sp)
	sc.byID[sp.ID] = sp
}

func settingNames() []string {
	return []string{"max_wait_time", "logsink_queue_size", "max_buffer_size", "logsink_zip_min_size"}
}

func (s settings) get(name string) int64 {
	switch name {
	case "max_wait_time":
		return s.Wait
	case "logsink_queue_size":
		return int64(s.Queue)
	case "max_buffer_size":
		return int64(s.Buf)
	}
	return int64(s.ZipMin)
}

// checkDefaults: the settings reported right after the real GetInstance must be the built-in
// defaults.
func (sc *scenario) checkDefaults(vs settings) {
	sc.vsDefault = vs
	sc.c.Count("defaults_settings_read", 1)
	for _, n := range settingNames() {
		if vs.get(n) != builtin.get(n) {
			sc.c.Fail("GetInstance:defaults-not-in-force/"+n,
				fmt.Sprintf("after GetInstance with no configuration applied %s is %d, the built-in default is %d", n, vs.get(n), builtin.get(n)),
				map[string]interface{}{"reported": vs, "builtin": builtin, "section": sc.Section})
		}
	}
}

// checkApplied: after the real ApplyConfig the reported settings must be the configured ones.
func (sc *scenario) checkApplied(vs, want settings) {
	sc.c.Count("applyconfig_settings_read", 1)
	for _, n := range settingNames() {
		if vs.get(n) != want.get(n) {
			sc.c.Fail("ApplyConfig:setting-not-applied/"+n,
				fmt.Sprintf("after ApplyConfig %s is %d, configured %d", n, vs.get(n), want.get(n)),
				map[string]interface{}{"reported": vs, "configured": want, "section": sc.Section})
		}
	}
}

// attr maps a behavioural failure to the defaults key when no configuration was applied and
// the reported setting is not the built-in default (the behaviour then is the consequence).
func (sc *scenario) attr(e epoch, setting, generic string) string {
	if !e.Configured && sc.vsDefault.get(setting) != builtin.get(setting) {
		return "GetInstance:defaults-not-in-force/" + setting
	}
	return generic
}

type packView struct {
	Index      int      `json:"index"`
	Status     int      `json:"status"`
	Count      int64    `json:"record_count"`
	PayloadLen int      `json:"payload_len"`
	WireLen    int      `json:"stored_len"`
	IDs        []string `json:"ids"`
	Answered   string   `json:"client_answered"`
}

func (sc *scenario) detail(extra map[string]interface{}, packs []packView) map[string]interface{} {
	d := map[string]interface{}{"section": sc.Section, "path": sc.Path, "mode": string(sc.Mode), "scenario": sc.Desc}
	var eps []interface{}
	for _, e := range sc.Epochs {
		eps = append(eps, map[string]interface{}{"settings": e.S, "configured": e.Configured})
	}
	d["settings_epochs"] = eps
	d["reported_after_GetInstance"] = sc.vsDefault
	var hl []interface{}
	n := 0
	for p, l := range sc.Handed {
		for _, sp := range l {
			if n < 400 {
				b := sp.brief()
				b["producer"] = p
				b["epoch"] = sp.setIndex
				hl = append(hl, b)
			}
			n++
		}
	}
	d["handed_over"] = hl
	d["handed_over_total"] = n
	if len(sc.badNotes) > 0 {
		d["unencodable_records_kind@before_record"] = sc.badNotes
	}
	if len(packs) > 300 {
		packs = packs[:300]
	}
	for i := range packs {
		if len(packs[i].IDs) > 50 {
			packs[i].IDs = append(append([]string{}, packs[i].IDs[:50]...), "…")
		}
	}
	d["packs"] = packs
	for k, v := range extra {
		d[k] = v
	}
	return d
}

// golibDecodes feeds one record's bytes to golib's own decoder as a consumer would.
func golibDecodes(b []byte, sp *recSpec) string {
	var msg string
	if p := vlib.Catch(func() {
		lp, ok := pack.ToPack(append([]byte{}, b...)).(*pack.LogSinkPack)
		if !ok {
			msg = "pack.ToPack did not return a LogSinkPack"
			return
		}
		switch {
		case lp.Category != sp.ID:
			msg = "category"
		case lp.Content != sp.Content:
			msg = "content"
		case lp.Time != sp.Time:
			msg = "time"
		case lp.Line != sp.Line:
			msg = "line"
		case lp.Pcode != sp.Pcode || lp.Oid != sp.Oid || lp.Okind != sp.Okind || lp.Onode != sp.Onode:
			msg = "header"
		case lp.Tags == nil || lp.Tags.Size() != len(sp.Tags):
			msg = "tag count"
		case len(sp.Fields) > 0 && (lp.Fields == nil || lp.Fields.Size() != len(sp.Fields)):
			msg = "field count"
		}
		if msg == "" {
			for _, e := range sp.Tags {
				if e.IsText && lp.Tags.GetString(e.K) != e.S {
					msg = "tag " + e.K
				}
				if !e.IsText && lp.Tags.GetLong(e.K) != e.N {
					msg = "tag " + e.K
				}
			}
		}
		if msg != "" {
			msg = "pack.ToPack decodes a different " + msg
		}
	}); p != nil {
		return fmt.Sprintf("pack.ToPack panicked: %v", p)
	}
	return msg
}

func firstDiff(a, b []byte) int {
	n := len(a)
	if len(b) < n {
		n = len(b)
	}
	for i := 0; i < n; i++ {
		if a[i] != b[i] {
			return i
		}
	}
	if len(a) != len(b) {
		return n
	}
	return -1
}

func window(b []byte, at int) string {
	lo, hi := at-16, at+32
	if lo < 0 {
		lo = 0
	}
	if hi > len(b) {
		hi = len(b)
	}
	if lo > hi {
		lo = hi
	}
	return fmt.Sprintf("%q", b[lo:hi])
}

// evaluate applies every oracle to the hand-overs of one finished scenario.
func (sc *scenario) evaluate() {
	c := sc.c
	emitted := map[string]int{}
	lastSeq := map[int]int{}
	var views []packView
	type decoded struct {
		specs   []*recSpec
		payload int
		status  byte
		ok      bool
	}
	var dec []decoded
	fails := []func(){} // deferred so that every replay file carries the complete pack list
	fail := func(key, what string, extra map[string]interface{}) {
		fails = append(fails, func() { c.Fail(key, what, sc.detail(extra, views)) })
	}

	for pi, h := range sc.hs {
		v := packView{Index: pi, Answered: h.answered()}
		d := decoded{}
		var status byte
		var count int64
		var stored []byte
		switch {
		case h.NotZip != "":
			fail("ZipPack:payload-undecodable", "the sender handed over a pack that is not a zip pack: "+h.NotZip, map[string]interface{}{"pack": pi})
			views, dec = append(views, v), append(dec, d)
			continue
		case h.Wire != nil:
			z, e := parseZipWire(h.Wire)
			if e != "" {
				fail("ZipPack:payload-undecodable", "the encoded zip pack does not parse: "+e, map[string]interface{}{"pack": pi, "wire": vlib.Hex(h.Wire)})
				views, dec = append(views, v), append(dec, d)
				continue
			}
			status, count, stored = z.Status, z.Count, z.Records
			c.Count("packs_via_wire", 1)
		default:
			status, count, stored = h.Status, int64(h.Count), h.Records
			c.Count("packs_via_snapshot", 1)
		}
		v.Status, v.Count, v.WireLen = int(status), count, len(stored)
		payload := stored
		okPayload := true
		switch status {
		case 0:
			c.Count("packs_uncompressed", 1)
		case 1:
			c.Count("packs_compressed", 1)
			p, err := gunzip(stored)
			if err != nil {
				okPayload = false
				fail("ZipPack:payload-undecodable", fmt.Sprintf("status says compressed but the payload does not gunzip: %v", err),
					map[string]interface{}{"pack": pi, "stored": vlib.Hex(stored)})
			}
			payload = p
		default:
			okPayload = false
			fail("ZipPack:payload-undecodable", fmt.Sprintf("status byte %d is neither 0 (plain) nor 1 (compressed)", status), map[string]interface{}{"pack": pi})
		}
		if !okPayload {
			views, dec = append(views, v), append(dec, d)
			continue
		}
		v.PayloadLen = len(payload)
		d.payload, d.status = len(payload), status
		recs, perr := splitPayload(payload)
		clean := perr == ""
		if perr != "" {
			fail("ZipPack:payload-undecodable", "the payload does not parse as a sequence of log-sink records: "+perr,
				map[string]interface{}{"pack": pi, "records_parsed_before_error": len(recs), "payload": vlib.Hex(payload)})
		}
		for _, pr := range recs {
			sp := sc.byID[pr.Category]
			raw := payload[pr.Start:pr.End]
			if kind, isBad := sc.bad[pr.Category]; sp == nil && isBad {
				clean = false
				fail("ZipSender:unencodable-record-emitted", fmt.Sprintf("pack %d contains a record with the category %q of an unencodable record (%s) that was handed over: nothing of such a record may be emitted", pi, pr.Category, kind),
					map[string]interface{}{"pack": pi, "record": vlib.Hex(raw)})
				continue
			}
			if sp == nil {
				clean = false
				fail("ZipPack:payload-undecodable", fmt.Sprintf("pack %d contains a record (category %q) that was never handed over", pi, pr.Category),
					map[string]interface{}{"pack": pi, "record": vlib.Hex(raw)})
				continue
			}
			v.IDs = append(v.IDs, sp.ID)
			emitted[sp.ID]++
			if ls, seen := lastSeq[sp.Prod]; seen && sp.Seq < ls {
				fail("ZipSender:order", fmt.Sprintf("record %s was emitted after a later record (seq %d) of the same producer", sp.ID, ls),
					map[string]interface{}{"pack": pi})
			}
			if ls, seen := lastSeq[sp.Prod]; !seen || sp.Seq > ls {
				lastSeq[sp.Prod] = sp.Seq
			}
			if at := firstDiff(raw, sp.Ref()); at >= 0 {
				clean = false
				fail("ZipPack:payload-undecodable", fmt.Sprintf("record %s in pack %d differs from the reference encoding of what was handed over (first difference at byte %d of the record)", sp.ID, pi, at),
					map[string]interface{}{"pack": pi, "got": window(raw, at), "want": window(sp.Ref(), at), "got_len": len(raw), "want_len": sp.Len()})
				continue
			}
			if m := golibDecodes(raw, sp); m != "" {
				fail("ZipPack:payload-undecodable", fmt.Sprintf("record %s in pack %d: %s", sp.ID, pi, m), map[string]interface{}{"pack": pi, "record": vlib.Hex(raw)})
			}
			c.Count("records_decoded_and_compared", 1)
			d.specs = append(d.specs, sp)
		}
		if perr == "" && count != int64(len(recs)) {
			fail("ZipPack.RecordCount:mismatch", fmt.Sprintf("pack %d says RecordCount %d, its payload holds %d records", pi, count, len(recs)),
				map[string]interface{}{"pack": pi})
		}
		if perr == "" {
			c.Count("packs_count_checked", 1)
		}
		if status == 0 && clean {
			// golib's own accessor as a consumer would use it (on a private copy)
			cp := pack.NewZipPack()
			cp.Records, cp.RecordCount = append([]byte{}, payload...), int(count)
			var n int
			if p := vlib.Catch(func() { n = len(cp.GetRecords()) }); p != nil || n != len(recs) {
				fail("ZipPack:payload-undecodable", fmt.Sprintf("ZipPack.GetRecords on pack %d: panic=%v records=%d, payload holds %d", pi, p, n, len(recs)), map[string]interface{}{"pack": pi})
			}
		}
		d.ok = clean && len(d.specs) > 0
		views, dec = append(views, v), append(dec, d)
	}

	// per-pack laws that need the complete decode: compression, flush triggers
	for pi, d := range dec {
		if !d.ok {
			continue
		}
		last := d.specs[len(d.specs)-1]
		E := sc.Epochs[last.setIndex]
		for _, sp := range d.specs {
			if sp.Prod != last.Prod {
				c.Count("packs_mixing_producers", 1)
				break
			}
		}
		want := d.payload >= E.S.ZipMin
		c.Count("packs_compression_checked", 1)
		if d.payload == E.S.ZipMin {
			c.Count("payload_eq_zipmin", 1)
		}
		if d.payload == E.S.ZipMin-1 {
			c.Count("payload_eq_zipmin_minus1", 1)
		}
		if (d.status == 1) != want {
			fail(sc.attr(E, "logsink_zip_min_size", "ZipSender:compression-threshold"),
				fmt.Sprintf("pack %d: uncompressed payload %d bytes, minimum size in force %d, status %d (compression must be applied exactly when payload >= minimum)", pi, d.payload, E.S.ZipMin, d.status),
				map[string]interface{}{"pack": pi})
		}
		cum, run := 0, 0
		first := d.specs[0]
		for _, sp := range d.specs {
			cum += sp.Len()
		}
		for j, sp := range d.specs {
			run += sp.Len()
			if j == len(d.specs)-1 {
				break
			}
			Ej := sc.Epochs[sp.setIndex]
			if run >= Ej.S.Buf {
				fail(sc.attr(Ej, "max_buffer_size", "ZipSender:buffer-limit"),
					fmt.Sprintf("pack %d: the buffer limit in force (%d) was reached at record %s (%d bytes buffered) but the batch was not flushed: %d more record(s) follow in the same pack", pi, Ej.S.Buf, sp.ID, run, len(d.specs)-1-j),
					map[string]interface{}{"pack": pi})
				break
			}
			if sc.Path != "senddirect" && sp.Time-first.Time >= Ej.S.Wait {
				fail(sc.attr(Ej, "max_wait_time", "ZipSender:wait-time-flush"),
					fmt.Sprintf("pack %d: record %s is %d ms after the first buffered record %s, wait time in force %d, but it did not close the batch", pi, sp.ID, sp.Time-first.Time, first.ID, Ej.S.Wait),
					map[string]interface{}{"pack": pi})
				break
			}
		}
		c.Count("packs_flush_checked", 1)
		bySize := cum >= E.S.Buf
		byTime := sc.Path != "senddirect" && last.Time-first.Time >= E.S.Wait
		if cum == E.S.Buf {
			c.Count("closed_at_exact_buffer_limit", 1)
		}
		if sc.Path != "senddirect" && len(d.specs) > 1 && last.Time-first.Time == E.S.Wait {
			c.Count("closed_at_exact_wait_time", 1)
		}
		final := (sc.Path == "queue" && pi == len(dec)-1) || (sc.Path == "senddirect" && sc.tailIDs[last.ID])
		switch {
		case bySize:
			c.Count("packs_closed_by_size", 1)
		case byTime:
			c.Count("packs_closed_by_time", 1)
		case final:
			c.Count("packs_closed_by_stop_or_tail", 1)
			if sc.hs[pi].AfterCancel {
				// handed over after the cancellation with neither trigger reached: these records
				// were buffered (or still queued) when the sender was stopped
				c.Count("packs_flushed_by_stop", 1)
				if sc.Section == "queue-stop" {
					c.Count("stop_scenarios_with_buffered_records_flushed_by_stop", 1)
				}
				for _, sp := range d.specs {
					if !sc.late[sp.ID] {
						c.Count("records_buffered_at_cancel_flushed_by_stop", 1)
					}
				}
			}
		case sc.Path == "queue" && !sc.earlyGuard:
			c.Count("packs_closed_by_idle_or_unjudged", 1)
		default:
			// closed although neither trigger was reached and no idle period can explain it
			key := "ZipSender:early-flush"
			if !E.Configured {
				vs := sc.vsDefault
				switch {
				case vs.Buf != builtin.Buf && cum >= vs.Buf:
					key = "GetInstance:defaults-not-in-force/max_buffer_size"
				case vs.Wait != builtin.Wait && sc.Path != "senddirect" && last.Time-first.Time >= vs.Wait:
					key = "GetInstance:defaults-not-in-force/max_wait_time"
				}
			}
			fail(key, fmt.Sprintf("pack %d was closed with %d bytes / %d ms span although the settings in force are %d bytes / %d ms and the sender was not stopped", pi, cum, last.Time-first.Time, E.S.Buf, E.S.Wait),
				map[string]interface{}{"pack": pi})
		}
	}

	// exactly once, nothing the full queue had to refuse, nothing left behind
	for p, l := range sc.Handed {
		missingFrom := -1
		emittedAfterMissing := false
		var missing []string
		for k, sp := range l {
			n := emitted[sp.ID]
			if sc.notAccepted[sp.ID] {
				if n > 0 {
					E := sc.Epochs[sp.setIndex]
					fail(sc.attr(E, "logsink_queue_size", "ZipSender:queue-capacity"),
						fmt.Sprintf("record %s was put while the queue held at least as many records as the capacity in force and was emitted nevertheless", sp.ID), nil)
				}
				continue
			}
			if sc.inQueue[sp.ID] {
				// never taken by the stopped sender: nothing is owed for it
				if n > 0 {
					fail("ZipSender:record-duplicated", fmt.Sprintf("record %s was emitted and is still in the queue after the sender's goroutine has ended", sp.ID), nil)
				}
				continue
			}
			switch {
			case n == 0 && sc.excused[sp.ID]:
				c.Count("records_lost_in_panicking_senddirect_calls", 1)
			case n == 0:
				if missingFrom < 0 {
					missingFrom = k
				}
				if len(missing) < 20 {
					missing = append(missing, sp.ID)
				}
			case n > 1:
				fail("ZipSender:record-duplicated", fmt.Sprintf("record %s was emitted %d times", sp.ID, n), nil)
				fallthrough
			default:
				c.Count("records_emitted_once", 1)
				if missingFrom >= 0 {
					emittedAfterMissing = true
				}
			}
		}
		if missingFrom < 0 {
			continue
		}
		extra := map[string]interface{}{"producer": p, "missing": missing}
		switch {
		case emittedAfterMissing || sc.Path == "senddirect":
			fail("ZipSender:record-lost", fmt.Sprintf("producer %d: record(s) %v were handed over and never emitted", p, missing), extra)
		case sc.Path == "queue":
			fail("ZipSender:residue-after-stop", fmt.Sprintf("producer %d: the last record(s) %v were taken from the queue but not emitted although the sender was stopped and its goroutine has ended", p, missing), extra)
		default:
			// Append without the queue has no stop: the records never emitted are the batch still
			// buffered. It is legitimate only while no trigger has been reached inside it.
			rest := l[missingFrom:]
			cum, judged := 0, false
			for j, sp := range rest {
				cum += sp.Len()
				Ej := sc.Epochs[sp.setIndex]
				if cum >= Ej.S.Buf {
					fail(sc.attr(Ej, "max_buffer_size", "ZipSender:buffer-limit"),
						fmt.Sprintf("the records %v were never emitted: they are still buffered although the buffer limit in force (%d) was reached at %s (%d bytes)", missing, Ej.S.Buf, sp.ID, cum), extra)
					judged = true
					break
				}
				if j > 0 && sp.Time-rest[0].Time >= Ej.S.Wait {
					fail(sc.attr(Ej, "max_wait_time", "ZipSender:wait-time-flush"),
						fmt.Sprintf("the records %v were never emitted: they are still buffered although %s is %d ms after the first of them (wait time in force %d)", missing, sp.ID, sp.Time-rest[0].Time, Ej.S.Wait), extra)
					judged = true
					break
				}
			}
			if !judged {
				c.Count("append_open_batches_without_trigger", 1)
			}
		}
	}

	// aliasing monitor: a retained pack must still be what it was at hand-over
	for pi, h := range sc.hs {
		if h.Retained == nil {
			continue
		}
		c.Count("retained_packs_compared", 1)
		if h.Status == 0 {
			c.Count("retained_uncompressed_packs_compared", 1)
		}
		zp := h.Retained
		at := firstDiff(zp.Records, h.Records)
		if at >= 0 || zp.Status != h.Status || zp.RecordCount != h.Count {
			c.Count("retained_packs_altered", 1)
			extra := map[string]interface{}{"pack": pi, "status_then_now": []int{int(h.Status), int(zp.Status)},
				"record_count_then_now": []int{h.Count, zp.RecordCount}, "first_differing_byte": at}
			if at >= 0 {
				extra["at_hand_over"] = window(h.Records, at)
				extra["at_end"] = window(zp.Records, at)
			}
			fail("ZipSender:retained-pack-altered/"+sc.Path,
				fmt.Sprintf("pack %d (status %d, %d records, %d bytes) retained by the client changed after hand-over: first differing byte %d — later records were written into the same memory", pi, h.Status, h.Count, len(h.Records), at),
				extra)
		}
	}
	// evidence: hand-overs the client answered with an error and what the sender did afterwards
	// (no verdict of its own: a pack passed to the client is emitted whatever the client answered,
	// so everything above applies unchanged to the packs before, at and after a failed hand-over)
	nerr := 0
	for pi, h := range sc.hs {
		if pi > 0 && sc.hs[pi-1].Err != "" && dec[pi].ok {
			// record count, compression rule and flush triggers of the pack right after a failure
			c.Count("packs_right_after_a_failed_handover_fully_judged", 1)
			c.Count("packs_right_after_a_failed_handover_fully_judged/"+sc.Path, 1)
		}
		if h.Err == "" {
			continue
		}
		nerr++
		c.Count("handovers_answered_with_error", 1)
		c.Count("handovers_answered_with_error/"+sc.Path, 1)
		c.Count("handovers_answered_with_error/section/"+sc.Section, 1)
		c.SetAdd("client_error_values", h.Err)
		if pi < len(sc.hs)-1 {
			c.Count("handovers_answered_with_error_followed_by_further_packs", 1)
			c.Count("handovers_answered_with_error_followed_by_further_packs/"+sc.Path, 1)
		}
		if h.Retained != nil {
			c.Count("handovers_answered_with_error_pack_retained", 1)
		} else {
			c.Count("handovers_answered_with_error_pack_consumed", 1)
		}
		if h.AfterCancel {
			c.Count("handovers_after_cancellation_answered_with_error", 1)
		}
	}
	if nerr > 0 {
		c.Count("scenarios_with_client_errors", 1)
		if nerr == len(sc.hs) {
			c.Count("scenarios_with_every_handover_answered_with_error", 1)
		}
	}
	for _, f := range fails {
		f()
	}
	sc.views = views
	c.Count("packs", int64(len(sc.hs)))
	c.Count("scenarios/"+sc.Path+"/"+string(sc.Mode), 1)
}
