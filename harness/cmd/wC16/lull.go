package main

// queue-lull: a batch that sits in the buffer while NO further record arrives.
//
// All other sections judge the waiting-time trigger on record timestamps (what Append compares).
// During a lull nothing is appended: the only thing that can flush the batch is the background
// loop's timed wait on the queue running out, and the property says which waiting time that is —
// the one IN FORCE (the built-in 5 s until configuration overrides it, the configured one from
// then on, also when the configuration arrives while the goroutine is already running).
//
// One scenario: the sender is started with the defaults or with some configuration, a little
// traffic passes, the settings are changed while the goroutine runs (waiting time shorter, longer,
// or only the other keys; through the parked-goroutine mechanism of queue-reconfig, or — plain
// flavour only — by calling ApplyConfig from the monitor's goroutine while the loop is asleep in
// its queue wait, the way a configuration observer does), a few small records are handed over
// and then nothing more. The batch must reach the recording client.
//
// This needs real time. The verdicts are made load-safe:
//
//   - late (ZipSender:idle-flush-late/waiting-time-in-force) only when the waiting time in force
//     is <= 500 ms, the batch has not been handed over max(8 x waiting time, 3 s) after the last
//     Add returned, AND a control goroutine started at the same moment (plain time.Sleep of the
//     waiting time, repeated) shows that the process was scheduled normally during that window.
//     Otherwise the case is counted as not judged, never as a violation.
//   - early (ZipSender:idle-flush-early/waiting-time-in-force): a pack closed by neither size nor
//     record timestamps nor the stop, whose last record was put AFTER the reconfiguration had
//     returned, was handed over less than 3/4 of the waiting time in force after that record was
//     put. This is a lower bound on elapsed time (sleeps never return early, the clock is
//     monotonic): load can only make the span longer. It is what the unchanged loop guarantees:
//     an idle flush needs a queue wait that STARTED after the last record of the batch was taken
//     to run out, and that wait is as long as the waiting time in force when it starts.

import (
	"fmt"
	"runtime"
	"sync"
	"time"

	"verif/vlib"
)

const (
	lullJudgeMaxWait = 500 // ms: waiting times above are not judged for lateness
	lullMinDeadline  = 3 * time.Second
)

// control is the load probe: sleeps of a fixed length, repeated; every sleep's real length is
// recorded.
type control struct {
	mu       sync.Mutex
	d        time.Duration
	n        int
	worst    time.Duration // longest completed sleep
	curStart time.Time
	stopped  bool
}

func startControl(d time.Duration) *control {
	k := &control{d: d, curStart: time.Now()}
	go func() {
		for {
			t := time.Now()
			k.mu.Lock()
			if k.stopped {
				k.mu.Unlock()
				return
			}
			k.curStart = t
			k.mu.Unlock()
			time.Sleep(d)
			el := time.Since(t)
			k.mu.Lock()
			k.n++
			if el > k.worst {
				k.worst = el
			}
			k.mu.Unlock()
		}
	}()
	return k
}

// finish stops the probe. ok: at least one sleep completed and every sleep — the one under way
// included — returned within 3 x its length and at most 250 ms late.
func (k *control) finish() (ok bool, n int, worst time.Duration) {
	k.mu.Lock()
	defer k.mu.Unlock()
	k.stopped = true
	worst = k.worst
	if cur := time.Since(k.curStart); cur > worst {
		worst = cur
	}
	limit := 3 * k.d
	if k.d+250*time.Millisecond < limit {
		limit = k.d + 250*time.Millisecond
	}
	return k.n >= 1 && worst <= limit, k.n, worst
}

type lullRec struct {
	added time.Time // taken right before Add
	after bool      // put after the last reconfiguration had returned
}

func runLull(c *vlib.Ctx, section string, idx int, r *vlib.Rand) {
	caseID := fmt.Sprintf("%s#%d", section, idx)
	mode := pickMode(r)
	race := c.Flavour == "race"

	// what happens to the settings while the goroutine runs
	change := []string{"wait-lowered", "wait-lowered", "wait-lowered", "wait-raised", "wait-raised", "other-keys-only", "none", "none"}[r.Intn(8)]
	mech := "parked"
	if !race && r.Bool() {
		mech = "concurrent"
	}
	if change == "none" {
		mech = "none"
	}
	configured0 := true
	st0 := settings{Buf: []int{4096, 16 * 1024, 64 * 1024}[r.Intn(3)], ZipMin: zipMins[r.Intn(len(zipMins))], Queue: r.Range(40, 1200)}
	var wait1 int64
	switch change {
	case "wait-lowered":
		if r.Chance(1, 2) {
			configured0, st0 = false, builtin // the defaults are in force until the configuration arrives
		} else {
			st0.Wait = int64(r.Range(2000, 5000))
		}
		wait1 = int64([]int{30, 60, 100, 150, 200, 300, 400, 500}[r.Intn(8)])
		if mech == "concurrent" && wait1 > 300 {
			wait1 = 300 // the queue wait under way (at most a third of the old waiting time) comes on top
		}
	case "wait-raised":
		st0.Wait = int64(r.Range(40, 200))
		wait1 = int64(r.Range(600, 1800))
	case "other-keys-only":
		st0.Wait = int64(r.Range(30, 400))
		wait1 = st0.Wait
	default: // none: the lull follows the start-up configuration (or, rarely, the defaults)
		if r.Chance(1, 12) {
			configured0, st0 = false, builtin
		} else {
			st0.Wait = int64([]int{30, 60, 100, 150, 200, 300, 400, 500, 900}[r.Intn(9)])
		}
		wait1 = st0.Wait
	}
	minWait := st0.Wait
	if wait1 < minWait {
		minWait = wait1
	}

	client := newRecClient(mode, mech == "parked")
	sc := newScenario(c, section, "queue", mode)
	sc.setErrPlan(client, drawErrPlan(r))
	old := runtime.GOMAXPROCS([]int{2, 4, 8, 16}[r.Intn(4)])
	defer runtime.GOMAXPROCS(old)
	sc.Desc["gomaxprocs"] = runtime.GOMAXPROCS(0)
	sc.Desc["settings_change"] = change
	sc.Desc["reconfigured_through"] = mech

	q := startQueueSender(c, caseID, sc, client, st0, configured0, 2)
	if q == nil {
		return
	}
	s, stop := q.s, q.stop
	release := func() {
		if mech == "parked" {
			close(client.gate)
		}
	}

	// all timestamps of the scenario lie within a third of the smallest waiting time: the
	// timestamp trigger never fires, whatever ends up in one batch
	t := baseTime + int64(r.Intn(1000))
	// a quarter of the scenarios hand over records that were never stamped (Time 0), another
	// eighth records stamped in the first milliseconds of the epoch: the waiting time in force
	// applies to a pending batch whatever its records say (added after seeded change C16r7-3,
	// which took "first record's time is 0" for "nothing pending")
	unstamped := false
	switch r.Intn(8) {
	case 0, 1:
		t, unstamped = 0, true
		c.Count("lull_scenarios_with_unstamped_records", 1)
	case 2:
		t = int64(r.Intn(3))
	}
	span, seq := int64(0), 0
	next := func(contentLen int) *recSpec {
		if step := int64(r.Intn(2)); span+step < minWait/3 && !unstamped {
			t += step
			span += step
		}
		sp := newSpec(r, 0, seq, t, contentLen, false)
		seq++
		return sp
	}
	info := map[string]*lullRec{}
	owed := client.recordsReceived() // the priming record, when one was needed
	put := func(sp *recSpec, after bool) {
		sc.hand(sp)
		info[sp.ID] = &lullRec{added: time.Now(), after: after}
		s.Add(sp.build())
		owed++
	}

	st := st0
	if mech != "none" {
		// some traffic first; its last record reaches the buffer limit in force by itself, so
		// nothing is buffered when the settings are changed
		client.disarm()
		for k := r.Intn(5); k > 0; k-- {
			put(next(r.Intn(120)), false)
		}
		if mech == "parked" {
			if !waitUntil(watchdog, func() bool { return queueLen(s.Queue) == 0 }) {
				c.Inconclusive(caseID, "the queue was not drained within the watchdog")
				release()
				stop()
				return
			}
			client.arm()
		}
		r0 := next(st0.Buf + r.Intn(2000))
		put(r0, false)
		var pending []*recSpec
		if mech == "parked" {
			select {
			case <-client.entered:
			case <-time.After(watchdog):
				c.Inconclusive(caseID, "the blocked hand-over was not observed within the watchdog")
				release()
				stop()
				return
			}
			if queueLen(s.Queue) > 0 {
				pending = append(pending, r0) // parked in an earlier (idle) hand-over: R0 is appended after the release
			}
		} else if !waitUntil(watchdog, func() bool { return client.recordsReceived() >= owed }) {
			c.Inconclusive(caseID, "the traffic before the reconfiguration was not handed over within the watchdog")
			stop()
			return
		}
		// the reconfiguration(s); the last one is in force afterwards
		for k := r.Range(1, 2); k > 0; k-- {
			st = settings{Wait: wait1, Buf: st0.Buf, ZipMin: st0.ZipMin, Queue: st0.Queue}
			if k > 1 {
				st.Wait = int64(r.Range(30, 3000)) // overridden again right away
			}
			if change == "other-keys-only" || r.Chance(1, 2) {
				st.Buf = []int{300, 4096, 16 * 1024, 64 * 1024, 1 << 20}[r.Intn(5)]
				st.ZipMin = zipMins[r.Intn(len(zipMins))]
				st.Queue = st0.Queue + []int{0, 1, 500}[r.Intn(3)]
			}
			s.ApplyConfig(newConf(st.vals()))
			sc.checkApplied(readSettings(s), st)
			sc.Epochs = append(sc.Epochs, epoch{st, true})
			c.Count("applyconfig_calls", 1)
			c.Count("lull_applyconfig_while_running/"+mech, 1)
		}
		for _, sp := range pending {
			sp.setIndex = len(sc.Epochs) - 1
			info[sp.ID].after = true // taken from the queue after the release
		}
		release()
	}
	W := st.Wait
	sc.Desc["waiting_time_at_start"] = st0.Wait
	sc.Desc["waiting_time_in_force_during_the_lull"] = W

	// the batch: a few small records, then silence
	n := r.Range(1, 6)
	pauses := r.Chance(1, 3)
	for k := 0; k < n; k++ {
		put(next(r.Intn(100)), true)
		if pauses && k < n-1 {
			time.Sleep(time.Duration(r.Intn(int(W)/4+1)) * time.Millisecond)
		}
	}
	tLast := time.Now()
	cd := time.Duration(W) * time.Millisecond
	if cd > 500*time.Millisecond {
		cd = 500 * time.Millisecond
	}
	ctl := startControl(cd)
	judged := W <= lullJudgeMaxWait
	deadline := 8 * time.Duration(W) * time.Millisecond
	if deadline < lullMinDeadline {
		deadline = lullMinDeadline
	}
	if !judged {
		deadline = 2*time.Duration(W)*time.Millisecond + lullMinDeadline
		if mech == "concurrent" {
			deadline += time.Duration(st0.Wait/3) * time.Millisecond
		}
	}
	sc.Desc["lull_batch_records"] = n
	sc.Desc["lull_deadline_ms"] = deadline.Milliseconds()
	arrived := waitUntil(deadline, func() bool { return client.recordsReceived() >= owed })
	lat := time.Since(tLast)
	ctlOK, ctlN, ctlWorst := ctl.finish()
	c.Count("lull_scenarios", 1)
	c.Count("lull_scenarios/"+change+"/"+mech, 1)
	c.SetAdd("lull_waiting_times_in_force", fmt.Sprint(W))
	c.Max("max_lull_control_sleep_overshoot_ms", (ctlWorst - cd).Milliseconds())
	switch {
	case arrived:
		c.Count("lull_batches_handed_over_within_deadline", 1)
		if judged {
			c.Count("lull_batches_judged_for_lateness", 1)
		}
		c.Max("max_lull_flush_latency_ms", lat.Milliseconds())
		c.Max("max_lull_flush_latency_percent_of_deadline", lat.Milliseconds()*100/deadline.Milliseconds())
	case !judged:
		c.Count("lull_not_judged/waiting-time-above-500ms", 1)
	case !ctlOK:
		c.Count("lull_not_judged/process-not-scheduled-normally", 1)
	default:
		// keep watching for a while: when the batch finally arrives tells which waiting time was used
		later := waitUntil(time.Duration(st0.Wait+builtin.Wait)*time.Millisecond+2*time.Second, func() bool { return client.recordsReceived() >= owed })
		when := "it had still not been handed over " + time.Since(tLast).Round(10*time.Millisecond).String() + " after the last Add"
		if later {
			when = "it was handed over " + time.Since(tLast).Round(10*time.Millisecond).String() + " after the last Add"
		}
		c.Count("lull_batches_judged_for_lateness", 1)
		c.Fail("ZipSender:idle-flush-late/waiting-time-in-force",
			fmt.Sprintf("the waiting time in force is %d ms (at start-up: %d ms, settings change: %s, applied through: %s) — a batch of %d record(s) was handed over through the queue and no further record arrived: %d ms later (max(8 x waiting time, 3 s)) the batch had not reached the client; %s. The process was scheduled normally meanwhile (%d control sleeps of %d ms, the longest took %d ms)",
				W, st0.Wait, change, mech, n, deadline.Milliseconds(), when, ctlN, cd.Milliseconds(), ctlWorst.Milliseconds()),
			sc.detail(map[string]interface{}{"waiting_time_in_force_ms": W, "waiting_time_at_start_ms": st0.Wait, "deadline_ms": deadline.Milliseconds(),
				"records_owed": owed, "records_received_at_deadline": client.recordsReceived(), "control_sleeps": ctlN, "control_longest_ms": ctlWorst.Milliseconds()}, nil))
	}

	// sometimes traffic resumes before the stop
	if r.Chance(1, 3) {
		for k := r.Range(1, 4); k > 0; k-- {
			put(next(r.Intn(100)), true)
		}
	}
	if !waitUntil(watchdog, func() bool { return queueLen(s.Queue) == 0 }) {
		c.Inconclusive(caseID, "the queue was not drained within the watchdog")
		stop()
		return
	}
	sc.earlyGuard = false // idle flushes are what this section is about
	if !stop() {
		c.Inconclusive(caseID, "the background goroutine did not end within the watchdog after cancellation")
		return
	}
	if client.expired() {
		c.Inconclusive(caseID, "the blocked hand-over was not released within the watchdog")
		return
	}
	for _, id := range leftInQueue(s.Queue) {
		sc.inQueue[id] = true
	}
	c.Count("queue_scenarios_stopped", 1)
	sc.hs = client.snapshot()
	sc.describe(r)
	sc.evaluate()

	// early: an idle flush less than 3/4 of the waiting time in force after the pack's last record was put
	for pi, v := range sc.views {
		if pi >= len(sc.hs) || len(v.IDs) == 0 || sc.hs[pi].AfterCancel {
			continue
		}
		var specs []*recSpec
		for _, id := range v.IDs {
			if sp := sc.byID[id]; sp != nil {
				specs = append(specs, sp)
			}
		}
		if len(specs) != len(v.IDs) || int(v.Count) != len(specs) {
			continue // judged by evaluate
		}
		last := specs[len(specs)-1]
		li := info[last.ID]
		if li == nil || !li.after {
			continue // settings of an earlier epoch may still have timed this flush
		}
		E := sc.Epochs[last.setIndex].S
		cum, byTime := 0, false
		for _, sp := range specs {
			cum += sp.Len()
			if sp.Time-specs[0].Time >= E.Wait {
				byTime = true
			}
		}
		if cum >= E.Buf || byTime {
			continue
		}
		sat := sc.hs[pi].At.Sub(li.added)
		c.Count("lull_idle_flushes_judged_for_earliness", 1)
		if E.Wait > st0.Wait {
			c.Count("lull_idle_flushes_judged_for_earliness/waiting-time-raised", 1)
		}
		if sat*4 < 3*time.Duration(E.Wait)*time.Millisecond {
			c.Fail("ZipSender:idle-flush-early/waiting-time-in-force",
				fmt.Sprintf("pack %d (%d bytes, records %v, timestamps within %d ms) was closed by neither the buffer limit (%d) nor record timestamps nor the stop: it was handed over %d ms after its last record was put although the waiting time in force since before that record is %d ms (at start-up: %d ms, settings change: %s, applied through: %s)",
					pi, cum, v.IDs, specs[len(specs)-1].Time-specs[0].Time, E.Buf, sat.Milliseconds(), E.Wait, st0.Wait, change, mech),
				sc.detail(map[string]interface{}{"pack": pi, "waiting_time_in_force_ms": E.Wait, "waiting_time_at_start_ms": st0.Wait, "handed_over_ms_after_last_record_was_put": sat.Milliseconds()}, sc.views))
		}
	}
}
