package main

// Record descriptions (neutral, no golib types), their independent reference encoding
// (refcodec only) and the construction of the golib LogSinkPack handed to the sender.

import (
	"fmt"

	"github.com/whatap/golib/lang/pack"

	"verif/refcodec"
	"verif/vlib"
)

const packTypeLogSink = 0x170a
const packTypeZip = 0x170b

type kv struct {
	K      string
	IsText bool
	S      string
	N      int64
}

type recSpec struct {
	ID        string // unique in the scenario; also the Category
	Prod      int
	Seq       int
	Pcode     int64
	Oid       int32
	Okind     int32
	Onode     int32
	Time      int64
	Tags      []kv
	TagHash   int64 // preset; 0 = computed by the writer when there are tags
	Line      int64
	Content   string
	Fields    []kv
	NilFields bool // no fields and the pack's Fields pointer is nil (encodes like an empty field map)
	ref       []byte
	setIndex  int // index into the scenario's settings epochs (settings in force at hand-over)
}

func kvMap(l []kv) refcodec.V {
	v := refcodec.V{Tag: refcodec.TMap}
	for _, e := range l {
		v.Keys = append(v.Keys, e.K)
		if e.IsText {
			v.Vals = append(v.Vals, refcodec.V{Tag: refcodec.TText, S: e.S})
		} else {
			v.Vals = append(v.Vals, refcodec.V{Tag: refcodec.TDecimal, I: e.N})
		}
	}
	return v
}

// encode is the reference encoding of the record as it must appear in a zip pack payload:
// int16 pack type, common header, version byte 0, category, tag hash, tag map, line,
// content, optional field map.
func (s *recSpec) encode() []byte {
	w := refcodec.NewW()
	w.I16(packTypeLogSink)
	if s.Okind|s.Onode == 0 {
		w.Decimal(s.Pcode).I32(s.Oid).I64(s.Time)
	} else {
		w.U8(9).Decimal(s.Pcode).I32(s.Oid).I32(s.Okind).I32(s.Onode).I64(s.Time)
	}
	w.U8(0)
	w.Text(s.ID)
	mb := refcodec.EncodeValue(kvMap(s.Tags))
	th := s.TagHash
	if th == 0 && len(s.Tags) > 0 {
		th = refcodec.Hash64(mb)
	}
	w.Decimal(th)
	w.Raw(mb)
	w.Decimal(s.Line)
	w.Text(s.Content)
	if len(s.Fields) > 0 {
		w.Bool(true)
		w.Value(kvMap(s.Fields))
	} else {
		w.Bool(false)
	}
	return w.B
}

func (s *recSpec) Ref() []byte {
	if s.ref == nil {
		s.ref = s.encode()
	}
	return s.ref
}

func (s *recSpec) Len() int { return len(s.Ref()) }

// build makes a fresh golib pack from the description (never shared with the oracle).
func (s *recSpec) build() *pack.LogSinkPack {
	p := pack.NewLogSinkPack()
	p.Pcode, p.Oid, p.Okind, p.Onode, p.Time = s.Pcode, s.Oid, s.Okind, s.Onode, s.Time
	p.Category = s.ID
	p.TagHash = s.TagHash
	for _, e := range s.Tags {
		if e.IsText {
			p.Tags.PutString(e.K, e.S)
		} else {
			p.Tags.PutLong(e.K, e.N)
		}
	}
	p.Line = s.Line
	p.Content = s.Content
	if s.NilFields && len(s.Fields) == 0 {
		p.Fields = nil
	}
	for _, e := range s.Fields {
		if e.IsText {
			p.Fields.PutString(e.K, e.S)
		} else {
			p.Fields.PutLong(e.K, e.N)
		}
	}
	return p
}

func (s *recSpec) brief() map[string]interface{} {
	return map[string]interface{}{"id": s.ID, "time": s.Time, "bytes": s.Len(), "content_len": len(s.Content),
		"tags": len(s.Tags), "fields": len(s.Fields), "nil_fields_pointer": s.NilFields}
}

const maxContent = 200 * 1024

var contentSizes = []int{0, 0, 1, 2, 7, 20, 40, 60, 90, 100, 120, 253, 254, 255, 256, 600, 1024, 4096}
var bigSizes = []int{16 * 1024, 65535, 65536, 65537, 70 * 1024, 100 * 1024, maxContent}

// filler is printable and depends on the stream, so two records never share content and an
// overwritten payload cannot look like the original.
func filler(r *vlib.Rand, n int) string {
	const a = "abcdefghijklmnopqrstuvwxyzABCDEFGHIJKLMNOPQRSTUVWXYZ0123456789 .,:;-_/=+"
	b := make([]byte, n)
	for i := 0; i < n; i += 10 {
		v := r.U64()
		for j := 0; j < 10 && i+j < n; j++ {
			b[i+j] = a[int(v&63)%len(a)]
			v >>= 6
		}
	}
	return string(b)
}

// newSpec draws a record. contentLen<0 draws the length from the biased table.
func newSpec(r *vlib.Rand, prod, seq int, t int64, contentLen int, allowBig bool) *recSpec {
	s := &recSpec{Prod: prod, Seq: seq, Time: t}
	s.ID = fmt.Sprintf("r%d.%d", prod, seq)
	switch r.Intn(6) {
	case 0:
		s.Pcode = int64(r.Intn(1 << 20))
		s.Oid = int32(r.U32())
	case 1:
		s.Pcode = r.I64()
		s.Oid = int32(r.U32())
		s.Okind = int32(r.Intn(1000))
		s.Onode = int32(r.Intn(3))
		if s.Okind|s.Onode == 0 {
			s.Onode = 7
		}
	}
	if contentLen < 0 {
		if allowBig && r.Chance(1, 14) {
			contentLen = bigSizes[r.Intn(len(bigSizes))]
		} else if r.Chance(1, 3) {
			contentLen = r.Intn(400)
		} else {
			contentLen = contentSizes[r.Intn(len(contentSizes))]
		}
	}
	s.setContentLen(r, contentLen)
	switch r.Intn(5) {
	case 0: // no tags at all: the id lives in the category only
	case 1:
		s.Tags = []kv{{K: "id", IsText: true, S: s.ID}}
		s.TagHash = r.I64() // preset hash is carried as given
	default:
		s.Tags = []kv{{K: "id", IsText: true, S: s.ID}}
		n := r.Intn(4)
		for i := 0; i < n; i++ {
			if r.Bool() {
				s.Tags = append(s.Tags, kv{K: fmt.Sprintf("k%d", i), IsText: true, S: r.Str(40)})
			} else {
				s.Tags = append(s.Tags, kv{K: fmt.Sprintf("n%d", i), N: r.I64()})
			}
		}
	}
	if r.Chance(1, 4) {
		s.Line = r.I64()
	}
	if r.Chance(1, 5) {
		s.Fields = []kv{{K: "f", IsText: true, S: s.ID}, {K: "v", N: int64(seq)}}
	} else if r.Chance(1, 6) {
		s.NilFields = true
	}
	return s
}

func (s *recSpec) setContentLen(r *vlib.Rand, n int) {
	if n < 0 {
		n = 0
	}
	if n > maxContent {
		n = maxContent
	}
	head := s.ID + "|"
	if n >= len(head) {
		s.Content = head + filler(r, n-len(head))
	} else {
		s.Content = filler(r, n)
	}
	s.ref = nil
}

// fitTo adjusts the content so that the encoded record has exactly target bytes; false when
// the target is not reachable (below the fixed part, above the cap, or in a prefix-width gap).
func (s *recSpec) fitTo(r *vlib.Rand, target int) bool {
	for k := 0; k < 6; k++ {
		d := target - s.Len()
		if d == 0 {
			return true
		}
		n := len(s.Content) + d
		if n < 0 || n > maxContent {
			return false
		}
		s.setContentLen(r, n)
	}
	return s.Len() == target
}

// ---- records that cannot be encoded -----------------------------------------------------------

// badRec is a record whose encoding panics (it was not built by NewLogSinkPack, or a map holds
// a nil value, or it is a nil pointer). The property owes nothing for it — and nothing of it may
// reach a pack: no bytes, no count, no effect on the records around it.
type badRec struct {
	Kind string
	ID   string // its Category ("" for the zero value and the nil pack)
	P    *pack.LogSinkPack
}

var badKinds = []string{"zero-value", "nil-pack", "nil-tags", "nil-tags-preset-hash", "nil-tag-value", "nil-tag-value-preset-hash", "nil-field-value"}

// usableBadKinds: the kinds whose encoding really panics in the revision under test (probed once
// with golib's encoder; this classifies the INPUT — a kind that a later revision encodes is simply
// an ordinary record there and is not used). Verdicts never come from this probe.
var usableBadKinds []string

func probeBadKinds(c *vlib.Ctx) {
	r := vlib.NewRand(1)
	for _, k := range badKinds {
		b := buildBad(r, k, 0, baseTime, 100)
		if vlib.Catch(func() { pack.ToBytesPack(b.P) }) != nil {
			usableBadKinds = append(usableBadKinds, k)
		} else {
			c.SetAdd("unencodable_kinds_that_encode_in_this_revision", k)
		}
	}
}

// newBad draws one (nil when no kind is usable). n numbers the bad records of the scenario;
// t / wait place its timestamp on, or beyond, the time trigger of the batch it falls into (it
// must not close it).
func newBad(r *vlib.Rand, n int, t, wait int64, allowNil bool) *badRec {
	if len(usableBadKinds) == 0 {
		return nil
	}
	k := usableBadKinds[r.Intn(len(usableBadKinds))]
	if k == "nil-pack" && !allowNil {
		k = usableBadKinds[0]
		if k == "nil-pack" {
			return nil
		}
	}
	return buildBad(r, k, n, t, wait)
}

func buildBad(r *vlib.Rand, kind string, n int, t, wait int64) *badRec {
	b := &badRec{Kind: kind}
	switch b.Kind {
	case "zero-value":
		b.P = &pack.LogSinkPack{}
		return b
	case "nil-pack":
		return b
	}
	b.ID = fmt.Sprintf("bad.%d", n)
	p := pack.NewLogSinkPack()
	p.Category = b.ID
	p.Time = t + []int64{0, 1, wait, 2 * wait}[r.Intn(4)]
	p.Pcode, p.Oid = int64(r.Intn(1<<20)), int32(r.U32())
	p.Line = int64(r.Intn(1000))
	p.Content = "UNENCODABLE|" + b.ID + "|" + filler(r, r.Intn(300))
	p.Tags.PutString("id", b.ID)
	switch b.Kind {
	case "nil-tags":
		p.Tags = nil
	case "nil-tags-preset-hash": // the encoder gets as far as the tag map
		p.Tags = nil
		p.TagHash = 1 + int64(r.Intn(1<<30))
	case "nil-tag-value": // fails while the tag hash is computed
		p.Tags.Put("nothing", nil)
	case "nil-tag-value-preset-hash": // fails in the middle of the tag map
		p.Tags.Put("nothing", nil)
		p.TagHash = 1 + int64(r.Intn(1<<30))
	case "nil-field-value": // fails in the last bytes of the record
		p.Fields.PutString("f", b.ID)
		p.Fields.Put("nothing", nil)
	}
	b.P = p
	return b
}
