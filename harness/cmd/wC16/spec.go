package main

// Record descriptions (neutral, no golib types), their independent reference encoding
// (refcodec only) and the construction of the golib LogSinkPack handed to the sender.

import (
	"fmt"

	"github.com/whatap/golib/lang/pack"

	"verif/refcodec"
	"verif/vlib"
)

const packTypeLogSink = 0x170a
const packTypeZip = 0x170b

type kv struct {
	K      string
	IsText bool
	S      string
	N      int64
}

type recSpec struct {
	ID       string // unique in the scenario; also the Category
	Prod     int
	Seq      int
	Pcode    int64
	Oid      int32
	Okind    int32
	Onode    int32
	Time     int64
	Tags     []kv
	TagHash  int64 // preset; 0 = computed by the writer when there are tags
	Line     int64
	Content  string
	Fields   []kv
	ref      []byte
	setIndex int // index into the scenario's settings epochs (settings in force at hand-over)
}

func kvMap(l []kv) refcodec.V {
	v := refcodec.V{Tag: refcodec.TMap}
	for _, e := range l {
		v.Keys = append(v.Keys, e.K)
		if e.IsText {
			v.Vals = append(v.Vals, refcodec.V{Tag: refcodec.TText, S: e.S})
		} else {
			v.Vals = append(v.Vals, refcodec.V{Tag: refcodec.TDecimal, I: e.N})
		}
	}
	return v
}

// encode is the reference encoding of the record as it must appear in a zip pack payload:
// int16 pack type, common header, version byte 0, category, tag hash, tag map, line,
// content, optional field map.
func (s *recSpec) encode() []byte {
	w := refcodec.NewW()
	w.I16(packTypeLogSink)
	if s.Okind|s.Onode == 0 {
		w.Decimal(s.Pcode).I32(s.Oid).I64(s.Time)
	} else {
		w.U8(9).Decimal(s.Pcode).I32(s.Oid).I32(s.Okind).I32(s.Onode).I64(s.Time)
	}
	w.U8(0)
	w.Text(s.ID)
	mb := refcodec.EncodeValue(kvMap(s.Tags))
	th := s.TagHash
	if th == 0 && len(s.Tags) > 0 {
		th = refcodec.Hash64(mb)
	}
	w.Decimal(th)
	w.Raw(mb)
	w.Decimal(s.Line)
	w.Text(s.Content)
	if len(s.Fields) > 0 {
		w.Bool(true)
		w.Value(kvMap(s.Fields))
	} else {
		w.Bool(false)
	}
	return w.B
}

func (s *recSpec) Ref() []byte {
	if s.ref == nil {
		s.ref = s.encode()
	}
	return s.ref
}

func (s *recSpec) Len() int { return len(s.Ref()) }

// build makes a fresh golib pack from the description (never shared with the oracle).
func (s *recSpec) build() *pack.LogSinkPack {
	p := pack.NewLogSinkPack()
	p.Pcode, p.Oid, p.Okind, p.Onode, p.Time = s.Pcode, s.Oid, s.Okind, s.Onode, s.Time
	p.Category = s.ID
	p.TagHash = s.TagHash
	for _, e := range s.Tags {
		if e.IsText {
			p.Tags.PutString(e.K, e.S)
		} else {
			p.Tags.PutLong(e.K, e.N)
		}
	}
	p.Line = s.Line
	p.Content = s.Content
	for _, e := range s.Fields {
		if e.IsText {
			p.Fields.PutString(e.K, e.S)
		} else {
			p.Fields.PutLong(e.K, e.N)
		}
	}
	return p
}

func (s *recSpec) brief() map[string]interface{} {
	return map[string]interface{}{"id": s.ID, "time": s.Time, "bytes": s.Len(), "content_len": len(s.Content),
		"tags": len(s.Tags), "fields": len(s.Fields)}
}

const maxContent = 200 * 1024

var contentSizes = []int{0, 0, 1, 2, 7, 20, 40, 60, 90, 100, 120, 253, 254, 255, 256, 600, 1024, 4096}
var bigSizes = []int{16 * 1024, 65535, 65536, 65537, 70 * 1024, 100 * 1024, maxContent}

// filler is printable and depends on the stream, so two records never share content and an
// overwritten payload cannot look like the original.
func filler(r *vlib.Rand, n int) string {
	const a = "abcdefghijklmnopqrstuvwxyzABCDEFGHIJKLMNOPQRSTUVWXYZ0123456789 .,:;-_/=+"
	b := make([]byte, n)
	for i := 0; i < n; i += 10 {
		v := r.U64()
		for j := 0; j < 10 && i+j < n; j++ {
			b[i+j] = a[int(v&63)%len(a)]
			v >>= 6
		}
	}
	return string(b)
}

// newSpec draws a record. contentLen<0 draws the length from the biased table.
func newSpec(r *vlib.Rand, prod, seq int, t int64, contentLen int, allowBig bool) *recSpec {
	s := &recSpec{Prod: prod, Seq: seq, Time: t}
	s.ID = fmt.Sprintf("r%d.%d", prod, seq)
	switch r.Intn(6) {
	case 0:
		s.Pcode = int64(r.Intn(1 << 20))
		s.Oid = int32(r.U32())
	case 1:
		s.Pcode = r.I64()
		s.Oid = int32(r.U32())
		s.Okind = int32(r.Intn(1000))
		s.Onode = int32(r.Intn(3))
		if s.Okind|s.Onode == 0 {
			s.Onode = 7
		}
	}
	if contentLen < 0 {
		if allowBig && r.Chance(1, 14) {
			contentLen = bigSizes[r.Intn(len(bigSizes))]
		} else if r.Chance(1, 3) {
			contentLen = r.Intn(400)
		} else {
			contentLen = contentSizes[r.Intn(len(contentSizes))]
		}
	}
	s.setContentLen(r, contentLen)
	switch r.Intn(5) {
	case 0: // no tags at all: the id lives in the category only
	case 1:
		s.Tags = []kv{{K: "id", IsText: true, S: s.ID}}
		s.TagHash = r.I64() // preset hash is carried as given
	default:
		s.Tags = []kv{{K: "id", IsText: true, S: s.ID}}
		n := r.Intn(4)
		for i := 0; i < n; i++ {
			if r.Bool() {
				s.Tags = append(s.Tags, kv{K: fmt.Sprintf("k%d", i), IsText: true, S: r.Str(40)})
			} else {
				s.Tags = append(s.Tags, kv{K: fmt.Sprintf("n%d", i), N: r.I64()})
			}
		}
	}
	if r.Chance(1, 4) {
		s.Line = r.I64()
	}
	if r.Chance(1, 5) {
		s.Fields = []kv{{K: "f", IsText: true, S: s.ID}, {K: "v", N: int64(seq)}}
	}
	return s
}

func (s *recSpec) setContentLen(r *vlib.Rand, n int) {
	if n < 0 {
		n = 0
	}
	if n > maxContent {
		n = maxContent
	}
	head := s.ID + "|"
	if n >= len(head) {
		s.Content = head + filler(r, n-len(head))
	} else {
		s.Content = filler(r, n)
	}
	s.ref = nil
}

// fitTo adjusts the content so that the encoded record has exactly target bytes; false when
// the target is not reachable (below the fixed part, above the cap, or in a prefix-width gap).
func (s *recSpec) fitTo(r *vlib.Rand, target int) bool {
	for k := 0; k < 6; k++ {
		d := target - s.Len()
		if d == 0 {
			return true
		}
		n := len(s.Content) + d
		if n < 0 || n > maxContent {
			return false
		}
		s.setContentLen(r, n)
	}
	return s.Len() == target
}
