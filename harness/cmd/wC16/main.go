// wC16 — log-sink zip batching emits every record exactly once, in order, decodably.
//
// Each scenario creates a fresh sender through the REAL GetInstance (after VerifResetInstance),
// hands records over through the queue (background goroutine running; stopped after the queue
// drained or, in the stop scenarios, while records are still buffered) or directly (Append,
// SendDirect), with the built-in defaults or with settings applied through the real
// ApplyConfig (repository's mock configuration), and judges what a recording TcpClient
// received. Time is virtual: the wait-time trigger compares record timestamps.
package main

import (
	"context"
	"fmt"
	"runtime"
	"runtime/debug"
	"strings"
	"sync"
	"sync/atomic"
	"time"

	"github.com/whatap/golib/lang/pack"
	"github.com/whatap/golib/logsink/zip"

	"verif/vlib"
)

const watchdog = 90 * time.Second

var (
	waitsDirect = []int64{1, 2, 10, 100, 1000, 5000, 60000}
	bufs        = []int{1, 64, 300, 1000, 4096, 16 * 1024, 64 * 1024, 1 << 20}
	zipMins     = []int{0, 1, 50, 100, 101, 1000, 5000, 1 << 30}
	queuesAny   = []int{1, 10, 1000, 5000}
)

func drawSettings(r *vlib.Rand, queueMode bool, nRecords int) settings {
	var s settings
	if queueMode {
		s.Wait = int64(r.Range(30, 200))
		s.Queue = nRecords + []int{0, 1, nRecords, 1000}[r.Intn(4)]
		if s.Queue < 1 {
			s.Queue = 1
		}
	} else {
		s.Wait = waitsDirect[r.Intn(len(waitsDirect))]
		s.Queue = queuesAny[r.Intn(len(queuesAny))]
	}
	s.Buf = bufs[r.Intn(len(bufs))]
	if r.Chance(1, 25) {
		s.Buf = 0
	}
	s.ZipMin = zipMins[r.Intn(len(zipMins))]
	return s
}

func pickMode(r *vlib.Rand) byte {
	if r.Bool() {
		return 'S'
	}
	return 'R'
}

// model is the batching the property states: a batch is closed when the bytes buffered reach
// the buffer limit or when a record is >= wait after the first buffered record. It is used to
// aim records at the boundaries and to know how the scenario's last record closes the batch;
// verdicts are taken from the emitted packs (oracle.go).
type model struct {
	bytes int
	first int64
	count int
}

func (m *model) add(sp *recSpec, S settings, useWait bool) string {
	m.bytes += sp.Len()
	m.count++
	if m.count == 1 {
		m.first = sp.Time
	}
	kind := ""
	if m.bytes >= S.Buf {
		kind = "size"
	} else if useWait && m.count > 1 && sp.Time-m.first >= S.Wait {
		kind = "time"
	}
	if kind != "" {
		*m = model{}
	}
	return kind
}

const baseTime = int64(1_700_000_000_000)

// nextSpec draws the next record of a directly fed scenario, often aimed at a boundary of the
// settings in force.
func nextSpec(c *vlib.Ctx, r *vlib.Rand, m *model, S settings, seq int, t *int64, useWait bool) *recSpec {
	switch mv := r.Intn(12); {
	case mv <= 1: // exactly at / one below / one above the buffer limit
		target := S.Buf + r.Intn(3) - 1
		sp := newSpec(r, 0, seq, *t, 0, false)
		if need := target - m.bytes; need > 0 && sp.fitTo(r, need) {
			c.Count("aimed_at_buffer_limit", 1)
			return sp
		}
		sp.setContentLen(r, r.Intn(120))
		return sp
	case mv == 2 && useWait && m.count > 0: // exactly at / one below / one above the wait time
		if t2 := m.first + S.Wait + int64(r.Intn(3)-1); t2 > 0 {
			*t = t2
			c.Count("aimed_at_wait_time", 1)
		}
		return newSpec(r, 0, seq, *t, -1, false)
	case mv == 3: // exactly at / around the compression threshold (counts when it is alone in its pack)
		sp := newSpec(r, 0, seq, *t, 0, false)
		if sp.fitTo(r, S.ZipMin+r.Intn(3)-1-m.bytes) {
			c.Count("aimed_at_zip_min", 1)
			return sp
		}
		sp.setContentLen(r, r.Intn(120))
		return sp
	case mv == 4: // time runs backwards a little
		*t -= int64(r.Intn(4))
		if *t < 1 {
			*t = 1
		}
		return newSpec(r, 0, seq, *t, -1, false)
	case mv == 5: // a chunk of about a quarter of the limit
		n := S.Buf / 4
		if n > maxContent/2 {
			n = maxContent / 2
		}
		*t += int64(r.Intn(3))
		return newSpec(r, 0, seq, *t, n+r.Intn(64), false)
	case mv == 6:
		*t += int64(r.Intn(3))
		return newSpec(r, 0, seq, *t, -1, true)
	default:
		*t += int64(r.Intn(6))
		return newSpec(r, 0, seq, *t, -1, false)
	}
}

func (sc *scenario) describe(r *vlib.Rand) {
	h := fmt.Sprintf("%s/%s/%c", sc.Section, sc.Path, sc.Mode)
	for _, e := range sc.Epochs {
		h += fmt.Sprintf("|%v%v", e.S, e.Configured)
	}
	n := 0
	for _, l := range sc.Handed {
		for _, sp := range l {
			h += fmt.Sprintf(";%d@%d", sp.Len(), sp.Time)
			n++
		}
	}
	sc.c.DistinctStr(h)
	sc.c.Count("records_handed_over", int64(n))
	if sc.c.WantSample() {
		var recs []interface{}
		for _, l := range sc.Handed {
			for _, sp := range l {
				if len(recs) < 12 {
					recs = append(recs, sp.brief())
				}
			}
		}
		var packs []interface{}
		for i, h := range sc.hs {
			if i >= 8 {
				break
			}
			if h.Wire != nil {
				packs = append(packs, map[string]interface{}{"encoded_zip_pack": vlib.Hex(h.Wire)})
			} else {
				packs = append(packs, map[string]interface{}{"status": h.Status, "record_count": h.Count, "stored_bytes": len(h.Records)})
			}
		}
		var eps []interface{}
		for _, e := range sc.Epochs {
			eps = append(eps, map[string]interface{}{"settings": e.S, "configured": e.Configured})
		}
		sc.c.Sample(map[string]interface{}{"section": sc.Section, "path": sc.Path, "client_mode": string(sc.Mode),
			"settings": eps, "records_handed_over": n, "first_records": recs, "packs_received": len(sc.hs), "first_packs": packs, "scenario": sc.Desc})
	}
}

// freshDirect creates a sender without the queue.
func freshDirect(client *recClient) (*zip.ZipSendProxyThread, context.CancelFunc) {
	zip.VerifResetInstance()
	ctx, cancel := context.WithCancel(context.Background())
	s := zip.GetInstance(zip.WithTcpClient(client), zip.WithContext(ctx, cancel))
	return s, cancel
}

// ---- Append from one goroutine -----------------------------------------------------------

func runAppend(c *vlib.Ctx, section string, r *vlib.Rand, useDefaults bool) {
	mode := pickMode(r)
	client := newRecClient(mode, false)
	s, cancel := freshDirect(client)
	defer cancel()
	sc := newScenario(c, section, "append", mode)
	sc.checkDefaults(readSettings(s))
	apply := func() {
		st := drawSettings(r, false, 0)
		s.ApplyConfig(newConf(st.vals()))
		sc.checkApplied(readSettings(s), st)
		sc.Epochs = append(sc.Epochs, epoch{st, true})
		c.Count("applyconfig_calls", 1)
	}
	if useDefaults {
		sc.Epochs = append(sc.Epochs, epoch{builtin, false})
	} else {
		apply()
	}
	n := r.Range(1, 60)
	reconfAt := -1
	if r.Chance(1, 4) {
		reconfAt = r.Intn(n) // settings changed between two appends
	}
	var m model
	t := baseTime + int64(r.Intn(1000))
	seq := 0
	for k := 0; k < n; k++ {
		if k == reconfAt {
			apply()
			c.Count("reconfigured_midstream", 1)
		}
		S := sc.Epochs[len(sc.Epochs)-1].S
		sp := nextSpec(c, r, &m, S, seq, &t, true)
		seq++
		sc.hand(sp)
		s.Append(sp.build())
		m.add(sp, S, true)
	}
	if m.count > 0 {
		// the closing record: >= wait after the first buffered record, so nothing may stay buffered
		S := sc.Epochs[len(sc.Epochs)-1].S
		t = m.first + S.Wait + int64(r.Intn(4))
		sp := newSpec(r, 0, seq, t, r.Intn(50), false)
		sc.hand(sp)
		s.Append(sp.build())
		m.add(sp, S, true)
	}
	cancel()
	sc.hs = client.snapshot()
	sc.describe(r)
	sc.evaluate()
}

// ---- SendDirect with slices ------------------------------------------------------------------

func runSendDirect(c *vlib.Ctx, section string, r *vlib.Rand, useDefaults bool) {
	mode := pickMode(r)
	client := newRecClient(mode, false)
	s, cancel := freshDirect(client)
	defer cancel()
	sc := newScenario(c, section, "senddirect", mode)
	sc.checkDefaults(readSettings(s))
	apply := func() {
		st := drawSettings(r, false, 0)
		s.ApplyConfig(newConf(st.vals()))
		sc.checkApplied(readSettings(s), st)
		sc.Epochs = append(sc.Epochs, epoch{st, true})
		c.Count("applyconfig_calls", 1)
	}
	if useDefaults {
		sc.Epochs = append(sc.Epochs, epoch{builtin, false})
	} else {
		apply()
	}
	calls := r.Range(1, 6)
	t := baseTime + int64(r.Intn(1000))
	seq := 0
	var lens []int
	for k := 0; k < calls; k++ {
		if !useDefaults && k > 0 && r.Chance(1, 5) {
			apply()
			c.Count("reconfigured_midstream", 1)
		}
		S := sc.Epochs[len(sc.Epochs)-1].S
		var l int
		switch r.Intn(6) {
		case 0:
			l = 0
		case 1, 2:
			l = 1
		default:
			l = r.Range(2, 40)
		}
		lens = append(lens, l)
		var arr []*pack.LogSinkPack
		if l == 0 && r.Bool() {
			arr = []*pack.LogSinkPack{}
		}
		var m model
		var lastSp *recSpec
		for j := 0; j < l; j++ {
			var sp *recSpec
			if l == 1 && r.Chance(2, 3) {
				// a call with one record whose size sits on the compression threshold
				sp = newSpec(r, 0, seq, t, 0, false)
				if sp.fitTo(r, S.ZipMin+r.Intn(3)-1) {
					c.Count("aimed_at_zip_min", 1)
				}
			} else {
				sp = nextSpec(c, r, &m, S, seq, &t, false)
			}
			seq++
			sc.hand(sp)
			arr = append(arr, sp.build())
			m.add(sp, S, false)
			lastSp = sp
		}
		if lastSp != nil {
			sc.tailIDs[lastSp.ID] = true
		}
		s.SendDirect(arr)
		c.Count("senddirect_calls", 1)
	}
	sc.Desc["call_lengths"] = lens
	cancel()
	sc.hs = client.snapshot()
	sc.describe(r)
	sc.evaluate()
}

// ---- through the queue, background goroutine running -------------------------------------------

// hookGrace is how long a scenario waits for the sender's loop to observe its context before it
// falls back to the priming record. It selects a mechanism, never a verdict.
const hookGrace = 2 * time.Second

// primeAlways: an earlier scenario of this process found that the sender's loop does not touch
// its context before it waits for records; later scenarios put the priming record at once.
var primeAlways bool

type queueSender struct {
	s    *zip.ZipSendProxyThread
	hc   *hookCtx
	t0   time.Time
	stop func() bool
}

// primeRecord is larger than the built-in buffer limit: appended under the defaults it is
// flushed at once, alone, by the sender's goroutine.
func primeRecord(prod int) *recSpec {
	sp := &recSpec{ID: fmt.Sprintf("r%d.0", prod), Prod: prod, Time: baseTime}
	sp.Content = sp.ID + "|" + strings.Repeat("priming record 0123456789 ", (builtin.Buf+2000)/26)
	return sp
}

// startQueueSender creates the sender with the queue and the background goroutine. The settings
// are read and the configuration is applied BY THE SENDER'S OWN GOROUTINE, so that the monitor
// introduces no unsynchronised access: in the first call its loop makes on its context (Done,
// Err, Deadline or Value, whichever it uses), or — when no such call is seen — inside the
// hand-over of a priming record that the goroutine flushes under the defaults (that record and
// its pack are part of the scenario: the defaults are the settings in force for them).
func startQueueSender(c *vlib.Ctx, caseID string, sc *scenario, client *recClient, st settings, configured bool, primeProd int) *queueSender {
	var vs0, vs1 settings
	conf := newConf(st.vals())
	hc := newHookCtx(func() {
		s := zip.GetInstance()
		vs0 = readSettings(s)
		if configured {
			s.ApplyConfig(conf)
			vs1 = readSettings(s)
		}
	})
	gated := client.gate != nil
	client.hc = hc
	client.disarm()
	zip.VerifResetInstance()
	base := runGoroutines()
	q := &queueSender{hc: hc, t0: time.Now()}
	q.s = zip.GetInstance(zip.WithTcpClient(client), zip.WithUseQueue(), zip.WithContext(hc, hc.cancel))
	q.stop = func() bool {
		hc.cancel()
		return waitUntil(watchdog, func() bool { return runGoroutines() <= base })
	}
	grace := hookGrace
	if primeAlways {
		grace = 0
	}
	var prime *recSpec
	if !hc.waitApplied(grace) {
		prime = primeRecord(primeProd)
		q.s.Add(prime.build())
		c.Count("priming_records_put", 1)
		if !hc.waitApplied(watchdog) {
			c.Inconclusive(caseID, "the background goroutine neither observed its context nor handed the priming record over within the watchdog")
			if gated {
				close(client.gate)
			}
			q.stop()
			return nil
		}
	}
	c.SetAdd("settings_applied_on_sender_goroutine_via", hc.via)
	sc.checkDefaults(vs0)
	if configured {
		sc.checkApplied(vs1, st)
		c.Count("applyconfig_calls", 1)
	}
	switch {
	case prime != nil && hc.via == "SendFlush":
		// packed under the defaults, before the configuration was applied
		primeAlways = true
		sc.Epochs = append(sc.Epochs, epoch{builtin, false})
		sc.hand(prime)
		if configured {
			sc.Epochs = append(sc.Epochs, epoch{st, true})
		}
	case prime != nil:
		// the loop observed its context after all, before it took the priming record: an
		// ordinary first record under the settings of the scenario
		sc.Epochs = append(sc.Epochs, epoch{st, configured})
		sc.hand(prime)
		// it must have left the queue (capacity) and, where the first hand-over is gated, have
		// been handed over before the scenario's own records are put
		if !waitUntil(watchdog, func() bool { return queueLen(q.s.Queue) == 0 && (!gated || client.count() > 0) }) {
			c.Inconclusive(caseID, "the priming record was not taken within the watchdog")
			if gated {
				close(client.gate)
			}
			q.stop()
			return nil
		}
	default:
		sc.Epochs = append(sc.Epochs, epoch{st, configured})
	}
	if gated {
		client.arm()
	}
	return q
}

// kind: "config" (settings applied), "defaults" (nothing applied), "capacity" (the client
// blocks the first hand-over while a burst larger than the queue is put).
func runQueue(c *vlib.Ctx, section string, idx int, r *vlib.Rand, kind string) {
	caseID := fmt.Sprintf("%s#%d", section, idx)
	mode := pickMode(r)
	capacity := kind == "capacity"
	configured := kind == "config" || (capacity && idx%5 != 0)
	client := newRecClient(mode, capacity)
	sc := newScenario(c, section, "queue", mode)

	// plan the records first (the queue size must cover them in the non-capacity kinds)
	nprod := r.Range(1, 8)
	total := r.Range(1, 120)
	if kind == "defaults" {
		total = r.Range(2, 200)
	}
	if c.Flavour == "race" && total > 60 {
		total = 60
	}
	if capacity {
		nprod = 1
	}
	var st settings
	if configured {
		st = drawSettings(r, true, total)
		if capacity {
			st.Queue = []int{1, 2, 7, 50, 300}[r.Intn(5)]
			if st.Buf > 4096 {
				st.Buf = 4096
			}
		}
	} else {
		st = builtin
	}

	old := runtime.GOMAXPROCS([]int{2, 4, 8, 16}[r.Intn(4)])
	defer runtime.GOMAXPROCS(old)
	sc.Desc["gomaxprocs"] = runtime.GOMAXPROCS(0)
	sc.Desc["producers"] = nprod
	c.SetAdd("gomaxprocs", fmt.Sprint(runtime.GOMAXPROCS(0)))

	q := startQueueSender(c, caseID, sc, client, st, configured, nprod)
	if q == nil {
		return
	}
	s, t0, stop := q.s, q.t0, q.stop

	tBase := baseTime + int64(r.Intn(1000))
	if capacity {
		// R0 reaches the buffer limit in force by itself: it is flushed at once and the client
		// blocks inside that hand-over, so the goroutine consumes nothing while the burst is put.
		r0 := newSpec(r, 0, 0, tBase, st.Buf+r.Intn(2000), false)
		sc.hand(r0)
		s.Add(r0.build())
		select {
		case <-client.entered:
		case <-time.After(watchdog):
			c.Inconclusive(caseID, "the first hand-over was not observed within the watchdog")
			close(client.gate)
			stop()
			return
		}
		burst := st.Queue + r.Range(1, 50)
		t := tBase
		for k := 1; k <= burst; k++ {
			t += int64(r.Intn(3))
			sp := newSpec(r, 0, k, t, r.Intn(40), false)
			sc.hand(sp)
			if k > st.Queue {
				sc.notAccepted[sp.ID] = true
			}
			s.Add(sp.build())
		}
		sc.Desc["burst"] = burst
		c.Count("capacity_bursts", 1)
		c.Count("records_over_capacity", int64(burst-st.Queue))
		close(client.gate)
	} else {
		// distribute the records over the producers; each producer has its own clock
		plans := make([][]*recSpec, nprod)
		pauses := make([][]int, nprod)
		clocks := make([]int64, nprod)
		seqs := make([]int, nprod)
		small := kind == "defaults" && r.Chance(2, 3) // far below 64 KiB / 5 s: must be ONE pack at stop
		sc.Desc["small_records_only"] = small
		span := int64(0)
		budget := 60000
		for k := 0; k < total; k++ {
			p := r.Intn(nprod)
			var sp *recSpec
			if small {
				step := int64(r.Intn(3))
				if span+step < 4000 {
					clocks[p] += step
					span += step
				}
				n := r.Intn(120)
				if budget < 400 {
					n = 0
				}
				sp = newSpec(r, p, seqs[p], tBase+clocks[p], n, false)
				sp.Fields, sp.ref = nil, nil
				budget -= sp.Len()
			} else {
				switch r.Intn(8) {
				case 0:
					clocks[p] += st.Wait + int64(r.Intn(3)) - 1
				case 1:
					clocks[p] += st.Wait / 2
				default:
					clocks[p] += int64(r.Intn(4))
				}
				sp = newSpec(r, p, seqs[p], tBase+clocks[p], -1, c.Flavour != "race")
			}
			seqs[p]++
			plans[p] = append(plans[p], sp)
			pause := 0
			if !small && kind == "config" && r.Chance(1, 40) {
				pause = int(st.Wait) + r.Intn(30) // long enough for an idle flush
			} else if r.Chance(1, 6) {
				pause = -1 // yield
			}
			pauses[p] = append(pauses[p], pause)
		}
		for p := range plans {
			for _, sp := range plans[p] {
				sc.hand(sp)
			}
		}
		var wg sync.WaitGroup
		for p := 0; p < nprod; p++ {
			wg.Add(1)
			go func(p int) {
				defer wg.Done()
				for k, sp := range plans[p] {
					lp := sp.build()
					s.Add(lp)
					switch pz := pauses[p][k]; {
					case pz > 0:
						time.Sleep(time.Duration(pz) * time.Millisecond)
					case pz < 0:
						runtime.Gosched()
					}
				}
			}(p)
		}
		wg.Wait()
		c.SetAdd("producers", fmt.Sprint(nprod))
	}
	if !waitUntil(watchdog, func() bool { return queueLen(s.Queue) == 0 }) {
		c.Inconclusive(caseID, "the queue was not drained within the watchdog")
		stop()
		return
	}
	// A flush without a trigger between two records needs a GetTimeout(wait) call of the loop to
	// time out, i.e. at least the wait time to pass after the sender was created. If the last
	// record was taken from the queue sooner than that, no such flush can separate two records
	// (load only makes this span longer: the judgement is then skipped, never wrong).
	drained := time.Since(t0)
	sc.earlyGuard = drained.Milliseconds()+50 < st.Wait
	if sc.earlyGuard {
		c.Count("queue_scenarios_early_flush_judged", 1)
	}
	tStop := time.Now()
	if !stop() {
		c.Inconclusive(caseID, "the background goroutine did not end within the watchdog after cancellation")
		return
	}
	c.Max("max_drain_ms", drained.Milliseconds())
	c.Max("max_stop_ms", time.Since(tStop).Milliseconds())
	if client.expired() {
		c.Inconclusive(caseID, "the blocked hand-over was not released within the watchdog")
		return
	}
	c.Count("queue_scenarios_stopped", 1)
	sc.hs = client.snapshot()
	sc.describe(r)
	sc.evaluate()
}

// ---- stop while records are still buffered ------------------------------------------------------

var (
	stopBufs    = []int{1024, 4096, 16 * 1024, 64 * 1024, 1 << 20}
	stopTimings = []string{"right-after-the-last-add", "queue-drained", "queue-drained-then-late-record",
		"goroutine-asleep-in-queue-wait-then-late-record", "while-producers-are-adding"}
)

// runStop: small records that reach neither trigger are still buffered (or still on their way
// through the queue) when the context is cancelled; the cancellation is placed at different
// moments relative to the last Add / Append. After the background goroutine has ended every
// record handed over is either emitted exactly once or still in the queue (never taken): a
// record that the goroutine took and that was not emitted is lost.
func runStop(c *vlib.Ctx, section string, idx int, r *vlib.Rand) {
	caseID := fmt.Sprintf("%s#%d", section, idx)
	mode := pickMode(r)
	client := newRecClient(mode, false)
	sc := newScenario(c, section, "queue", mode)
	timing := r.Intn(len(stopTimings))
	configured := !r.Chance(1, 8)
	if !configured && timing == 1 {
		timing = 0 // with the default 5 s wait an idle sender notices the cancellation only after 5 s
	}
	nprod := r.Range(1, 3)
	total := r.Range(1, 40)
	nlate := 0
	if timing == 2 || timing == 3 {
		nlate = r.Range(1, 3)
	}
	st := builtin
	if configured {
		st = settings{Wait: int64(r.Range(250, 900)), Buf: stopBufs[r.Intn(len(stopBufs))], ZipMin: zipMins[r.Intn(len(zipMins))],
			Queue: total + nlate + []int{0, 1, 1000}[r.Intn(3)]}
	}
	old := runtime.GOMAXPROCS([]int{2, 4, 8, 16}[r.Intn(4)])
	defer runtime.GOMAXPROCS(old)
	sc.Desc["gomaxprocs"] = runtime.GOMAXPROCS(0)
	sc.Desc["producers"] = nprod
	sc.Desc["cancelled"] = stopTimings[timing]

	// plan: every producer has its own clock; the span of all timestamps stays below the wait
	// time except for a few jumps in the first half (earlier batches closed by the time trigger)
	plans := make([][]*recSpec, nprod)
	clocks := make([]int64, nprod)
	seqs := make([]int, nprod)
	tBase := baseTime + int64(r.Intn(1000))
	tailSpan := int64(0)
	for k := 0; k < total; k++ {
		p := r.Intn(nprod)
		switch {
		case k < total/2 && r.Chance(1, 8):
			clocks[p] += st.Wait + int64(r.Intn(3)) - 1
		default:
			if step := int64(r.Intn(3)); tailSpan+step < st.Wait/4 {
				clocks[p] += step
				tailSpan += step
			}
		}
		n := contentSizes[r.Intn(len(contentSizes)-2)]
		if r.Chance(1, 3) {
			n = r.Intn(300)
		}
		sp := newSpec(r, p, seqs[p], tBase+clocks[p], n, false)
		seqs[p]++
		plans[p] = append(plans[p], sp)
	}
	var late []*recSpec
	tLate := tBase
	for _, cl := range clocks {
		if tBase+cl > tLate {
			tLate = tBase + cl
		}
	}
	for k := 0; k < nlate; k++ {
		late = append(late, newSpec(r, nprod, k, tLate+int64(k), r.Intn(120), false))
	}
	cancelAfter := int64(r.Range(1, total)) // timing 4: number of Adds after which the context is cancelled

	q := startQueueSender(c, caseID, sc, client, st, configured, nprod+1)
	if q == nil {
		return
	}
	s := q.s
	for p := range plans {
		for _, sp := range plans[p] {
			sc.hand(sp)
		}
	}
	for _, sp := range late {
		sc.hand(sp)
		sc.late[sp.ID] = true
	}
	var added atomic.Int64
	var wg sync.WaitGroup
	for p := 0; p < nprod; p++ {
		wg.Add(1)
		go func(p int) {
			defer wg.Done()
			for k, sp := range plans[p] {
				s.Add(sp.build())
				added.Add(1)
				if k%5 == 4 {
					runtime.Gosched()
				}
			}
		}(p)
	}
	cancelled := false
	if timing == 4 {
		for added.Load() < cancelAfter {
			runtime.Gosched()
		}
		q.hc.cancel()
		cancelled = true
	}
	wg.Wait()
	if timing >= 1 && timing <= 3 {
		if !waitUntil(watchdog, func() bool { return queueLen(s.Queue) == 0 }) {
			c.Inconclusive(caseID, "the queue was not drained within the watchdog")
			q.stop()
			return
		}
	}
	if timing == 3 {
		// mechanism only: make it likely that the cancellation falls into the queue wait
		asleep := false
		for k := 0; k < 200 && !asleep; k++ {
			if asleep = runSleepingInQueueWait(); !asleep {
				time.Sleep(100 * time.Microsecond)
			}
		}
		if asleep {
			c.Count("cancelled_while_goroutine_seen_asleep_in_queue_wait", 1)
		}
	}
	if !cancelled {
		q.hc.cancel()
	}
	for _, sp := range late {
		s.Add(sp.build())
	}
	if !q.stop() {
		c.Inconclusive(caseID, "the background goroutine did not end within the watchdog after cancellation")
		return
	}
	// no idle-timeout flush can have happened when the goroutine was gone sooner than the wait time
	sc.earlyGuard = time.Since(q.t0).Milliseconds()+50 < st.Wait
	if sc.earlyGuard {
		c.Count("queue_scenarios_early_flush_judged", 1)
	}
	for _, id := range leftInQueue(s.Queue) {
		sc.inQueue[id] = true
	}
	c.Count("records_left_in_queue_at_stop", int64(len(sc.inQueue)))
	c.Count("queue_scenarios_stopped", 1)
	c.Count("stop_scenarios", 1)
	c.SetAdd("stop_timings", stopTimings[timing])
	c.Count("stop_timing/"+stopTimings[timing], 1)
	sc.hs = client.snapshot()
	sc.describe(r)
	sc.evaluate()
}

func main() {
	c := vlib.Start("C16")
	debug.SetGCPercent(400) // every pack allocates a gzip writer (~1 MB): collect less often
	race := c.Flavour == "race"
	if !race {
		c.Cases("append-defaults", c.N(96, 2400), func(i int, r *vlib.Rand) { runAppend(c, "append-defaults", r, true) })
		c.Cases("append-config", c.N(480, 12000), func(i int, r *vlib.Rand) { runAppend(c, "append-config", r, false) })
		c.Cases("senddirect-defaults", c.N(64, 1600), func(i int, r *vlib.Rand) { runSendDirect(c, "senddirect-defaults", r, true) })
		c.Cases("senddirect-config", c.N(320, 8000), func(i int, r *vlib.Rand) { runSendDirect(c, "senddirect-config", r, false) })
	}
	nq, nd, nc, ns := c.N(240, 4000), c.N(8, 64), c.N(20, 200), c.N(96, 1600)
	if race {
		nq, nd, nc, ns = c.N(80, 1200), c.N(4, 24), c.N(8, 60), c.N(40, 480)
	}
	c.Cases("queue-stop", ns, func(i int, r *vlib.Rand) { runStop(c, "queue-stop", i, r) })
	c.Cases("queue-config", nq, func(i int, r *vlib.Rand) { runQueue(c, "queue-config", i, r, "config") })
	c.Cases("queue-capacity", nc, func(i int, r *vlib.Rand) { runQueue(c, "queue-capacity", i, r, "capacity") })
	c.Cases("queue-defaults", nd, func(i int, r *vlib.Rand) { runQueue(c, "queue-defaults", i, r, "defaults") })

	if c.Only == "" {
		c.Floor("packs", 40, c.Counter("packs"))
		c.Floor("records_decoded_and_compared", 200, c.Counter("records_decoded_and_compared"))
		c.Floor("queue_scenarios_stopped", 3, c.Counter("queue_scenarios_stopped"))
		c.Floor("stop_scenarios", 2, c.Counter("stop_scenarios"))
		c.Floor("stop_scenarios_with_buffered_records_flushed_by_stop", 1, c.Counter("stop_scenarios_with_buffered_records_flushed_by_stop"))
		if !race {
			c.Floor("retained_packs_compared", 20, c.Counter("retained_packs_compared"))
			c.Floor("defaults_settings_read", 20, c.Counter("defaults_settings_read"))
		}
	}
	c.Finish()
}
