// wC16 — log-sink zip batching emits every record exactly once, in order, decodably.
//
// Each scenario creates a fresh sender through the REAL GetInstance (after VerifResetInstance),
// hands records over through the queue (background goroutine running; stopped after the queue
// drained or, in the stop scenarios, while records are still buffered) or directly (Append,
// SendDirect), with the built-in defaults or with settings applied through the real
// ApplyConfig (repository's mock configuration), and judges what a recording TcpClient
// received. Time is virtual: the wait-time trigger compares record timestamps.
// The client either consumes the pack at once or retains it, and — independently, in every
// section — answers nil or, following a per-scenario script, an error (k-th hand-over, every
// n-th, the first k, from the k-th on, a random pattern, all). A pack passed to the client is
// emitted whatever the client answers: the oracles are the same with and without errors.
// The one exception to virtual time is queue-lull (lull.go): a batch sitting in the buffer while
// no further record arrives is flushed by the loop's timed queue wait only — judged on elapsed
// real time with a load probe next to it (late) and as a lower bound (early).
package main

import (
	"context"
	"fmt"
	"runtime"
	"runtime/debug"
	"strings"
	"sync"
	"sync/atomic"
	"time"

	"github.com/whatap/golib/lang/pack"
	"github.com/whatap/golib/logsink/zip"

	"verif/vlib"
)

const watchdog = 90 * time.Second

var (
	waitsDirect = []int64{1, 2, 10, 100, 1000, 5000, 60000}
	bufs        = []int{1, 64, 300, 1000, 4096, 16 * 1024, 64 * 1024, 1 << 20}
	zipMins     = []int{0, 1, 50, 100, 101, 1000, 5000, 1 << 30}
	queuesAny   = []int{1, 10, 1000, 5000}
)

func drawSettings(r *vlib.Rand, queueMode bool, nRecords int) settings {
	var s settings
	if queueMode {
		s.Wait = int64(r.Range(30, 200))
		s.Queue = nRecords + []int{0, 1, nRecords, 1000}[r.Intn(4)]
		if s.Queue < 1 {
			s.Queue = 1
		}
	} else {
		s.Wait = waitsDirect[r.Intn(len(waitsDirect))]
		s.Queue = queuesAny[r.Intn(len(queuesAny))]
	}
	s.Buf = bufs[r.Intn(len(bufs))]
	if r.Chance(1, 25) {
		s.Buf = 0
	}
	s.ZipMin = zipMins[r.Intn(len(zipMins))]
	return s
}

func pickMode(r *vlib.Rand) byte {
	if r.Bool() {
		return 'S'
	}
	return 'R'
}

// model is the batching the property states: a batch is closed when the bytes buffered reach
// the buffer limit or when a record is >= wait after the first buffered record. It is used to
// aim records at the boundaries and to know how the scenario's last record closes the batch;
// verdicts are taken from the emitted packs (oracle.go).
type model struct {
	bytes int
	first int64
	count int
}

func (m *model) add(sp *recSpec, S settings, useWait bool) string {
	m.bytes += sp.Len()
	m.count++
	if m.count == 1 {
		m.first = sp.Time
	}
	kind := ""
	if m.bytes >= S.Buf {
		kind = "size"
	} else if useWait && m.count > 1 && sp.Time-m.first >= S.Wait {
		kind = "time"
	}
	if kind != "" {
		*m = model{}
	}
	return kind
}

const baseTime = int64(1_700_000_000_000)

// nextSpec draws the next record of a directly fed scenario, often aimed at a boundary of the
// settings in force.
func nextSpec(c *vlib.Ctx, r *vlib.Rand, m *model, S settings, seq int, t *int64, useWait bool) *recSpec {
	switch mv := r.Intn(12); {
	case mv <= 1: // exactly at / one below / one above the buffer limit
		target := S.Buf + r.Intn(3) - 1
		sp := newSpec(r, 0, seq, *t, 0, false)
		if need := target - m.bytes; need > 0 && sp.fitTo(r, need) {
			c.Count("aimed_at_buffer_limit", 1)
			return sp
		}
		sp.setContentLen(r, r.Intn(120))
		return sp
	case mv == 2 && useWait && m.count > 0: // exactly at / one below / one above the wait time
		if t2 := m.first + S.Wait + int64(r.Intn(3)-1); t2 > 0 {
			*t = t2
			c.Count("aimed_at_wait_time", 1)
		}
		return newSpec(r, 0, seq, *t, -1, false)
	case mv == 3: // exactly at / around the compression threshold (counts when it is alone in its pack)
		sp := newSpec(r, 0, seq, *t, 0, false)
		if sp.fitTo(r, S.ZipMin+r.Intn(3)-1-m.bytes) {
			c.Count("aimed_at_zip_min", 1)
			return sp
		}
		sp.setContentLen(r, r.Intn(120))
		return sp
	case mv == 4: // time runs backwards a little
		*t -= int64(r.Intn(4))
		if *t < 1 {
			*t = 1
		}
		return newSpec(r, 0, seq, *t, -1, false)
	case mv == 5: // a chunk of about a quarter of the limit
		n := S.Buf / 4
		if n > maxContent/2 {
			n = maxContent / 2
		}
		*t += int64(r.Intn(3))
		return newSpec(r, 0, seq, *t, n+r.Intn(64), false)
	case mv == 6:
		*t += int64(r.Intn(3))
		return newSpec(r, 0, seq, *t, -1, true)
	default:
		*t += int64(r.Intn(6))
		return newSpec(r, 0, seq, *t, -1, false)
	}
}

func (sc *scenario) describe(r *vlib.Rand) {
	h := fmt.Sprintf("%s/%s/%c", sc.Section, sc.Path, sc.Mode)
	for _, e := range sc.Epochs {
		h += fmt.Sprintf("|%v%v", e.S, e.Configured)
	}
	n := 0
	for _, l := range sc.Handed {
		for _, sp := range l {
			h += fmt.Sprintf(";%d@%d", sp.Len(), sp.Time)
			n++
		}
	}
	for _, b := range sc.badNotes {
		h += ";bad:" + b
	}
	if sc.ErrPlan != "none" {
		h += ";client-errors:" + sc.ErrPlan
	}
	sc.c.DistinctStr(h)
	sc.c.Count("records_handed_over", int64(n))
	if len(sc.badNotes) > 0 {
		sc.Desc["unencodable_records_kind@before_record"] = sc.badNotes
		sc.c.Count("scenarios_with_unencodable_records", 1)
	}
	if sc.c.WantSample() {
		var recs []interface{}
		for _, l := range sc.Handed {
			for _, sp := range l {
				if len(recs) < 12 {
					recs = append(recs, sp.brief())
				}
			}
		}
		var packs []interface{}
		for i, h := range sc.hs {
			if i >= 8 {
				break
			}
			if h.Wire != nil {
				packs = append(packs, map[string]interface{}{"encoded_zip_pack": vlib.Hex(h.Wire), "client_answered": h.answered()})
			} else {
				packs = append(packs, map[string]interface{}{"status": h.Status, "record_count": h.Count, "stored_bytes": len(h.Records), "client_answered": h.answered()})
			}
		}
		var eps []interface{}
		for _, e := range sc.Epochs {
			eps = append(eps, map[string]interface{}{"settings": e.S, "configured": e.Configured})
		}
		sc.c.Sample(map[string]interface{}{"section": sc.Section, "path": sc.Path, "client_mode": string(sc.Mode), "client_errors": sc.ErrPlan,
			"settings": eps, "records_handed_over": n, "first_records": recs, "packs_received": len(sc.hs), "first_packs": packs, "scenario": sc.Desc})
	}
}

// freshDirect creates a sender without the queue.
func freshDirect(client *recClient) (*zip.ZipSendProxyThread, context.CancelFunc) {
	zip.VerifResetInstance()
	ctx, cancel := context.WithCancel(context.Background())
	s := zip.GetInstance(zip.WithTcpClient(client), zip.WithContext(ctx, cancel))
	return s, cancel
}

// ---- Append from one goroutine -----------------------------------------------------------

func runAppend(c *vlib.Ctx, section string, r *vlib.Rand, useDefaults bool) {
	mode := pickMode(r)
	client := newRecClient(mode, false)
	s, cancel := freshDirect(client)
	defer cancel()
	sc := newScenario(c, section, "append", mode)
	sc.setErrPlan(client, drawErrPlan(r))
	sc.checkDefaults(readSettings(s))
	apply := func() {
		st := drawSettings(r, false, 0)
		s.ApplyConfig(newConf(st.vals()))
		sc.checkApplied(readSettings(s), st)
		sc.Epochs = append(sc.Epochs, epoch{st, true})
		c.Count("applyconfig_calls", 1)
	}
	if useDefaults {
		sc.Epochs = append(sc.Epochs, epoch{builtin, false})
	} else {
		apply()
	}
	n := r.Range(1, 60)
	reconfAt := -1
	if r.Chance(1, 4) {
		reconfAt = r.Intn(n) // settings changed between two appends
	}
	var m model
	t := baseTime + int64(r.Intn(1000))
	seq := 0
	withBad := r.Chance(1, 3) // unencodable records between the good ones
	nbad := 0
	for k := 0; k < n; k++ {
		if k == reconfAt {
			apply()
			c.Count("reconfigured_midstream", 1)
			if m.count > 0 {
				c.Count("reconfigured_with_records_buffered", 1)
			}
		}
		S := sc.Epochs[len(sc.Epochs)-1].S
		for withBad && r.Chance(1, 6) {
			// the model is not told: such a record adds no bytes, opens no batch, closes none
			if b := newBad(r, nbad, t, S.Wait, true); b != nil {
				sc.handBad(b, fmt.Sprintf("r0.%d", seq))
				s.Append(b.P)
				nbad++
			}
		}
		sp := nextSpec(c, r, &m, S, seq, &t, true)
		seq++
		sc.hand(sp)
		s.Append(sp.build())
		m.add(sp, S, true)
	}
	if m.count > 0 {
		// the closing record: >= wait after the first buffered record, so nothing may stay buffered
		S := sc.Epochs[len(sc.Epochs)-1].S
		t = m.first + S.Wait + int64(r.Intn(4))
		sp := newSpec(r, 0, seq, t, r.Intn(50), false)
		sc.hand(sp)
		s.Append(sp.build())
		m.add(sp, S, true)
	}
	cancel()
	sc.hs = client.snapshot()
	sc.describe(r)
	sc.evaluate()
}

// ---- SendDirect with slices ------------------------------------------------------------------

func runSendDirect(c *vlib.Ctx, section string, r *vlib.Rand, useDefaults bool) {
	mode := pickMode(r)
	client := newRecClient(mode, false)
	s, cancel := freshDirect(client)
	defer cancel()
	sc := newScenario(c, section, "senddirect", mode)
	sc.setErrPlan(client, drawErrPlan(r))
	sc.checkDefaults(readSettings(s))
	apply := func() {
		st := drawSettings(r, false, 0)
		s.ApplyConfig(newConf(st.vals()))
		sc.checkApplied(readSettings(s), st)
		sc.Epochs = append(sc.Epochs, epoch{st, true})
		c.Count("applyconfig_calls", 1)
	}
	if useDefaults {
		sc.Epochs = append(sc.Epochs, epoch{builtin, false})
	} else {
		apply()
	}
	calls := r.Range(1, 6)
	t := baseTime + int64(r.Intn(1000))
	seq := 0
	var lens []int
	withBad := r.Chance(1, 4) // unencodable records inside the slices
	nbad := 0
	for k := 0; k < calls; k++ {
		if k > 0 && r.Chance(1, 4) {
			apply()
			c.Count("reconfigured_midstream", 1)
		}
		S := sc.Epochs[len(sc.Epochs)-1].S
		var l int
		switch r.Intn(6) {
		case 0:
			l = 0
		case 1, 2:
			l = 1
		default:
			l = r.Range(2, 40)
		}
		lens = append(lens, l)
		var arr []*pack.LogSinkPack
		if l == 0 && r.Bool() {
			arr = []*pack.LogSinkPack{}
		}
		var m model
		var lastSp *recSpec
		var callIDs []string
		var callBad []string
		for j := 0; j < l; j++ {
			if withBad && r.Chance(1, 6) {
				if b := newBad(r, nbad, t, S.Wait, true); b != nil {
					sc.handBad(b, fmt.Sprintf("r0.%d", seq))
					arr = append(arr, b.P)
					callBad = append(callBad, fmt.Sprintf("%s at index %d of the slice", b.Kind, len(arr)-1))
					nbad++
				}
			}
			var sp *recSpec
			if l == 1 && r.Chance(2, 3) {
				// a call with one record whose size sits on the compression threshold
				sp = newSpec(r, 0, seq, t, 0, false)
				if sp.fitTo(r, S.ZipMin+r.Intn(3)-1) {
					c.Count("aimed_at_zip_min", 1)
				}
			} else {
				sp = nextSpec(c, r, &m, S, seq, &t, false)
			}
			seq++
			sc.hand(sp)
			arr = append(arr, sp.build())
			callIDs = append(callIDs, sp.ID)
			m.add(sp, S, false)
			lastSp = sp
		}
		if withBad && l > 0 && r.Chance(1, 8) {
			if b := newBad(r, nbad, t, S.Wait, true); b != nil { // the slice ends with one
				sc.handBad(b, fmt.Sprintf("end-of-call-%d", k))
				arr = append(arr, b.P)
				callBad = append(callBad, fmt.Sprintf("%s at index %d of the slice", b.Kind, len(arr)-1))
				nbad++
			}
		}
		if lastSp != nil {
			sc.tailIDs[lastSp.ID] = true
		}
		if len(callBad) == 0 {
			s.SendDirect(arr)
		} else if pv := vlib.Catch(func() { s.SendDirect(arr) }); pv != nil {
			// The good records of this call that were not flushed before the panic are gone with it:
			// reported here, once, with the call (not again record by record).
			for _, id := range callIDs {
				sc.excused[id] = true
			}
			c.Fail("ZipSendProxyThread.SendDirect:panic-on-unencodable-record",
				fmt.Sprintf("SendDirect panicked out to its caller on a record that cannot be encoded (%v): %v — those of the %d good record(s) of the same slice that were not yet flushed are never emitted", callBad, pv, len(callIDs)),
				sc.detail(map[string]interface{}{"call": k, "slice_len": len(arr), "unencodable": callBad, "good_records_of_the_call": callIDs, "panic": fmt.Sprint(pv)}, nil))
		}
		c.Count("senddirect_calls", 1)
	}
	sc.Desc["call_lengths"] = lens
	cancel()
	sc.hs = client.snapshot()
	sc.describe(r)
	sc.evaluate()
}

// ---- through the queue, background goroutine running -------------------------------------------

// hookGrace is how long a scenario waits for the sender's loop to observe its context before it
// falls back to the priming record. It selects a mechanism, never a verdict.
const hookGrace = 2 * time.Second

// primeAlways: an earlier scenario of this process found that the sender's loop does not touch
// its context before it waits for records; later scenarios put the priming record at once.
var primeAlways bool

type queueSender struct {
	s    *zip.ZipSendProxyThread
	hc   *hookCtx
	t0   time.Time
	stop func() bool
}

// primeRecord is larger than the built-in buffer limit: appended under the defaults it is
// flushed at once, alone, by the sender's goroutine.
func primeRecord(prod int) *recSpec {
	sp := &recSpec{ID: fmt.Sprintf("r%d.0", prod), Prod: prod, Time: baseTime}
	sp.Content = sp.ID + "|" + strings.Repeat("priming record 0123456789 ", (builtin.Buf+2000)/26)
	return sp
}

// startQueueSender creates the sender with the queue and the background goroutine. The settings
// are read and the configuration is applied BY THE SENDER'S OWN GOROUTINE, so that the monitor
// introduces no unsynchronised access: in the first call its loop makes on its context (Done,
// Err, Deadline or Value, whichever it uses), or — when no such call is seen — inside the
// hand-over of a priming record that the goroutine flushes under the defaults (that record and
// its pack are part of the scenario: the defaults are the settings in force for them).
func startQueueSender(c *vlib.Ctx, caseID string, sc *scenario, client *recClient, st settings, configured bool, primeProd int) *queueSender {
	var vs0, vs1 settings
	conf := newConf(st.vals())
	hc := newHookCtx(func() {
		s := zip.GetInstance()
		vs0 = readSettings(s)
		if configured {
			s.ApplyConfig(conf)
			vs1 = readSettings(s)
		}
	})
	gated := client.gate != nil
	client.hc = hc
	client.disarm()
	zip.VerifResetInstance()
	base := runGoroutines()
	q := &queueSender{hc: hc, t0: time.Now()}
	q.s = zip.GetInstance(zip.WithTcpClient(client), zip.WithUseQueue(), zip.WithContext(hc, hc.cancel))
	q.stop = func() bool {
		hc.cancel()
		return waitUntil(watchdog, func() bool { return runGoroutines() <= base })
	}
	grace := hookGrace
	if primeAlways {
		grace = 0
	}
	var prime *recSpec
	if !hc.waitApplied(grace) {
		prime = primeRecord(primeProd)
		q.s.Add(prime.build())
		c.Count("priming_records_put", 1)
		if !hc.waitApplied(watchdog) {
			c.Inconclusive(caseID, "the background goroutine neither observed its context nor handed the priming record over within the watchdog")
			if gated {
				close(client.gate)
			}
			q.stop()
			return nil
		}
	}
	c.SetAdd("settings_applied_on_sender_goroutine_via", hc.via)
	sc.checkDefaults(vs0)
	if configured {
		sc.checkApplied(vs1, st)
		c.Count("applyconfig_calls", 1)
	}
	switch {
	case prime != nil && hc.via == "SendFlush":
		// packed under the defaults, before the configuration was applied
		primeAlways = true
		sc.Epochs = append(sc.Epochs, epoch{builtin, false})
		sc.hand(prime)
		if configured {
			sc.Epochs = append(sc.Epochs, epoch{st, true})
		}
	case prime != nil:
		// the loop observed its context after all, before it took the priming record: an
		// ordinary first record under the settings of the scenario
		sc.Epochs = append(sc.Epochs, epoch{st, configured})
		sc.hand(prime)
		// it must have left the queue (capacity) and, where the first hand-over is gated, have
		// been handed over before the scenario's own records are put
		if !waitUntil(watchdog, func() bool { return queueLen(q.s.Queue) == 0 && (!gated || client.count() > 0) }) {
			c.Inconclusive(caseID, "the priming record was not taken within the watchdog")
			if gated {
				close(client.gate)
			}
			q.stop()
			return nil
		}
	default:
		sc.Epochs = append(sc.Epochs, epoch{st, configured})
	}
	if gated {
		client.arm()
	}
	return q
}

// planBad places n unencodable records in the producers' plans: badAt[p][k] are put by producer
// p right before its k-th record (k == len(plan): after its last one).
func planBad(sc *scenario, r *vlib.Rand, n int, plans [][]*recSpec, clock func(p int) int64, wait int64) []map[int][]*badRec {
	badAt := make([]map[int][]*badRec, len(plans))
	for p := range badAt {
		badAt[p] = map[int][]*badRec{}
	}
	for i := 0; i < n; i++ {
		p := r.Intn(len(plans))
		k := r.Intn(len(plans[p]) + 1)
		b := newBad(r, i, clock(p), wait, true)
		if b == nil {
			continue
		}
		before := fmt.Sprintf("end-of-producer-%d", p)
		if k < len(plans[p]) {
			before = plans[p][k].ID
		}
		sc.handBad(b, before)
		badAt[p][k] = append(badAt[p][k], b)
	}
	return badAt
}

// kind: "config" (settings applied), "defaults" (nothing applied), "capacity" (the client
// blocks the first hand-over while a burst larger than the queue is put).
func runQueue(c *vlib.Ctx, section string, idx int, r *vlib.Rand, kind string) {
	caseID := fmt.Sprintf("%s#%d", section, idx)
	mode := pickMode(r)
	capacity := kind == "capacity"
	configured := kind == "config" || (capacity && idx%5 != 0)
	client := newRecClient(mode, capacity)
	sc := newScenario(c, section, "queue", mode)
	sc.setErrPlan(client, drawErrPlan(r))

	// plan the records first (the queue size must cover them in the non-capacity kinds)
	nprod := r.Range(1, 8)
	total := r.Range(1, 120)
	if kind == "defaults" {
		total = r.Range(2, 200)
	}
	if c.Flavour == "race" && total > 60 {
		total = 60
	}
	if capacity {
		nprod = 1
	}
	nbad := 0 // unencodable records put between the good ones (they take queue slots like any other)
	if !capacity && r.Chance(1, 3) {
		nbad = r.Range(1, 1+total/6)
	}
	var st settings
	if configured {
		st = drawSettings(r, true, total+nbad)
		if capacity {
			st.Queue = []int{1, 2, 7, 50, 300}[r.Intn(5)]
			if st.Buf > 4096 {
				st.Buf = 4096
			}
		}
	} else {
		st = builtin
	}

	old := runtime.GOMAXPROCS([]int{2, 4, 8, 16}[r.Intn(4)])
	defer runtime.GOMAXPROCS(old)
	sc.Desc["gomaxprocs"] = runtime.GOMAXPROCS(0)
	sc.Desc["producers"] = nprod
	c.SetAdd("gomaxprocs", fmt.Sprint(runtime.GOMAXPROCS(0)))

	q := startQueueSender(c, caseID, sc, client, st, configured, nprod)
	if q == nil {
		return
	}
	s, t0, stop := q.s, q.t0, q.stop

	tBase := baseTime + int64(r.Intn(1000))
	if capacity {
		// R0 reaches the buffer limit in force by itself: it is flushed at once and the client
		// blocks inside that hand-over, so the goroutine consumes nothing while the burst is put.
		r0 := newSpec(r, 0, 0, tBase, st.Buf+r.Intn(2000), false)
		sc.hand(r0)
		s.Add(r0.build())
		select {
		case <-client.entered:
		case <-time.After(watchdog):
			c.Inconclusive(caseID, "the first hand-over was not observed within the watchdog")
			close(client.gate)
			stop()
			return
		}
		burst := st.Queue + r.Range(1, 50)
		t := tBase
		for k := 1; k <= burst; k++ {
			t += int64(r.Intn(3))
			sp := newSpec(r, 0, k, t, r.Intn(40), false)
			sc.hand(sp)
			if k > st.Queue {
				sc.notAccepted[sp.ID] = true
			}
			s.Add(sp.build())
		}
		sc.Desc["burst"] = burst
		c.Count("capacity_bursts", 1)
		c.Count("records_over_capacity", int64(burst-st.Queue))
		close(client.gate)
	} else {
		// distribute the records over the producers; each producer has its own clock
		plans := make([][]*recSpec, nprod)
		pauses := make([][]int, nprod)
		clocks := make([]int64, nprod)
		seqs := make([]int, nprod)
		small := kind == "defaults" && r.Chance(2, 3) // far below 64 KiB / 5 s: must be ONE pack at stop
		sc.Desc["small_records_only"] = small
		span := int64(0)
		budget := 60000
		for k := 0; k < total; k++ {
			p := r.Intn(nprod)
			var sp *recSpec
			if small {
				step := int64(r.Intn(3))
				if span+step < 4000 {
					clocks[p] += step
					span += step
				}
				n := r.Intn(120)
				if budget < 400 {
					n = 0
				}
				sp = newSpec(r, p, seqs[p], tBase+clocks[p], n, false)
				sp.Fields, sp.ref = nil, nil
				budget -= sp.Len()
			} else {
				switch r.Intn(8) {
				case 0:
					clocks[p] += st.Wait + int64(r.Intn(3)) - 1
				case 1:
					clocks[p] += st.Wait / 2
				default:
					clocks[p] += int64(r.Intn(4))
				}
				sp = newSpec(r, p, seqs[p], tBase+clocks[p], -1, c.Flavour != "race")
			}
			seqs[p]++
			plans[p] = append(plans[p], sp)
			pause := 0
			if !small && kind == "config" && r.Chance(1, 40) {
				pause = int(st.Wait) + r.Intn(30) // long enough for an idle flush
			} else if r.Chance(1, 6) {
				pause = -1 // yield
			}
			pauses[p] = append(pauses[p], pause)
		}
		for p := range plans {
			for _, sp := range plans[p] {
				sc.hand(sp)
			}
		}
		badAt := planBad(sc, r, nbad, plans, func(p int) int64 { return tBase + clocks[p] }, st.Wait)
		var wg sync.WaitGroup
		for p := 0; p < nprod; p++ {
			wg.Add(1)
			go func(p int) {
				defer wg.Done()
				defer func() {
					for _, b := range badAt[p][len(plans[p])] {
						s.Add(b.P)
					}
				}()
				for k, sp := range plans[p] {
					for _, b := range badAt[p][k] {
						s.Add(b.P)
					}
					lp := sp.build()
					s.Add(lp)
					switch pz := pauses[p][k]; {
					case pz > 0:
						time.Sleep(time.Duration(pz) * time.Millisecond)
					case pz < 0:
						runtime.Gosched()
					}
				}
			}(p)
		}
		wg.Wait()
		c.SetAdd("producers", fmt.Sprint(nprod))
	}
	if !waitUntil(watchdog, func() bool { return queueLen(s.Queue) == 0 }) {
		c.Inconclusive(caseID, "the queue was not drained within the watchdog")
		stop()
		return
	}
	// A flush without a trigger between two records needs a GetTimeout(wait) call of the loop to
	// time out, i.e. at least the wait time to pass after the sender was created. If the last
	// record was taken from the queue sooner than that, no such flush can separate two records
	// (load only makes this span longer: the judgement is then skipped, never wrong).
	drained := time.Since(t0)
	sc.earlyGuard = drained.Milliseconds()+50 < st.Wait
	if sc.earlyGuard {
		c.Count("queue_scenarios_early_flush_judged", 1)
	}
	tStop := time.Now()
	if !stop() {
		c.Inconclusive(caseID, "the background goroutine did not end within the watchdog after cancellation")
		return
	}
	c.Max("max_drain_ms", drained.Milliseconds())
	c.Max("max_stop_ms", time.Since(tStop).Milliseconds())
	if client.expired() {
		c.Inconclusive(caseID, "the blocked hand-over was not released within the watchdog")
		return
	}
	c.Count("queue_scenarios_stopped", 1)
	sc.hs = client.snapshot()
	sc.describe(r)
	sc.evaluate()
}

// ---- stop while records are still buffered ------------------------------------------------------

var (
	stopBufs    = []int{1024, 4096, 16 * 1024, 64 * 1024, 1 << 20}
	stopTimings = []string{"right-after-the-last-add", "queue-drained", "queue-drained-then-late-record",
		"goroutine-asleep-in-queue-wait-then-late-record", "while-producers-are-adding"}
)

// runStop: small records that reach neither trigger are still buffered (or still on their way
// through the queue) when the context is cancelled; the cancellation is placed at different
// moments relative to the last Add / Append. After the background goroutine has ended every
// record handed over is either emitted exactly once or still in the queue (never taken): a
// record that the goroutine took and that was not emitted is lost.
func runStop(c *vlib.Ctx, section string, idx int, r *vlib.Rand) {
	caseID := fmt.Sprintf("%s#%d", section, idx)
	mode := pickMode(r)
	client := newRecClient(mode, false)
	sc := newScenario(c, section, "queue", mode)
	sc.setErrPlan(client, drawErrPlan(r))
	timing := r.Intn(len(stopTimings))
	configured := !r.Chance(1, 8)
	if !configured && timing == 1 {
		timing = 0 // with the default 5 s wait an idle sender notices the cancellation only after 5 s
	}
	nprod := r.Range(1, 3)
	total := r.Range(1, 40)
	nlate := 0
	if timing == 2 || timing == 3 {
		nlate = r.Range(1, 3)
	}
	nbad := 0
	if r.Chance(1, 3) {
		nbad = r.Range(1, 1+total/6)
	}
	st := builtin
	if configured {
		st = settings{Wait: int64(r.Range(250, 900)), Buf: stopBufs[r.Intn(len(stopBufs))], ZipMin: zipMins[r.Intn(len(zipMins))],
			Queue: total + nlate + nbad + []int{0, 1, 1000}[r.Intn(3)]}
	}
	old := runtime.GOMAXPROCS([]int{2, 4, 8, 16}[r.Intn(4)])
	defer runtime.GOMAXPROCS(old)
	sc.Desc["gomaxprocs"] = runtime.GOMAXPROCS(0)
	sc.Desc["producers"] = nprod
	sc.Desc["cancelled"] = stopTimings[timing]

	// plan: every producer has its own clock; the span of all timestamps stays below the wait
	// time except for a few jumps in the first half (earlier batches closed by the time trigger)
	plans := make([][]*recSpec, nprod)
	clocks := make([]int64, nprod)
	seqs := make([]int, nprod)
	tBase := baseTime + int64(r.Intn(1000))
	tailSpan := int64(0)
	for k := 0; k < total; k++ {
		p := r.Intn(nprod)
		switch {
		case k < total/2 && r.Chance(1, 8):
			clocks[p] += st.Wait + int64(r.Intn(3)) - 1
		default:
			if step := int64(r.Intn(3)); tailSpan+step < st.Wait/4 {
				clocks[p] += step
				tailSpan += step
			}
		}
		n := contentSizes[r.Intn(len(contentSizes)-2)]
		if r.Chance(1, 3) {
			n = r.Intn(300)
		}
		sp := newSpec(r, p, seqs[p], tBase+clocks[p], n, false)
		seqs[p]++
		plans[p] = append(plans[p], sp)
	}
	var late []*recSpec
	tLate := tBase
	for _, cl := range clocks {
		if tBase+cl > tLate {
			tLate = tBase + cl
		}
	}
	for k := 0; k < nlate; k++ {
		late = append(late, newSpec(r, nprod, k, tLate+int64(k), r.Intn(120), false))
	}
	cancelAfter := int64(r.Range(1, total)) // timing 4: number of Adds after which the context is cancelled

	q := startQueueSender(c, caseID, sc, client, st, configured, nprod+1)
	if q == nil {
		return
	}
	s := q.s
	for p := range plans {
		for _, sp := range plans[p] {
			sc.hand(sp)
		}
	}
	for _, sp := range late {
		sc.hand(sp)
		sc.late[sp.ID] = true
	}
	badAt := planBad(sc, r, nbad, plans, func(p int) int64 { return tBase + clocks[p] }, st.Wait)
	var added atomic.Int64
	var wg sync.WaitGroup
	for p := 0; p < nprod; p++ {
		wg.Add(1)
		go func(p int) {
			defer wg.Done()
			defer func() {
				for _, b := range badAt[p][len(plans[p])] {
					s.Add(b.P)
				}
			}()
			for k, sp := range plans[p] {
				for _, b := range badAt[p][k] {
					s.Add(b.P)
				}
				s.Add(sp.build())
				added.Add(1)
				if k%5 == 4 {
					runtime.Gosched()
				}
			}
		}(p)
	}
	cancelled := false
	if timing == 4 {
		for added.Load() < cancelAfter {
			runtime.Gosched()
		}
		q.hc.cancel()
		cancelled = true
	}
	wg.Wait()
	if timing >= 1 && timing <= 3 {
		if !waitUntil(watchdog, func() bool { return queueLen(s.Queue) == 0 }) {
			c.Inconclusive(caseID, "the queue was not drained within the watchdog")
			q.stop()
			return
		}
	}
	if timing == 3 {
		// mechanism only: make it likely that the cancellation falls into the queue wait
		asleep := false
		for k := 0; k < 200 && !asleep; k++ {
			if asleep = runSleepingInQueueWait(); !asleep {
				time.Sleep(100 * time.Microsecond)
			}
		}
		if asleep {
			c.Count("cancelled_while_goroutine_seen_asleep_in_queue_wait", 1)
		}
	}
	if !cancelled {
		q.hc.cancel()
	}
	for _, sp := range late {
		s.Add(sp.build())
	}
	if !q.stop() {
		c.Inconclusive(caseID, "the background goroutine did not end within the watchdog after cancellation")
		return
	}
	// no idle-timeout flush can have happened when the goroutine was gone sooner than the wait time
	sc.earlyGuard = time.Since(q.t0).Milliseconds()+50 < st.Wait
	if sc.earlyGuard {
		c.Count("queue_scenarios_early_flush_judged", 1)
	}
	for _, id := range leftInQueue(s.Queue) {
		sc.inQueue[id] = true
	}
	c.Count("records_left_in_queue_at_stop", int64(len(sc.inQueue)))
	c.Count("queue_scenarios_stopped", 1)
	c.Count("stop_scenarios", 1)
	c.SetAdd("stop_timings", stopTimings[timing])
	c.Count("stop_timing/"+stopTimings[timing], 1)
	sc.hs = client.snapshot()
	sc.describe(r)
	sc.evaluate()
}

// ---- reconfiguration while records are pending in the queue ----------------------------------------

// drawReconf draws the settings of a reconfiguration made while qlen records are pending: each of
// the four keys is kept or changed; the queue size is changed in most cases — larger, smaller
// (down to below the number of records pending: what was accepted stays accepted) or to 1.
func drawReconf(r *vlib.Rand, cur settings, qlen int) (settings, string) {
	st := cur
	how := "same"
	switch r.Intn(8) {
	case 0, 1, 2:
		st.Queue = cur.Queue + r.Range(1, 60)
		how = "larger"
	case 3:
		st.Queue = cur.Queue + 1000
		how = "larger"
	case 4:
		st.Queue = qlen - r.Intn(3) // at or just below what is pending
		how = "smaller"
	case 5:
		st.Queue = cur.Queue / 2
		how = "smaller"
	case 6:
		st.Queue = 1
		how = "smaller"
	}
	if st.Queue < 1 {
		st.Queue = 1
	}
	switch {
	case st.Queue == cur.Queue:
		how = "same"
	case st.Queue > cur.Queue:
		how = "larger"
	default:
		how = "smaller"
	}
	if r.Chance(2, 3) || cur.Wait > 200 { // (never keep the 5 s default: the stop would take that long)
		st.Wait = int64(r.Range(30, 200))
	}
	if r.Chance(2, 3) {
		st.Buf = bufs[r.Intn(len(bufs))]
	}
	if r.Chance(2, 3) {
		st.ZipMin = zipMins[r.Intn(len(zipMins))]
	}
	return st, how
}

// runReconfig: the real ApplyConfig is called while records are pending in the queue. The
// sender's goroutine is parked inside the recording client's SendFlush (the client signals that
// it has entered and waits for the gate), so the monitor's ApplyConfig / VerifSettings calls are
// ordered against every access of that goroutine by the two channel operations — no
// unsynchronised access is introduced. While it is parked nothing leaves the queue: the monitor
// knows exactly how many records the queue holds and therefore which Add the capacity in force
// accepts. Every accepted record — put before, between and after the reconfigurations — must be
// emitted exactly once and in order once the client is released, batched under the settings
// applied last (the ones in force when the goroutine appends them).
func runReconfig(c *vlib.Ctx, section string, idx int, r *vlib.Rand) {
	caseID := fmt.Sprintf("%s#%d", section, idx)
	mode := pickMode(r)
	client := newRecClient(mode, true)
	sc := newScenario(c, section, "queue", mode)
	sc.setErrPlan(client, drawErrPlan(r))
	configured := !r.Chance(1, 7) // else: the built-in defaults are in force until the reconfiguration
	st := builtin
	if configured {
		st = drawSettings(r, true, 0)
		st.Queue = []int{1, 2, 7, 20, 50, 300}[r.Intn(6)]
		if st.Buf > 4096 {
			st.Buf = 4096
		}
	}
	old := runtime.GOMAXPROCS([]int{2, 4, 8, 16}[r.Intn(4)])
	defer runtime.GOMAXPROCS(old)
	sc.Desc["gomaxprocs"] = runtime.GOMAXPROCS(0)

	q := startQueueSender(c, caseID, sc, client, st, configured, 2)
	if q == nil {
		return
	}
	s, stop := q.s, q.stop
	minWait := st.Wait
	t := baseTime + int64(r.Intn(1000))
	seq := 0
	next := func(contentLen int) *recSpec {
		t += int64(r.Intn(3))
		sp := newSpec(r, 0, seq, t, contentLen, false)
		seq++
		return sp
	}

	// phase A (sometimes): records that pass through before anything is blocked
	if r.Bool() {
		client.disarm() // nothing is buffered: no hand-over can fall between arm() in startQueueSender and here
		nA := r.Range(1, 10)
		if nA > st.Queue {
			nA = st.Queue
		}
		for k := 0; k < nA; k++ {
			sp := next(r.Intn(200))
			sc.hand(sp)
			s.Add(sp.build())
		}
		if !waitUntil(watchdog, func() bool { return queueLen(s.Queue) == 0 }) {
			c.Inconclusive(caseID, "the queue was not drained within the watchdog")
			close(client.gate)
			stop()
			return
		}
		sc.Desc["records_before_the_blocked_hand_over"] = nA
		client.arm()
	}
	// R0 reaches the buffer limit in force by itself: appended under these settings it is flushed
	// at once and the client blocks inside that hand-over (or inside an earlier one made after
	// arm(): either way the goroutine is parked and takes nothing more from the queue).
	r0 := next(st.Buf + r.Intn(2000))
	sc.hand(r0)
	s.Add(r0.build())
	select {
	case <-client.entered:
	case <-time.After(watchdog):
		c.Inconclusive(caseID, "the blocked hand-over was not observed within the watchdog")
		close(client.gate)
		stop()
		return
	}
	// From here on the goroutine is parked. R0 is either in the pack being handed over (appended
	// under the first settings) or still in the queue (appended later, under the last ones).
	qlen := queueLen(s.Queue)
	pending := []*recSpec{}
	if qlen > 0 {
		pending = append(pending, r0)
		c.Count("reconfig_trigger_record_still_queued", 1)
	}
	nbad := 0
	put := func(n int) {
		for k := 0; k < n; k++ {
			if r.Chance(1, 10) {
				if b := newBad(r, nbad, t, st.Wait, true); b != nil {
					sc.handBad(b, fmt.Sprintf("r0.%d", seq))
					nbad++
					s.Add(b.P)
					if qlen < st.Queue {
						qlen++ // it takes a slot like any other
					}
				}
			}
			sp := next(-1)
			if r.Chance(2, 3) {
				sp.setContentLen(r, r.Intn(120))
			}
			sc.hand(sp)
			if qlen < st.Queue {
				qlen++
				pending = append(pending, sp)
			} else {
				sc.notAccepted[sp.ID] = true
				c.Count("records_over_capacity", 1)
			}
			s.Add(sp.build())
		}
	}
	rounds := r.Range(1, 3)
	var hows []string
	for k := 0; k < rounds; k++ {
		if k > 0 || r.Chance(5, 6) {
			put(r.Range(1, 14))
		}
		pend := len(pending)
		var how string
		st, how = drawReconf(r, st, qlen)
		s.ApplyConfig(newConf(st.vals()))
		sc.checkApplied(readSettings(s), st)
		sc.Epochs = append(sc.Epochs, epoch{st, true})
		if st.Wait < minWait {
			minWait = st.Wait
		}
		hows = append(hows, fmt.Sprintf("%s(pending %d, capacity %d)", how, pend, st.Queue))
		c.Count("applyconfig_calls", 1)
		c.Count("applyconfig_calls_with_records_pending/queue_size_"+how, 1)
		if pend > 0 {
			c.Count("reconfigurations_with_records_pending", 1)
			c.Count("records_pending_at_reconfiguration", int64(pend))
			if how != "same" {
				c.Count("queue_size_changes_with_records_pending", 1)
			}
			if st.Queue <= pend {
				c.Count("capacity_shrunk_to_or_below_pending", 1)
			}
		}
	}
	if r.Chance(3, 4) {
		put(r.Range(1, 14))
	}
	sc.Desc["reconfigurations_while_parked"] = hows
	sc.Desc["records_pending_at_release"] = len(pending)
	final := len(sc.Epochs) - 1
	for _, sp := range pending {
		sp.setIndex = final // appended after the release: the settings applied last are in force
	}
	close(client.gate)
	if !waitUntil(watchdog, func() bool { return queueLen(s.Queue) == 0 }) {
		c.Inconclusive(caseID, "the queue was not drained within the watchdog")
		stop()
		return
	}
	// phase C (sometimes): more records after the release, within the capacity in force
	if r.Bool() {
		nC := r.Range(1, 12)
		if nC > st.Queue {
			nC = st.Queue
		}
		for k := 0; k < nC; k++ {
			sp := next(r.Intn(200))
			sc.hand(sp)
			s.Add(sp.build())
		}
		if !waitUntil(watchdog, func() bool { return queueLen(s.Queue) == 0 }) {
			c.Inconclusive(caseID, "the queue was not drained within the watchdog")
			stop()
			return
		}
	}
	sc.earlyGuard = time.Since(q.t0).Milliseconds()+50 < minWait
	if !stop() {
		c.Inconclusive(caseID, "the background goroutine did not end within the watchdog after cancellation")
		return
	}
	if client.expired() {
		c.Inconclusive(caseID, "the blocked hand-over was not released within the watchdog")
		return
	}
	for _, id := range leftInQueue(s.Queue) {
		sc.inQueue[id] = true // nothing is expected here: the queue was seen empty before the stop
	}
	c.Count("queue_scenarios_stopped", 1)
	c.Count("reconfig_scenarios", 1)
	sc.hs = client.snapshot()
	sc.describe(r)
	sc.evaluate()
}

// cases runs one section and records how long this shard spent in it (evidence only).
func cases(c *vlib.Ctx, section string, n int, fn func(i int, r *vlib.Rand)) {
	t0 := time.Now()
	c.Cases(section, n, fn)
	c.Max("max_shard_ms_in/"+section, time.Since(t0).Milliseconds())
}

func main() {
	c := vlib.Start("C16")
	probeBadKinds(c)
	debug.SetGCPercent(400) // every pack allocates a gzip writer (~1 MB): collect less often
	race := c.Flavour == "race"
	if !race {
		cases(c, "append-defaults", c.N(96, 2400), func(i int, r *vlib.Rand) { runAppend(c, "append-defaults", r, true) })
		cases(c, "append-config", c.N(480, 12000), func(i int, r *vlib.Rand) { runAppend(c, "append-config", r, false) })
		cases(c, "senddirect-defaults", c.N(64, 1600), func(i int, r *vlib.Rand) { runSendDirect(c, "senddirect-defaults", r, true) })
		cases(c, "senddirect-config", c.N(320, 8000), func(i int, r *vlib.Rand) { runSendDirect(c, "senddirect-config", r, false) })
	}
	nq, nd, nc, ns, nr := c.N(240, 4000), c.N(8, 64), c.N(20, 200), c.N(96, 1600), c.N(64, 800)
	if race {
		nq, nd, nc, ns, nr = c.N(80, 1200), c.N(4, 24), c.N(8, 60), c.N(40, 480), c.N(16, 200)
	}
	cases(c, "queue-reconfig", nr, func(i int, r *vlib.Rand) { runReconfig(c, "queue-reconfig", i, r) })
	nl := c.N(48, 480)
	if race {
		nl = c.N(16, 120)
	}
	cases(c, "queue-lull", nl, func(i int, r *vlib.Rand) { runLull(c, "queue-lull", i, r) })
	cases(c, "queue-stop", ns, func(i int, r *vlib.Rand) { runStop(c, "queue-stop", i, r) })
	cases(c, "queue-config", nq, func(i int, r *vlib.Rand) { runQueue(c, "queue-config", i, r, "config") })
	cases(c, "queue-capacity", nc, func(i int, r *vlib.Rand) { runQueue(c, "queue-capacity", i, r, "capacity") })
	cases(c, "queue-defaults", nd, func(i int, r *vlib.Rand) { runQueue(c, "queue-defaults", i, r, "defaults") })

	if c.Only == "" {
		c.Floor("packs", 40, c.Counter("packs"))
		c.Floor("records_decoded_and_compared", 200, c.Counter("records_decoded_and_compared"))
		c.Floor("queue_scenarios_stopped", 3, c.Counter("queue_scenarios_stopped"))
		c.Floor("stop_scenarios", 2, c.Counter("stop_scenarios"))
		c.Floor("stop_scenarios_with_buffered_records_flushed_by_stop", 1, c.Counter("stop_scenarios_with_buffered_records_flushed_by_stop"))
		c.Floor("reconfigurations_with_records_pending", 1, c.Counter("reconfigurations_with_records_pending"))
		c.Floor("queue_size_changes_with_records_pending", 1, c.Counter("queue_size_changes_with_records_pending"))
		c.Floor("lull_scenarios", 1, c.Counter("lull_scenarios"))
		c.Floor("lull_batches_handed_over_within_deadline", 1, c.Counter("lull_batches_handed_over_within_deadline"))
		if len(usableBadKinds) > 0 {
			c.Floor("unencodable_records_handed_over", 2, c.Counter("unencodable_records_handed_over"))
		}
		c.Floor("handovers_answered_with_error", 4, c.Counter("handovers_answered_with_error"))
		c.Floor("handovers_answered_with_error_followed_by_further_packs", 3, c.Counter("handovers_answered_with_error_followed_by_further_packs"))
		c.Floor("packs_right_after_a_failed_handover_fully_judged", 3, c.Counter("packs_right_after_a_failed_handover_fully_judged"))
		c.Floor("handovers_answered_with_error_followed_by_further_packs/queue", 2, c.Counter("handovers_answered_with_error_followed_by_further_packs/queue"))
		if !race {
			c.Floor("retained_packs_compared", 20, c.Counter("retained_packs_compared"))
			c.Floor("handovers_answered_with_error_followed_by_further_packs/append", 15, c.Counter("handovers_answered_with_error_followed_by_further_packs/append"))
			c.Floor("handovers_answered_with_error_followed_by_further_packs/senddirect", 8, c.Counter("handovers_answered_with_error_followed_by_further_packs/senddirect"))
			c.Floor("handovers_answered_with_error_pack_retained", 10, c.Counter("handovers_answered_with_error_pack_retained"))
			c.Floor("handovers_answered_with_error_pack_consumed", 10, c.Counter("handovers_answered_with_error_pack_consumed"))
			c.Floor("defaults_settings_read", 20, c.Counter("defaults_settings_read"))
		}
	}
	c.Finish()
}
