package main

// Independent parser of the zip pack wire form and of the record stream inside a payload.
// Written from the layout (see refcodec); uses nothing from golib.

import (
	"bytes"
	"compress/gzip"
	"encoding/binary"
	"fmt"
	"io"
)

type parseErr struct{ msg string }

type rdr struct {
	b []byte
	p int
}

func (r *rdr) fail(f string, a ...interface{}) {
	panic(parseErr{fmt.Sprintf("offset %d: ", r.p) + fmt.Sprintf(f, a...)})
}

func (r *rdr) take(n int) []byte {
	if n < 0 || r.p+n > len(r.b) {
		r.fail("need %d bytes, %d left", n, len(r.b)-r.p)
	}
	s := r.b[r.p : r.p+n]
	r.p += n
	return s
}
func (r *rdr) u8() byte   { return r.take(1)[0] }
func (r *rdr) i16() int16 { return int16(binary.BigEndian.Uint16(r.take(2))) }
func (r *rdr) i32() int32 { return int32(binary.BigEndian.Uint32(r.take(4))) }
func (r *rdr) i64() int64 { return int64(binary.BigEndian.Uint64(r.take(8))) }
func (r *rdr) left() int  { return len(r.b) - r.p }
func (r *rdr) decimal() int64 {
	return r.decimalLen(int(r.u8()))
}
func (r *rdr) decimalLen(n int) int64 {
	switch n {
	case 0:
		return 0
	case 1:
		return int64(int8(r.u8()))
	case 2:
		return int64(r.i16())
	case 3:
		b := r.take(3)
		return int64(int32(uint32(b[0])<<24|uint32(b[1])<<16|uint32(b[2])<<8) >> 8)
	case 4:
		return int64(r.i32())
	case 5:
		b := r.take(5)
		u := uint64(b[0])<<32 | uint64(b[1])<<24 | uint64(b[2])<<16 | uint64(b[3])<<8 | uint64(b[4])
		return int64(u<<24) >> 24
	case 8:
		return r.i64()
	}
	r.fail("decimal length class %d", n)
	return 0
}
func (r *rdr) blob() []byte {
	n := int(r.u8())
	switch n {
	case 255:
		n = int(binary.BigEndian.Uint16(r.take(2)))
	case 254:
		n = int(r.i32())
	}
	return r.take(n)
}

func (r *rdr) header() (pcode int64, oid, okind, onode int32, t int64) {
	ver := r.u8()
	if ver <= 8 {
		pcode = r.decimalLen(int(ver))
		oid = r.i32()
		t = r.i64()
		return
	}
	if ver != 9 {
		r.fail("header version byte %d", ver)
	}
	pcode = r.decimal()
	oid, okind, onode = r.i32(), r.i32(), r.i32()
	t = r.i64()
	return
}

// value skips one tagged value (all implemented type codes).
func (r *rdr) value(depth int) {
	if depth > 32 {
		r.fail("value nesting too deep")
	}
	tag := r.u8()
	switch tag {
	case 0:
	case 10:
		r.u8()
	case 20:
		r.decimal()
	case 21, 30, 51:
		r.take(4)
	case 22, 40:
		r.take(8)
	case 45, 46:
		r.take(28)
	case 50, 60:
		r.blob()
	case 61:
		r.take(4)
	case 70:
		n := r.decimal()
		for i := int64(0); i < n; i++ {
			r.value(depth + 1)
		}
	case 71, 72:
		n := int(uint16(r.i16()))
		r.take(4 * n)
	case 74:
		n := int(uint16(r.i16()))
		r.take(8 * n)
	case 73:
		n := int(uint16(r.i16()))
		for i := 0; i < n; i++ {
			r.blob()
		}
	case 80:
		r.p--
		r.mapValue(depth)
	case 81:
		n := r.decimal()
		for i := int64(0); i < n; i++ {
			r.take(4)
			r.value(depth + 1)
		}
	default:
		r.fail("value tag %d", tag)
	}
}

// mapValue reads a tagged map and returns its number of entries and the text entry "id".
func (r *rdr) mapValue(depth int) (n int64, id string) {
	if t := r.u8(); t != 80 {
		r.fail("expected map tag 80, got %d", t)
	}
	n = r.decimal()
	if n < 0 || n > int64(r.left()) {
		r.fail("map count %d", n)
	}
	for i := int64(0); i < n; i++ {
		k := string(r.blob())
		if k == "id" && r.left() > 0 && r.b[r.p] == 50 {
			r.u8()
			id = string(r.blob())
			continue
		}
		r.value(depth + 1)
	}
	return
}

type parsedRec struct {
	Start, End int
	Time       int64
	Category   string
	TagCount   int64
	TagID      string
	Content    string
}

// record parses one log-sink record of the payload stream.
func (r *rdr) record() parsedRec {
	pr := parsedRec{Start: r.p}
	if t := r.i16(); t != packTypeLogSink {
		r.fail("record pack type %#x", uint16(t))
	}
	_, _, _, _, pr.Time = r.header()
	if v := r.u8(); v != 0 {
		r.fail("log-sink version byte %d", v)
	}
	pr.Category = string(r.blob())
	r.decimal() // tag hash
	pr.TagCount, pr.TagID = r.mapValue(0)
	r.decimal() // line
	pr.Content = string(r.blob())
	switch r.u8() {
	case 0:
	case 1:
		r.mapValue(0)
	default:
		r.fail("fields flag not 0/1")
	}
	pr.End = r.p
	return pr
}

// splitPayload cuts an uncompressed payload into records; on a parse error it returns the
// records parsed so far and the error text.
func splitPayload(b []byte) (recs []parsedRec, errText string) {
	r := &rdr{b: b}
	defer func() {
		if e := recover(); e != nil {
			if pe, ok := e.(parseErr); ok {
				errText = pe.msg
				return
			}
			panic(e)
		}
	}()
	for r.left() > 0 {
		recs = append(recs, r.record())
	}
	return
}

type zipWire struct {
	Status  byte
	Count   int64
	Records []byte
}

// parseZipWire parses the bytes of a whole zip pack (int16 type, header, status, decimal
// record count, blob payload).
func parseZipWire(b []byte) (z zipWire, errText string) {
	r := &rdr{b: b}
	defer func() {
		if e := recover(); e != nil {
			if pe, ok := e.(parseErr); ok {
				errText = pe.msg
				return
			}
			panic(e)
		}
	}()
	if t := r.i16(); t != packTypeZip {
		r.fail("pack type %#x is not the zip pack", uint16(t))
	}
	r.header()
	z.Status = r.u8()
	z.Count = r.decimal()
	z.Records = r.blob()
	if r.left() != 0 {
		r.fail("%d trailing bytes after the zip pack", r.left())
	}
	return
}

func gunzip(b []byte) ([]byte, error) {
	zr, err := gzip.NewReader(bytes.NewReader(b))
	if err != nil {
		return nil, err
	}
	zr.Multistream(false)
	out, err := io.ReadAll(zr)
	if err != nil {
		return nil, err
	}
	return out, zr.Close()
}
