package main

// Monitor-side plumbing: the recording TcpClient, a context whose Done() lets the sender's own
// goroutine apply the configuration, the mock configuration, and observation of the queue
// length (under the queue's own lock) and of the background goroutine's exit.

import (
	"reflect"
	"runtime"
	"strings"
	"sync"
	"time"
	"unsafe"

	"github.com/whatap/golib/config"
	"github.com/whatap/golib/lang/pack"
	wnet "github.com/whatap/golib/net"
	"github.com/whatap/golib/util/list"
	"github.com/whatap/golib/util/queue"
)

// handover is what the client kept of one SendFlush call.
type handover struct {
	Flush    bool
	NotZip   string        // Go type of the pack when it was not a *pack.ZipPack
	Wire     []byte        // mode S: the pack encoded at hand-over
	Retained *pack.ZipPack // mode R: the object itself (shared with the sender on purpose)
	Status   byte          // mode R: deep snapshot taken at hand-over
	Count    int           //   "
	Records  []byte        //   " (own copy)
	RecNil   bool          //   " Records was nil
}

type recClient struct {
	mu          sync.Mutex
	mode        byte // 'S' consume synchronously, 'R' retain
	hs          []*handover
	others      int // Send/Connect/Close calls (not expected from the sender)
	gate        chan struct{}
	entered     chan struct{}
	gateUsed    bool
	gateExpired bool
}

func newRecClient(mode byte, gated bool) *recClient {
	c := &recClient{mode: mode}
	if gated {
		c.gate = make(chan struct{})
		c.entered = make(chan struct{})
	}
	return c
}

func (c *recClient) Connect() error { c.mu.Lock(); c.others++; c.mu.Unlock(); return nil }
func (c *recClient) Close() error   { c.mu.Lock(); c.others++; c.mu.Unlock(); return nil }
func (c *recClient) Send(p pack.Pack, opts ...wnet.TcpClientOption) error {
	return c.SendFlush(p, false, opts...)
}

func (c *recClient) SendFlush(p pack.Pack, flush bool, opts ...wnet.TcpClientOption) error {
	h := &handover{Flush: flush}
	if zp, ok := p.(*pack.ZipPack); !ok {
		h.NotZip = reflect.TypeOf(p).String()
	} else if c.mode == 'S' {
		h.Wire = pack.ToBytesPack(zp)
	} else {
		h.Retained = zp
		h.Status = zp.Status
		h.Count = zp.RecordCount
		h.RecNil = zp.Records == nil
		h.Records = append([]byte{}, zp.Records...)
	}
	c.mu.Lock()
	c.hs = append(c.hs, h)
	block := c.gate != nil && !c.gateUsed
	if block {
		c.gateUsed = true
	}
	c.mu.Unlock()
	if block {
		close(c.entered)
		select {
		case <-c.gate:
		case <-time.After(watchdog): // never hang the caller (it might be the monitor's own goroutine)
			c.mu.Lock()
			c.gateExpired = true
			c.mu.Unlock()
		}
	}
	return nil
}

func (c *recClient) expired() bool {
	c.mu.Lock()
	defer c.mu.Unlock()
	return c.gateExpired
}

func (c *recClient) snapshot() []*handover {
	c.mu.Lock()
	defer c.mu.Unlock()
	return append([]*handover(nil), c.hs...)
}

// hookCtx is a context.Context. The sender's background goroutine calls Done() at every loop
// iteration; the first call runs `first` ON THAT GOROUTINE (used to call the real ApplyConfig
// without a data race against the loop's unlocked reads of the settings).
type hookCtx struct {
	mu      sync.Mutex
	done    chan struct{}
	closed  bool
	first   func()
	applied chan struct{}
}

func newHookCtx(first func()) *hookCtx {
	h := &hookCtx{done: make(chan struct{}), first: first, applied: make(chan struct{})}
	if first == nil {
		close(h.applied)
	}
	return h
}
func (h *hookCtx) Deadline() (time.Time, bool)       { return time.Time{}, false }
func (h *hookCtx) Value(key interface{}) interface{} { return nil }
func (h *hookCtx) Err() error {
	h.mu.Lock()
	defer h.mu.Unlock()
	if h.closed {
		return errCanceled
	}
	return nil
}
func (h *hookCtx) Done() <-chan struct{} {
	h.mu.Lock()
	f := h.first
	h.first = nil
	h.mu.Unlock()
	if f != nil {
		f()
		close(h.applied)
	}
	return h.done
}
func (h *hookCtx) cancel() {
	h.mu.Lock()
	if !h.closed {
		h.closed = true
		close(h.done)
	}
	h.mu.Unlock()
}

type canceledErr struct{}

func (canceledErr) Error() string { return "context canceled" }

var errCanceled error = canceledErr{}

// newConf is the repository's mock configuration answering GetInt from vals (keys that are
// not in vals answer the caller's fallback).
func newConf(vals map[string]int32) *config.MockConfig {
	m := &config.MockConfig{}
	cp := map[string]int32{}
	for k, v := range vals {
		cp[k] = v
	}
	// "mock.Anything" is testify's wildcard argument matcher.
	m.On("GetInt", "mock.Anything", "mock.Anything").Return(func(key string, def int) int32 {
		if v, ok := cp[key]; ok {
			return v
		}
		return int32(def)
	})
	return m
}

// queueLen reads the length of the queue's inner list while holding the queue's own lock
// (both fields are private). It does not call RequestQueue.Size(): that method is unlocked in
// some revisions (a data race for the monitor) and takes the same lock in others.
func queueLen(q *queue.RequestQueue) int {
	v := reflect.ValueOf(q).Elem()
	cond := *(**sync.Cond)(unsafe.Pointer(v.FieldByName("lock").UnsafeAddr()))
	inner := (*list.LinkedList)(unsafe.Pointer(v.FieldByName("queue").UnsafeAddr()))
	cond.L.Lock()
	n := inner.Size()
	cond.L.Unlock()
	return n
}

var stackBuf = make([]byte, 1<<20)

// runGoroutines counts live goroutines executing the sender's background loop.
func runGoroutines() int {
	n := runtime.Stack(stackBuf, true)
	return strings.Count(string(stackBuf[:n]), "zip.(*ZipSendProxyThread).run(")
}

// waitUntil polls cond until it is true or the watchdog expires.
func waitUntil(limit time.Duration, cond func() bool) bool {
	dl := time.Now().Add(limit)
	for i := 0; ; i++ {
		if cond() {
			return true
		}
		if time.Now().After(dl) {
			return false
		}
		if i < 50 {
			time.Sleep(200 * time.Microsecond)
		} else {
			time.Sleep(2 * time.Millisecond)
		}
	}
}
