package main

// Monitor-side plumbing: the recording TcpClient, a context that lets the sender's own
// goroutine apply the configuration (whichever way its loop observes the context; a hand-over
// made by that goroutine is the fallback), the mock configuration, and observation of the
// queue (under the queue's own lock) and of the background goroutine's state and exit.

import (
	"context"
	"errors"
	"fmt"
	"io"
	"net"
	"os"
	"reflect"
	"runtime"
	"strings"
	"sync"
	"sync/atomic"
	"time"
	"unsafe"

	"github.com/whatap/golib/config"
	"github.com/whatap/golib/lang/pack"
	wnet "github.com/whatap/golib/net"
	"github.com/whatap/golib/util/list"
	"github.com/whatap/golib/util/queue"

	"verif/vlib"
)

// handover is what the client kept of one SendFlush call.
type handover struct {
	Flush    bool
	NotZip   string        // Go type of the pack when it was not a *pack.ZipPack
	Wire     []byte        // mode S: the pack encoded at hand-over
	Retained *pack.ZipPack // mode R: the object itself (shared with the sender on purpose)
	Status   byte          // mode R: deep snapshot taken at hand-over
	Count    int           //   "
	Records  []byte        //   " (own copy)
	RecNil   bool          //   " Records was nil
	// the scenario's context was already cancelled when the pack was handed over
	AfterCancel bool
	// what the client answered to this hand-over ("" = nil). The pack counts as emitted either
	// way: it was passed to the client.
	Err string
	// when the pack was handed over (monotonic clock of the process) and the RecordCount it
	// carried then: used by the lull scenarios only (how long a batch sat in the buffer)
	At time.Time
	N  int
}

// errPlan scripts which hand-overs (0-based index over all SendFlush calls the client sees) the
// client answers with an error. The client keeps the pack in every case (mode S: encoded at once,
// mode R: retained) — a TCP client that reports an error may well have put the pack on the wire
// or into its own retry buffer; the sender is told only "error".
//
// The client never panics in SendFlush: the sender does not recover there (sendAndClear called
// from the idle timeout or the stop path of run, and SendDirect, have no recover around the
// client call — a panicking client would end the process; only Append's recover, meant for the
// encoder, would incidentally see it).
type errPlan struct {
	Kind  string // none | kth | every-nth | all | random | from-kth-on | first-k
	K, N  int
	Mask  []bool
	Value int // index into clientErrs of the first error answered
	Rot   int // 0: always the same value, 1: the next value each time
}

// sessionErr is an error of a type of the client's own (also a net.Error).
type sessionErr struct{ code int }

func (e *sessionErr) Error() string   { return fmt.Sprintf("session closed by peer (code %d)", e.code) }
func (e *sessionErr) Timeout() bool   { return true }
func (e *sessionErr) Temporary() bool { return true }

var clientErrs = []error{
	errors.New("write tcp 10.0.0.7:51234->10.0.0.1:6600: write: broken pipe"),
	io.EOF,
	&net.OpError{Op: "write", Net: "tcp", Err: os.ErrDeadlineExceeded},
	io.ErrShortWrite,
	fmt.Errorf("send failed: %w", io.ErrClosedPipe),
	&sessionErr{code: 7},
}

func drawErrPlan(r *vlib.Rand) *errPlan {
	p := &errPlan{Kind: "none", Value: r.Intn(len(clientErrs)), Rot: r.Intn(2)}
	if r.Chance(2, 5) {
		return p
	}
	switch r.Intn(10) {
	case 0, 1, 2:
		p.Kind, p.K = "kth", []int{0, 0, 1, 1, 2, 3, 5, 8}[r.Intn(8)]
	case 3, 4:
		p.Kind, p.N = "every-nth", r.Range(2, 4)
		p.K = r.Intn(p.N)
	case 5:
		p.Kind = "all"
	case 6, 7:
		p.Kind = "random"
		p.Mask = make([]bool, r.Range(3, 16))
		for i := range p.Mask {
			p.Mask[i] = r.Chance(1, 3)
		}
	case 8:
		p.Kind, p.K = "from-kth-on", r.Range(1, 4)
	default:
		p.Kind, p.K = "first-k", r.Range(1, 3)
	}
	return p
}

func (p *errPlan) String() string {
	switch p.Kind {
	case "none", "all":
		return p.Kind
	case "every-nth":
		return fmt.Sprintf("every-nth(n=%d,offset=%d)", p.N, p.K)
	case "random":
		m := ""
		for _, b := range p.Mask {
			if b {
				m += "E"
			} else {
				m += "."
			}
		}
		return "random(" + m + ")"
	}
	return fmt.Sprintf("%s(k=%d)", p.Kind, p.K)
}

// answer is what the client returns from its i-th hand-over (0-based).
func (p *errPlan) answer(i int) error {
	if p == nil {
		return nil
	}
	fail := false
	switch p.Kind {
	case "kth":
		fail = i == p.K
	case "every-nth":
		fail = i%p.N == p.K
	case "all":
		fail = true
	case "random":
		fail = p.Mask[i%len(p.Mask)]
	case "from-kth-on":
		fail = i >= p.K
	case "first-k":
		fail = i < p.K
	}
	if !fail {
		return nil
	}
	return clientErrs[(p.Value+i*p.Rot)%len(clientErrs)]
}

type recClient struct {
	mu          sync.Mutex
	mode        byte // 'S' consume synchronously, 'R' retain
	hs          []*handover
	others      int // Send/Connect/Close calls (not expected from the sender)
	gate        chan struct{}
	entered     chan struct{}
	gateUsed    bool
	gateExpired bool
	armed       bool     // the gate blocks the first hand-over made after arm()
	hc          *hookCtx // queue scenarios: the scenario's context (fallback hook, cancel state)
	plan        *errPlan // which hand-overs are answered with an error (nil: none)
}

func newRecClient(mode byte, gated bool) *recClient {
	c := &recClient{mode: mode}
	if gated {
		c.gate = make(chan struct{})
		c.entered = make(chan struct{})
		c.armed = true
	}
	return c
}

// disarm / arm: the gate must block the scenario's first hand-over, not the hand-over of a
// priming record (see primeRecord).
func (c *recClient) disarm() { c.mu.Lock(); c.armed = false; c.mu.Unlock() }
func (c *recClient) arm()    { c.mu.Lock(); c.armed = true; c.mu.Unlock() }

func (c *recClient) count() int {
	c.mu.Lock()
	defer c.mu.Unlock()
	return len(c.hs)
}

// recordsReceived sums the RecordCount of all packs handed over so far.
func (c *recClient) recordsReceived() int {
	c.mu.Lock()
	defer c.mu.Unlock()
	n := 0
	for _, h := range c.hs {
		n += h.N
	}
	return n
}

func (c *recClient) Connect() error { c.mu.Lock(); c.others++; c.mu.Unlock(); return nil }
func (c *recClient) Close() error   { c.mu.Lock(); c.others++; c.mu.Unlock(); return nil }
func (c *recClient) Send(p pack.Pack, opts ...wnet.TcpClientOption) error {
	return c.SendFlush(p, false, opts...)
}

func (c *recClient) SendFlush(p pack.Pack, flush bool, opts ...wnet.TcpClientOption) error {
	h := &handover{Flush: flush, At: time.Now()}
	firedHere := false
	if c.hc != nil {
		// A hand-over made by the sender's own goroutine is as good a place as a context call to
		// run the on-goroutine callback (the fallback when the loop never touches its context).
		firedHere = c.hc.trigger("SendFlush")
		h.AfterCancel = c.hc.isCancelled()
	}
	if zp, ok := p.(*pack.ZipPack); ok && zp != nil {
		h.N = zp.RecordCount
	}
	if zp, ok := p.(*pack.ZipPack); !ok {
		h.NotZip = reflect.TypeOf(p).String()
	} else if c.mode == 'S' {
		h.Wire = pack.ToBytesPack(zp)
	} else {
		h.Retained = zp
		h.Status = zp.Status
		h.Count = zp.RecordCount
		h.RecNil = zp.Records == nil
		h.Records = append([]byte{}, zp.Records...)
	}
	c.mu.Lock()
	answer := c.plan.answer(len(c.hs))
	if answer != nil {
		h.Err = answer.Error()
	}
	c.hs = append(c.hs, h)
	block := c.gate != nil && c.armed && !c.gateUsed && !firedHere
	if block {
		c.gateUsed = true
	}
	c.mu.Unlock()
	if block {
		close(c.entered)
		select {
		case <-c.gate:
		case <-time.After(watchdog): // never hang the caller (it might be the monitor's own goroutine)
			c.mu.Lock()
			c.gateExpired = true
			c.mu.Unlock()
		}
	}
	return answer
}

func (c *recClient) expired() bool {
	c.mu.Lock()
	defer c.mu.Unlock()
	return c.gateExpired
}

func (c *recClient) snapshot() []*handover {
	c.mu.Lock()
	defer c.mu.Unlock()
	return append([]*handover(nil), c.hs...)
}

// hookCtx is the context.Context given to the sender. Whatever the sender's background loop
// calls first on it ON ITS OWN GOROUTINE — Done(), Err(), Deadline() or Value() — runs `first`
// on that goroutine (used to read the settings and to call the real ApplyConfig without a data
// race against the loop's unlocked reads of the settings). Calls from any other goroutine
// (GetInstance itself, context.WithCancel(parent) made by the constructor, the monitor) never
// run it: the callback takes the package mutex that GetInstance holds. If the loop never
// touches its context (e.g. it selects on a channel captured by the constructor), the recording
// client calls trigger() from the first hand-over made by the sender's goroutine (see
// primeRecord in main.go).
type hookCtx struct {
	mu      sync.Mutex
	done    chan struct{}
	closed  bool
	first   func()
	fired   atomic.Bool
	via     string // which call ran the callback (written before applied is closed)
	applied chan struct{}
}

func newHookCtx(first func()) *hookCtx {
	h := &hookCtx{done: make(chan struct{}), first: first, applied: make(chan struct{})}
	if first == nil {
		h.fired.Store(true)
		close(h.applied)
	}
	return h
}

// onSenderGoroutine: the calling goroutine is the sender's background goroutine (its entry
// function is on the call stack; a goroutine's entry function is never inlined away).
func onSenderGoroutine() bool {
	var pcs [64]uintptr
	n := runtime.Callers(2, pcs[:])
	fr := runtime.CallersFrames(pcs[:n])
	for {
		f, more := fr.Next()
		if strings.HasSuffix(f.Function, "zip.(*ZipSendProxyThread).run") {
			return true
		}
		if !more {
			return false
		}
	}
}

// trigger runs the callback once, and only on the sender's goroutine. True when this very call
// ran it.
func (h *hookCtx) trigger(via string) bool {
	if h.fired.Load() || !onSenderGoroutine() {
		return false
	}
	h.mu.Lock()
	f := h.first
	h.first = nil
	h.mu.Unlock()
	if f == nil {
		return false
	}
	f()
	h.via = via
	h.fired.Store(true)
	close(h.applied)
	return true
}

func (h *hookCtx) Deadline() (time.Time, bool) {
	h.trigger("Deadline")
	return time.Time{}, false
}
func (h *hookCtx) Value(key interface{}) interface{} {
	h.trigger("Value")
	return nil
}
func (h *hookCtx) Err() error {
	h.trigger("Err")
	if h.isCancelled() {
		return errCanceled
	}
	return nil
}
func (h *hookCtx) Done() <-chan struct{} {
	h.trigger("Done")
	return h.done
}
func (h *hookCtx) isCancelled() bool {
	h.mu.Lock()
	defer h.mu.Unlock()
	return h.closed
}
func (h *hookCtx) cancel() {
	h.mu.Lock()
	if !h.closed {
		h.closed = true
		close(h.done)
	}
	h.mu.Unlock()
}

// waitApplied waits for the on-goroutine callback; false when limit expired first.
func (h *hookCtx) waitApplied(limit time.Duration) bool {
	t := time.NewTimer(limit)
	defer t.Stop()
	select {
	case <-h.applied:
		return true
	case <-t.C:
		return false
	}
}

var errCanceled = context.Canceled

// newConf is the repository's mock configuration answering GetInt from vals (keys that are
// not in vals answer the caller's fallback).
func newConf(vals map[string]int32) *config.MockConfig {
	m := &config.MockConfig{}
	cp := map[string]int32{}
	for k, v := range vals {
		cp[k] = v
	}
	// "mock.Anything" is testify's wildcard argument matcher.
	m.On("GetInt", "mock.Anything", "mock.Anything").Return(func(key string, def int) int32 {
		if v, ok := cp[key]; ok {
			return v
		}
		return int32(def)
	})
	return m
}

// queueLen reads the length of the queue's inner list while holding the queue's own lock
// (both fields are private). It does not call RequestQueue.Size(): that method is unlocked in
// some revisions (a data race for the monitor) and takes the same lock in others.
func queueLen(q *queue.RequestQueue) int {
	v := reflect.ValueOf(q).Elem()
	cond := *(**sync.Cond)(unsafe.Pointer(v.FieldByName("lock").UnsafeAddr()))
	inner := (*list.LinkedList)(unsafe.Pointer(v.FieldByName("queue").UnsafeAddr()))
	cond.L.Lock()
	n := inner.Size()
	cond.L.Unlock()
	return n
}

var stackBuf = make([]byte, 1<<20)

// runGoroutines counts live goroutines executing the sender's background loop.
func runGoroutines() int {
	n := runtime.Stack(stackBuf, true)
	return strings.Count(string(stackBuf[:n]), "zip.(*ZipSendProxyThread).run(")
}

// runSleepingInQueueWait: the sender's background goroutine is asleep inside the queue's timed
// wait (runtime.Stack header "[sleep…]" of the goroutine whose stack holds run and GetTimeout).
func runSleepingInQueueWait() bool {
	n := runtime.Stack(stackBuf, true)
	for _, g := range strings.Split(string(stackBuf[:n]), "\n\n") {
		if strings.Contains(g, "zip.(*ZipSendProxyThread).run(") {
			head := g
			if i := strings.IndexByte(g, '\n'); i >= 0 {
				head = g[:i]
			}
			return strings.Contains(head, "[sleep") && strings.Contains(g, ").GetTimeout(")
		}
	}
	return false
}

// leftInQueue removes and returns what is still in the queue. Only called after the background
// goroutine is gone (the monitor is then the only consumer).
func leftInQueue(q *queue.RequestQueue) []string {
	var ids []string
	for {
		v := q.GetNoWait()
		if v == nil {
			return ids
		}
		if lp, ok := v.(*pack.LogSinkPack); ok && lp != nil {
			ids = append(ids, lp.Category)
		}
	}
}

// waitUntil polls cond until it is true or the watchdog expires.
func waitUntil(limit time.Duration, cond func() bool) bool {
	dl := time.Now().Add(limit)
	for i := 0; ; i++ {
		if cond() {
			return true
		}
		if time.Now().After(dl) {
			return false
		}
		if i < 50 {
			time.Sleep(200 * time.Microsecond)
		} else {
			time.Sleep(2 * time.Millisecond)
		}
	}
}
