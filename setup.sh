#!/bin/sh
# Builds the driver (offline) and warms the Go build cache for every worker flavour.
set -e
cd "$(dirname "$0")"
export GOFLAGS=-mod=mod GOPROXY=off GOSUMDB=off GOTOOLCHAIN=local
mkdir -p bin evidence work
cd harness
go build -o ../bin/driver ./cmd/driver
if [ "$1" = "--warm" ]; then
  go build -tags verif -o /dev/null ./cmd/... 2>&1 || true
  go build -tags verif -race -o /dev/null ./cmd/... 2>&1 || true
fi
echo setup ok
