#!/bin/sh
# Builds the driver (offline) and warms the Go build cache for every worker flavour.
set -e
cd "$(dirname "$0")"
export GOFLAGS=-mod=mod GOPROXY=off GOSUMDB=off GOTOOLCHAIN=local
mkdir -p bin evidence work
cd harness
go build -o ../bin/driver ./cmd/driver
if [ "$1" = "--warm" ]; then
  mkdir -p ../work/warm && go build -tags verif -o ../work/warm/ ./cmd/... 2>&1 || true
  go build -tags verif -race -o ../work/warm/ ./cmd/... 2>&1 || true; rm -rf ../work/warm
fi
echo setup ok
