#!/usr/bin/env python3
# kf_add.py <property> <status known|fixed> <key> <commit or -> <what> [witness]
import json, sys
prop, status, key, commit, what = sys.argv[1:6]
wit = sys.argv[6] if len(sys.argv) > 6 else ''
e = {'property': prop, 'key': key, 'status': status, 'what': what}
if wit: e['witness'] = wit
if commit != '-':
    e['commit'] = commit
    e['record'] = 'fixed: property=%s %s %s' % (prop, commit, what)
open('/verif/known_findings.jsonl', 'a').write(json.dumps(e, ensure_ascii=False) + '\n')
